"""C11 correspondence harness: operators and result artefacts through dict, real JSON text, files and printed text."""
import atexit, io, json, os, re, shutil, tempfile
import numpy as np
import rapidjson
from hlib import *
from orquestra.quantum.operators import PauliTerm, PauliSum
from orquestra.quantum.operators import _io as opio
from orquestra.quantum.operators import _pauli_operators as pops
from orquestra.quantum import utils as U
from orquestra.quantum.measurements import measurements as M, expectation_values as EV, parities as PA
from orquestra.quantum.circuits import layouts as LA

H = Harness("C11", ["OQ.Base.CaseEq", "OQ.Base.Ring", "OQ.Pauli.Algebra", "OQ.Serde.Json", "OQ.Serde.Artefacts", "OQ.Serde.OpSerde",
                    "OQ.Serde.C11Cases"],
            "operator kinds: op-dict (terms and sums - simplified, with like terms (dyadic), constants, empty, several-digit qubit "
            "indices, int/float/complex coefficients incl. 1e-5, -0.0, 2j, (1e-20+5j), 123456789012345.0, values at the 1e-8 "
            "tolerance - through convert_op_to_dict, json/rapidjson text or save_operator/load_operator by path or open file, "
            "convert_dict_to_op), op-set (save/load_operator_set), op-dict-made (hand-made dictionaries: identity factors, "
            "duplicate indices, bad letters, zero/absent imag), text-term / text-sum (str(op) then PauliTerm(str)/PauliSum(str)), "
            "text-sum-out-of-domain (|c| >= 1e16), parse (hand-written and mutated strings: spaces, lower case, missing "
            "coefficient, duplicate index, bare I, junk). Compared in Coq: model dictionary = tree of the text Python wrote (numbers "
            "as written, with their exact rational values), model convert_dict_to_op on Gaussian rationals with the 1e-8 test = "
            "Python's terms; model repr = str(op); model parser (with _parse_complex as a table of the calls on first factors) = "
            "Python's result or error. path-object: every save/load pair given a pathlib.Path or bytes path (oracle only; "
            "finding F39, fixed). artefact kinds: array (int/float/complex numpy arrays of rank 0-3, with zero-length axes, through convert_array_to_dict, "
            "json text, convert_dict_to_array), array-dict (hand-made dictionaries: missing keys, empty/zero/mismatched imag, ragged "
            "lists), and one kind per save_*/load_* pair through a real temporary file read back by path or through an open file: "
            "measurements (incl. from_counts, numpy bits, empty), expvals (correlation/covariance frames None, [], one or several, "
            "real or complex), parities, value-estimate (precision None/float/int/numpy), list, layers, connectivity, ordering, "
            "nmeas (with and without frame_meas). Numbers from two streams: dyadic and float-hostile (1e-5, -0.0, 0.1, 1/3, 1e-20, "
            "123456789012345.0, 1e300, ints). Compared in Coq: the JSON tree of the file text (numbers as the text Python wrote) = "
            "model to_dict; what the loader returned = model from_dict of that tree. non-trivial = at least two numbers / one frame / "
            "one shot")

TMP = tempfile.mkdtemp(prefix="c11-", dir="/var/tmp")
atexit.register(lambda: shutil.rmtree(TMP, ignore_errors=True))

# ----------------------------------------------------------------------------- numbers and literals

HOSTILE = [1e-5, -0.0, 0.0, 0.1, 1 / 3, 1e-20, -2.5e-7, 123456789012345.0, 999999999999999.9, -1e-9, 1e-8, 2.0, -1.0, 1e300,
           5e-324, 1.7976931348623157e308, 3.141592653589793]

def gen_float(rng, hostile_p=0.4):
    if rng.random() < hostile_p:
        return rng.choice(HOSTILE)
    return float(dyadic(rng))

def gen_num(rng, kind):
    """a JSON-able description of a number: int, float, or ["c", re, im]"""
    if kind == "i":
        return rng.choice([0, 1, -1, 7, rng.randint(-1000, 1000), 2 ** 40 + 1])
    if kind == "f":
        return gen_float(rng)
    re = gen_float(rng)
    im = gen_float(rng) if rng.random() < 0.8 else rng.choice([0.0, -0.0])
    if rng.random() < 0.15:
        re = rng.choice([0.0, -0.0])
    return ["c", re, im]

def num_of(e):
    return complex(e[1], e[2]) if isinstance(e, list) else e

def cnum(x):
    if isinstance(x, (bool, np.bool_)):
        raise ValueError("bool where a number was expected")
    if isinstance(x, (int, np.integer)):
        return f"(NInt {cz(int(x))})"
    if isinstance(x, (float, np.floating)):
        return f"(NFloat {cstring(repr(float(x)))})"
    raise ValueError(f"not a real number: {x!r}")

def cnd(v, leaf):
    if isinstance(v, list):
        return "(NNode " + clist(v, lambda u: cnd(u, leaf)) + ")"
    return "(NLeaf " + leaf(v) + ")"

def carr(a):
    a = np.asarray(a)
    if np.iscomplexobj(a):
        return "(ACplx " + cnd(a.tolist(), lambda z: cpair(cnum(z.real), cnum(z.imag))) + ")"
    return "(AReal " + cnd(a.tolist(), cnum) + ")"

def parse_text(text):
    """the JSON tree of a text, numbers kept as the text that was written"""
    return json.loads(text, parse_float=lambda s: ("F", s), parse_int=lambda s: ("I", s),
                      parse_constant=lambda s: ("F", s))

def cjt(t):
    if t is None:
        return "TNull"
    if isinstance(t, tuple):
        return f"(TNum (NInt {cz(int(t[1]))}))" if t[0] == "I" else f"(TNum (NFloat {cstring(t[1])}))"
    if isinstance(t, bool):
        raise ValueError("bool in JSON tree")
    if isinstance(t, str):
        return f"(TStr {cstring(t)})"
    if isinstance(t, list):
        return "(TArr " + clist(t, cjt) + ")"
    if isinstance(t, dict):
        return "(TObj " + clist(list(t.items()), lambda kv: cpair(cstring(kv[0]), cjt(kv[1]))) + ")"
    raise ValueError(f"not a JSON value: {t!r}")

def cval(v):
    """a Python value (as loaded) as a tree"""
    if v is None:
        return "TNull"
    if isinstance(v, (bool, np.bool_)):
        raise ValueError("bool value")
    if isinstance(v, (int, np.integer, float, np.floating)):
        return f"(TNum {cnum(v)})"
    if isinstance(v, str):
        return f"(TStr {cstring(v)})"
    if isinstance(v, (list, tuple)):
        return "(TArr " + clist(list(v), cval) + ")"
    if isinstance(v, dict):
        return "(TObj " + clist(list(v.items()), lambda kv: cpair(cstring(kv[0]), cval(kv[1]))) + ")"
    raise ValueError(f"not a JSON-like value: {v!r}")

def ctuples(ts):
    return clist(ts, lambda t: clist(list(t), cval))

# ----------------------------------------------------------------------------- arrays

def gen_arr(rng, dt=None, shape=None):
    dt = dt or rng.choice(["i", "f", "f", "c", "c"])
    if shape is None:
        r = rng.random()
        if r < 0.1:
            shape = []
        elif r < 0.2:
            shape = rng.choice([[0], [0, 2], [2, 0], [1, 0, 2], [0, 0]])
        elif r < 0.55:
            shape = [rng.randint(1, 4)]
        elif r < 0.9:
            shape = [rng.randint(1, 3), rng.randint(1, 3)]
        else:
            shape = [rng.randint(1, 2), rng.randint(1, 2), 2]
    n = int(np.prod(shape)) if shape else 1
    zero_im = dt == "c" and rng.random() < 0.15
    data = []
    for _ in range(n):
        e = gen_num(rng, dt)
        if zero_im:
            e = ["c", e[1], rng.choice([0.0, -0.0])]
        data.append(e)
    return dict(dt=dt, shape=shape, data=data)

def build_arr(s):
    dtype = {"i": np.int64, "f": np.float64, "c": np.complex128}[s["dt"]]
    return np.array([num_of(e) for e in s["data"]], dtype=dtype).reshape(s["shape"])

def expected_shape(shape):
    """the shape that survives tolist(): axes after a zero-length axis are lost"""
    shape = list(shape)
    return shape[:shape.index(0) + 1] if 0 in shape else shape

def arr_same(orig, got):
    """independent deep comparison of a loaded array with the saved one"""
    if orig is None or got is None:
        return orig is None and got is None
    orig, got = np.asarray(orig), np.asarray(got)
    if list(got.shape) != expected_shape(orig.shape):
        return False
    return bool(np.array_equal(orig.reshape(got.shape), got))

def frames_same(orig, got):
    orig = orig if orig else None
    got = got if got else None
    if orig is None or got is None:
        return orig is None and got is None
    return len(orig) == len(got) and all(arr_same(a, b) for a, b in zip(orig, got))

def arr_size(s):
    return int(np.prod(s["shape"])) if s["shape"] else 1

# ----------------------------------------------------------------------------- files

def through_file(save, load, mode):
    """save(path); the text written; the loader's outcome given the path or an open file"""
    fd, path = tempfile.mkstemp(dir=TMP, suffix=".json")
    os.close(fd)
    try:
        save(path)
        with open(path) as f:
            text = f.read()
        if mode == "path":
            st, got = outcome(load, path)
        else:
            with open(path) as f:
                st, got = outcome(load, f)
    finally:
        os.unlink(path)
    return text, st, got

def loaded(st, got, f):
    return "None" if st != "ok" else "(Some " + f(got) + ")"


# ----------------------------------------------------------------------------- operators

LET = {"X": "PX", "Y": "PY", "Z": "PZ"}
TOL = Fraction(1e-8)
OP_HOSTILE = [1e-5, -0.0, 0.1, 1 / 3, 1e-20, -2.5e-7, 123456789012345.0, 999999999999999.9, 1e-8, 1e-9, 1.0000001e-8, -1e-8,
              2.0, -1.0, 3.141592653589793, 0.0]
OP_COMPLEX = [["c", 0.0, 2.0], ["c", 1e-20, 5.0], ["c", -0.0, 2.0], ["c", 1.0, 0.0], ["c", 0.0, -0.0], ["c", -1.5, -2.5],
              ["c", 0.1, 1e-5], ["c", 0.0, 1e-9], ["c", 123456789012345.0, -1.0], ["c", 2.5, -0.0]]
QUBITS = [0, 1, 2, 3, 5, 10, 12, 99, 123, 1000, 4999]

def gen_coef(rng, exact=False):
    r = rng.random()
    if exact:
        if r < 0.3: return rng.randint(-4, 4)
        if r < 0.8: return float(dyadic(rng, 16, 3))
        return ["c", float(dyadic(rng, 8, 2)), float(dyadic(rng, 8, 2))]
    if r < 0.15: return rng.choice([0, 1, -1, 2, 7, -3, 10 ** 14])
    if r < 0.4: return float(dyadic(rng))
    if r < 0.7: return rng.choice(OP_HOSTILE)
    if r < 0.85: return rng.choice(OP_COMPLEX)
    return ["c", gen_float(rng, 0.3) if rng.random() < 0.8 else 0.0, float(dyadic(rng))]

def gen_ops(rng, pool=QUBITS):
    k = rng.choice([0, 1, 1, 2, 2, 3, 4])
    qs = rng.sample(pool, k)
    return [[q, rng.choice("XYZ")] for q in qs]

def gen_opsum(rng):
    mode = rng.choice(["simplified", "simplified", "like-terms", "raw"])
    n = rng.choice([0, 1, 1, 2, 3, 4])
    terms, seen = [], set()
    pool = rng.sample(QUBITS, 5)
    for _ in range(n):
        ops = gen_ops(rng, pool)
        key = frozenset(map(tuple, ops))
        if mode == "like-terms" and terms and rng.random() < 0.5:
            ops = list(rng.choice(terms)["ops"])
            rng.shuffle(ops)
        elif mode != "raw" and key in seen:
            continue
        seen.add(frozenset(map(tuple, ops)))
        terms.append(dict(coef=gen_coef(rng, exact=(mode == "like-terms")), ops=ops))
    # like terms are added in floating point by the library and exactly by the model: give them dyadic coefficients
    keys = [frozenset(map(tuple, t["ops"])) for t in terms]
    for t, k in zip(terms, keys):
        if keys.count(k) > 1 and mode == "raw":
            t["coef"] = gen_coef(rng, exact=True)
    return dict(mode=mode, terms=terms)

def build_term(t):
    c = num_of(t["coef"])
    return PauliTerm({q: a for q, a in t["ops"]}, c)

def build_sum(spec):
    s = PauliSum([build_term(t) for t in spec["terms"]])
    return s.simplify() if spec["mode"] == "simplified" else s

def crt(x):
    return f"({cnum(x)}, {cq(Fraction(x))})"

def cops(items):
    return clist(list(items), lambda qa: f"({cnat(qa[0])}, {LET[qa[1]]})")

def cpyc(c, leaf):
    if isinstance(c, complex):
        return f"(PCplx {leaf(c.real)} {leaf(c.imag)})"
    return f"(PReal {leaf(c)})"

def csterm(t):
    """a term as the serialiser sees it: coefficient by Python type, operators in frozenset iteration order"""
    return f"({cpyc(t.coefficient, crt)}, {cops(t.operations)})"

def cgt(t):
    c = complex(t.coefficient)
    return f"(gt {cq(Fraction(c.real))} {cq(Fraction(c.imag))} {cops(sorted(t._ops.items()))})"

def cjt_rt(t):
    """tree of a JSON text with the numbers as written and their exact values"""
    if t is None:
        return "TNull"
    if isinstance(t, tuple):
        v = int(t[1]) if t[0] == "I" else float(t[1])
        tok = f"(NInt {cz(v)})" if t[0] == "I" else f"(NFloat {cstring(t[1])})"
        return f"(TNum ({tok}, {cq(Fraction(v))}))"
    if isinstance(t, str):
        return f"(TStr {cstring(t)})"
    if isinstance(t, list):
        return "(TArr " + clist(t, cjt_rt) + ")"
    if isinstance(t, dict):
        return "(TObj " + clist(list(t.items()), lambda kv: cpair(cstring(kv[0]), cjt_rt(kv[1]))) + ")"
    raise ValueError(f"not a JSON value: {t!r}")

def totals(terms):
    """operator set -> exact total coefficient (two Fractions)"""
    out = {}
    for t in terms:
        c = complex(t.coefficient)
        k = frozenset(t._ops.items())
        a, b = out.get(k, (Fraction(0), Fraction(0)))
        out[k] = (a + Fraction(c.real), b + Fraction(c.imag))
    return out

def same_matrix(orig_terms, got_terms, slack):
    """independent oracle: per operator set, the total coefficients agree to the zero tolerance"""
    a, b = totals(orig_terms), totals(got_terms)
    if len(b) != len(got_terms):
        return False, "the loaded operator repeats an operator set"
    for k in set(a) | set(b):
        x, y = a.get(k, (0, 0)), b.get(k, (0, 0))
        d2 = (x[0] - y[0]) ** 2 + (x[1] - y[1]) ** 2
        if d2 > (slack * TOL) ** 2:
            return False, f"operator set {sorted(k)}: {x} became {y}"
    return True, ""

def is_simplified(terms):
    keys = [frozenset(t._ops.items()) for t in terms]
    return len(set(keys)) == len(keys) and all(abs(complex(t.coefficient)) > 1e-8 for t in terms)

def exact_terms(orig_terms, got_terms):
    """for simplified operators: same terms in order, same operators, both coefficient parts bit for bit
    (a complex coefficient with a zero imaginary part may come back as its real part)"""
    if len(orig_terms) != len(got_terms):
        return False
    for a, b in zip(orig_terms, got_terms):
        if a._ops != b._ops:
            return False
        ca, cb = complex(a.coefficient), complex(b.coefficient)
        if (ca.real, ca.imag) != (cb.real, cb.imag):
            return False
        if isinstance(b.coefficient, complex) != (isinstance(a.coefficient, complex) and ca.imag != 0):
            return False
    return True

def op_through(op, via):
    """the text written and the loader's outcome"""
    if via in ("json", "rapidjson"):
        mod = json if via == "json" else rapidjson
        text = mod.dumps(opio.convert_op_to_dict(op))
        st, got = outcome(lambda: opio.convert_dict_to_op(mod.loads(text)))
        return text, st, got
    return through_file(lambda p: opio.save_operator(op, p), opio.load_operator, "path" if via == "file-path" else "file")

STAR = r"\ *\*\ *"
PLUS = r"\+(?![^(]*\))"
def coef_table(term_strs):
    """_parse_complex on the first factor of every term string, as a Coq table"""
    tab = {}
    for ts in term_strs:
        part0 = re.split(STAR, ts.strip(" "))[0]
        if part0 not in tab:
            st, v = outcome(pops._parse_complex, part0)
            tab[part0] = v if st == "ok" else None
    return clist(list(tab.items()), lambda kv: cpair(cstring(kv[0]), copt(kv[1], ccoef)))

def ccoef(c):
    return f"({cstring(str(c))}, {cpyc(c, cnum)})"

def ctterm(t):
    return f"({ccoef(t.coefficient)}, {cops(t._ops.items())})"

def printable(s):
    return all(32 <= ord(ch) < 127 for ch in s)

PARSE_STRINGS = ["X0", "x0*y1", " 2.0 * X0 * Z3 ", "2*X0*X0", "X0*I0", "X1*I0", "I", "i", "3*I", "I*I", "2.5", "", "*", "X", "X-1",
                 "Xa", "X0 Y1", "(1+2j)*X0", "1+2j*X0", "2.0*X01", "X0*", "j*X0", "1e5*Y2", "+X0", "2.0*X0 + 3*Y1", "2.0*X0+3*Y1",
                 "(1+2j)*X0 + (3-4j)*I", "X0 + ", "1e-5*X0 + 2*Y1", "X0 + (Y1", "2 * X0 +3*I", "1e+16*X0", "(1e+16+1j)*X0 + Y2",
                 "2.0*I*X3", "2.0*i", "0*I", "(2+0j)*I + (1+0j)*Z12*X0", "X0*Y0", "X10*Y1*Z100", "Z4999", "-X0", "- 1*X0", "1 2*X0",
                 "( 1 + 2j )*X0", "(1+2j) *X0 + 1", "X0 +  + Y1", "X0)+(Y1", "1e-5*X0 + 1e-5*X0", "nan*X0", "inf*I", "2.0**X0",
                 "Y3*2.0", "0x10*X0", "1_0*X1", "X0 * Y1 * Z2 * X3 * Y4"]
PIECES = ["X0", "Y1", "Z12", "I", "i3", "x2", "2.0", "(1+2j)", "-1", "1e-05", "3j", "*", " * ", " + ", "+", " ", "(", ")", "I0", "Q1", "X",
          "7", "0*I", "-0.0"]

def gen_operator(rng):
    kind = rng.choice(["op-dict", "op-dict", "op-dict", "op-set", "op-dict-made", "text-term", "text-sum", "text-sum", "parse", "parse"])
    if kind == "op-dict":
        single = rng.random() < 0.25
        spec = dict(mode="raw", terms=[dict(coef=gen_coef(rng), ops=gen_ops(rng))]) if single else gen_opsum(rng)
        return dict(kind=kind, single=single, spec=spec, via=rng.choice(["json", "rapidjson", "file-path", "file-open"]))
    if kind == "op-set":
        return dict(kind=kind, specs=[gen_opsum(rng) for _ in range(rng.randint(0, 3))], mode=rng.choice(["path", "file"]))
    if kind == "op-dict-made":
        po = lambda q, a: {"qubit": q, "op": a}
        v = rng.choice(["identity", "dup-index", "dup-with-identity", "bad-letter", "zero-imag", "no-coef", "negative-qubit",
                        "like-terms", "imag-list", "no-terms", "cancel"])
        terms = {
            "identity": [{"pauli_ops": [po(0, "X"), po(3, "I"), po(12, "Z")], "coefficient": {"real": 0.5}}],
            "dup-index": [{"pauli_ops": [po(1, "X"), po(1, "Y")], "coefficient": {"real": 1.0}}],
            "dup-with-identity": [{"pauli_ops": [po(1, "X"), po(1, "I")], "coefficient": {"real": 1.0}}],
            "bad-letter": [{"pauli_ops": [po(1, "x")], "coefficient": {"real": 1.0}}],
            "zero-imag": [{"pauli_ops": [po(2, "Y")], "coefficient": {"real": 1.5, "imag": rng.choice([0, 0.0, -0.0])}}],
            "no-coef": [{"pauli_ops": [po(2, "Y")]}],
            "negative-qubit": [{"pauli_ops": [po(-1, "Y")], "coefficient": {"real": 1.0}}],
            "like-terms": [{"pauli_ops": [po(2, "Y"), po(0, "X")], "coefficient": {"real": 0.5, "imag": 0.25}},
                           {"pauli_ops": [], "coefficient": {"real": 2}},
                           {"pauli_ops": [po(0, "X"), po(2, "Y")], "coefficient": {"real": 0.25}}],
            "imag-list": [{"pauli_ops": [], "coefficient": {"real": 1.0, "imag": [1.0]}}],
            "no-terms": None,
            "cancel": [{"pauli_ops": [po(7, "Z")], "coefficient": {"real": 0.5}}, {"pauli_ops": [po(7, "Z")], "coefficient": {"real": -0.5}},
                       {"pauli_ops": [po(1, "X")], "coefficient": {"real": 1e-9}}],
        }[v]
        return dict(kind=kind, variant=v, text=json.dumps({"terms": terms} if terms is not None else {"term": []}))
    if kind == "text-term":
        return dict(kind=kind, term=dict(coef=gen_coef(rng), ops=gen_ops(rng)))
    if kind == "text-sum":
        if rng.random() < 0.1:
            big = rng.choice([1e16, -2.5e17, 1e+22, ["c", 1e16, 1.0]])
            return dict(kind="text-sum-out-of-domain", spec=dict(mode="raw", terms=[dict(coef=big, ops=gen_ops(rng)),
                                                                                       dict(coef=gen_coef(rng), ops=gen_ops(rng))]))
        return dict(kind=kind, spec=gen_opsum(rng))
    if kind == "parse":
        if rng.random() < 0.5:
            s = rng.choice(PARSE_STRINGS)
        else:
            s = "".join(rng.choice(PIECES) for _ in range(rng.randint(1, 6)))
        return dict(kind=kind, text=s, as_sum=rng.random() < 0.6)
    raise ValueError(kind)

def run_operator(inp):
    kind = inp["kind"]
    tol = cq(TOL)
    if kind == "op-dict":
        op = build_term(inp["spec"]["terms"][0]) if inp["single"] else build_sum(inp["spec"])
        terms = list(op.terms)
        text, st, got = op_through(op, inp["via"])
        tree = parse_text(text)
        ok, msg = st == "ok", f"loading raised {got}"
        if ok:
            ok, msg = same_matrix(terms, got.terms, max(1, len(terms)))
        if ok and is_simplified(terms) and not exact_terms(terms, got.terms):
            ok, msg = False, f"simplified operator {op} came back as {got}"
        order = " && ".join(f"order_ok {cops(t.operations)} {cops(sorted(t._ops.items()))}" for t in terms) or "true"
        return dict(chk=f"op_dict_case {tol} {clist(terms, csterm)} {cjt_rt(tree)} {loaded(st, got, lambda g: clist(g.terms, cgt))} && {order}",
                    oracle_ok=ok, oracle_msg="" if ok else f"{op} via {inp['via']}: {msg}; text {text!r}",
                    kind=f"op-dict/{inp['via']}" + ("-term" if inp["single"] else "-" + inp["spec"]["mode"]),
                    nontrivial=len(terms) >= 2 or any(len(t._ops) >= 2 for t in terms))
    if kind == "op-set":
        ops = [build_sum(sp) for sp in inp["specs"]]
        text, st, got = through_file(lambda p: opio.save_operator_set(ops, p), opio.load_operator_set, inp["mode"])
        ok, msg = st == "ok" and len(got) == len(ops), f"loading gave {got}"
        if ok:
            for o, g in zip(ops, got):
                ok, msg = same_matrix(o.terms, g.terms, max(1, len(o.terms)))
                if ok and is_simplified(o.terms) and not exact_terms(o.terms, g.terms):
                    ok, msg = False, f"simplified operator {o} came back as {g}"
                if not ok:
                    break
        return dict(chk=f"opset_case {tol} {clist(ops, lambda o: clist(o.terms, csterm))} {cjt_rt(parse_text(text))} "
                        f"{loaded(st, got, lambda gs: clist(gs, lambda g: clist(g.terms, cgt)))}",
                    oracle_ok=ok, oracle_msg="" if ok else f"operator set {ops}: {msg}", kind=f"op-set/{inp['mode']}", nontrivial=len(ops) >= 2)
    if kind == "op-dict-made":
        st, got = outcome(lambda: opio.convert_dict_to_op(json.loads(inp["text"])))
        return dict(chk=f"op_from_case {tol} {cjt_rt(parse_text(inp['text']))} {loaded(st, got, lambda g: clist(g.terms, cgt))}",
                    oracle_ok=True, kind=f"op-dict-made-{inp['variant']}" + ("" if st == "ok" else "-rejected"), nontrivial=True)
    if kind == "text-term":
        t = build_term(inp["term"])
        s = str(t)
        st, got = outcome(PauliTerm, s)
        c = t.coefficient
        rs, rv = outcome(pops._parse_complex, str(c))
        ok = st == "ok" and got._ops == t._ops and got.coefficient == complex(c) and rs == "ok" and rv == complex(c)
        return dict(chk=f"repr_term_case {ctterm(t)} {cstring(s)} && parse_term_case {coef_table([s])} {cstring(s)} {loaded(st, got, ctterm)}",
                    oracle_ok=ok, oracle_msg="" if ok else f"PauliTerm({s!r}) -> {got}", kind="text-term" + ("-constant" if not t._ops else ""),
                    nontrivial=len(t._ops) >= 1)
    if kind in ("text-sum", "text-sum-out-of-domain"):
        op = build_sum(inp["spec"])
        s = str(op)
        st, got = outcome(PauliSum, s)
        strs = re.split(PLUS, s)
        tab = coef_table([x.strip() for x in strs])
        res = loaded(st, got, lambda g: clist(g.terms, ctterm))
        if kind == "text-sum-out-of-domain":
            return dict(chk=f"parse_sum_case {tab} {cstring(s)} {res}", oracle_ok=True, kind=kind + ("" if st == "ok" else "-rejected"), nontrivial=True)
        ok, msg = st == "ok", f"PauliSum({s!r}) raised {got}"
        if ok:
            ok, msg = same_matrix(op.terms, got.terms, 0) if len(set(frozenset(t._ops.items()) for t in got.terms)) == len(got.terms) \
                else (totals(op.terms) == totals(got.terms), "totals differ")
        if ok and len(op.terms) >= 1:
            ok = len(got.terms) == len(op.terms) and all(a._ops == b._ops and complex(a.coefficient) == b.coefficient
                                                         for a, b in zip(op.terms, got.terms))
            msg = "terms differ"
        return dict(chk=f"repr_sum_case {clist(op.terms, ctterm)} {cstring(s)} && parse_sum_case {tab} {cstring(s)} {res}",
                    oracle_ok=ok, oracle_msg="" if ok else f"{s!r}: {msg}: {got}",
                    kind="text-sum" + ("-empty" if not op.terms else "") + ("-constant" if any(not t._ops for t in op.terms) else ""),
                    nontrivial=len(op.terms) >= 2)
    if kind == "parse":
        s = inp["text"]
        if inp["as_sum"]:
            st, got = outcome(PauliSum, s)
            strs = re.split(PLUS, s)
            chk = f"parse_sum_case {coef_table([x.strip() for x in strs])} {cstring(s)} {loaded(st, got, lambda g: clist(g.terms, ctterm))}"
        else:
            st, got = outcome(PauliTerm, s)
            chk = f"parse_term_case {coef_table([s])} {cstring(s)} {loaded(st, got, ctterm)}"
        big = st == "ok" and any(q > 5000 for t in (got.terms if inp["as_sum"] else [got]) for q in t._ops)
        return dict(chk=None if big else chk, oracle_ok=st == "ok" or got == "ValueError",
                    oracle_msg="" if st == "ok" or got == "ValueError" else f"parsing {s!r} raised {got}",
                    kind="parse-" + ("sum" if inp["as_sum"] else "term") + ("" if st == "ok" else "-rejected"), nontrivial=len(s) >= 4)
    raise ValueError(kind)


# ----------------------------------------------------------------------------- path objects (finding F39, fixed)

import pathlib
F_PATHLIKE = "F39"

def _digest(x):
    if isinstance(x, (PauliSum, PauliTerm)): return str(x)
    if isinstance(x, list) and x and isinstance(x[0], PauliSum): return [str(o) for o in x]
    if isinstance(x, EV.ExpectationValues): return [np.asarray(x.values).tolist(), x.correlations, x.estimator_covariances]
    if isinstance(x, PA.Parities): return [np.asarray(x.values).tolist(), x.correlations]
    if isinstance(x, U.ValueEstimate): return [float(x), x.precision]
    if isinstance(x, M.Measurements): return x.bitstrings
    if isinstance(x, LA.CircuitLayers): return x.layers
    if isinstance(x, LA.CircuitConnectivity): return x.connectivity
    if isinstance(x, tuple): return [x[0], x[1], None if x[2] is None else np.asarray(x[2]).tolist()]
    return x

PATH_PAIRS = {
    "operator": (lambda p: opio.save_operator(PauliTerm("X0*Z12", 0.5), p), opio.load_operator),
    "operator-set": (lambda p: opio.save_operator_set([PauliSum("X0 + 2*Y1")], p), opio.load_operator_set),
    "expvals": (lambda p: EV.save_expectation_values(EV.ExpectationValues(np.array([0.5, -1.0])), p), EV.load_expectation_values),
    "parities": (lambda p: PA.save_parities(PA.Parities(np.array([[3, 1]])), p), PA.load_parities),
    "value-estimate": (lambda p: U.save_value_estimate(U.ValueEstimate(1.5, 0.25), p), U.load_value_estimate),
    "list": (lambda p: U.save_list([1, 2.5, "a"], p), U.load_list),
    "measurements": (lambda p: M.Measurements([(0, 1), (1, 1)]).save(p), M.Measurements.load_from_file),
    "layers": (lambda p: LA.save_circuit_layers(LA.CircuitLayers([[(0, 1)], [(1, 2)]]), p), LA.load_circuit_layers),
    "connectivity": (lambda p: LA.save_circuit_connectivity(LA.CircuitConnectivity([(0, 1)]), p), LA.load_circuit_connectivity),
    "ordering": (lambda p: LA.save_circuit_ordering([2, 0, 1], p), LA.load_circuit_ordering),
    "nmeas": (lambda p: U.save_nmeas_estimate(10.5, 3, p, np.array([1.0, 2.0])), U.load_nmeas_estimate),
}
def run_path_object(inp):
    save, load = PATH_PAIRS[inp["what"]]
    fd, path = tempfile.mkstemp(dir=TMP, suffix=".json")
    os.close(fd)
    arg = path.encode() if inp["as_bytes"] else pathlib.Path(path)
    try:
        st0, _ = outcome(save, arg)
        st1, want = outcome(load, path)
        st, got = outcome(load, arg)
    finally:
        os.unlink(path)
    ok = st0 == "ok" and st1 == "ok" and st == "ok" and _digest(got) == _digest(want)
    return dict(chk=None, oracle_ok=ok, nontrivial=True,
                oracle_msg="" if ok else f"{inp['what']}: saved with a {'bytes' if inp['as_bytes'] else 'pathlib.Path'} path ({st0}), "
                                         f"loading with the same path object: {got if st == 'err' else 'different value'}",
                kind="path-object-" + inp["what"] + ("-bytes" if inp["as_bytes"] else ""))

def w_f39():
    fd, path = tempfile.mkstemp(dir=TMP, suffix=".json")
    os.close(fd)
    try:
        opio.save_operator(PauliTerm("X0", 0.5), pathlib.Path(path))
        st, got = outcome(opio.load_operator, pathlib.Path(path))
    finally:
        os.unlink(path)
    return st != "ok", f"save_operator(op, Path(p)); load_operator(Path(p)) -> {got}"

# ----------------------------------------------------------------------------- generator

def gen_frames(rng, dt):
    r = rng.random()
    if r < 0.25:
        return None
    if r < 0.4:
        return []
    k = rng.choice([1, 1, 2, 3])
    n = rng.randint(1, 2)
    return [gen_arr(rng, dt=rng.choice([dt, "f", "c"]), shape=[n, n]) for _ in range(k)]

def gen_jsonish(rng, depth=0):
    r = rng.random()
    if depth >= 2 or r < 0.5:
        return rng.choice([rng.randint(-5, 5), gen_float(rng), "a", "", None, "x y", 10 ** 20])
    if r < 0.8:
        return [gen_jsonish(rng, depth + 1) for _ in range(rng.randint(0, 3))]
    return {rng.choice(["k", "real", "list", "a b"]) + str(i): gen_jsonish(rng, depth + 1) for i in range(rng.randint(0, 2))}

def gen_tuples(rng):
    return [[rng.randint(0, 40) for _ in range(rng.choice([2, 2, 2, 3, 0]))] for _ in range(rng.randint(0, 4))]

ARTEFACTS = ["array", "array", "array-dict", "measurements", "expvals", "expvals", "expvals-dict", "parities", "value-estimate",
             "value-estimate-dict", "list", "layers", "connectivity", "ordering", "nmeas"]

def gen_artefact(rng):
    kind = rng.choice(ARTEFACTS)
    mode = rng.choice(["path", "file"])
    if kind == "array":
        return dict(kind=kind, arr=gen_arr(rng))
    if kind == "array-dict":
        n = rng.randint(1, 3)
        re = [gen_num(rng, rng.choice("if")) for _ in range(n)]
        v = rng.choice(["noimag", "empty-imag", "zero-imag-scalar", "imag", "mismatch", "ragged", "noreal", "null-imag", "nested-empty"])
        if v == "noimag": d = {"real": re}
        elif v == "empty-imag": d = {"real": [], "imag": []}
        elif v == "zero-imag-scalar": d = {"real": re[0], "imag": rng.choice([0, 0.0, -0.0])}
        elif v == "imag": d = {"real": re, "imag": [gen_num(rng, rng.choice("if")) for _ in range(n)]}
        elif v == "mismatch": d = {"real": re + [1.5, 2.5], "imag": [0.5] * (n + 3)}
        elif v == "ragged": d = {"real": [[1.0, 2.0], [3.0]]}
        elif v == "noreal": d = {"imag": re}
        elif v == "null-imag": d = {"real": re, "imag": None}
        else: d = {"real": [[], []], "imag": [[], []]}
        return dict(kind=kind, variant=v, text=json.dumps(d))
    if kind == "measurements":
        w = rng.randint(0, 4)
        bs = [[rng.randint(0, 1) for _ in range(w)] for _ in range(rng.choice([0, 1, 3, 6]))]
        return dict(kind=kind, mode=mode, bits=bs, via=rng.choice(["tuples", "tuples", "counts", "numpy"]))
    if kind == "expvals":
        dt = rng.choice(["f", "f", "c"])
        return dict(kind=kind, mode=mode, values=gen_arr(rng, dt=dt, shape=[rng.randint(0, 4)]),
                    corr=gen_frames(rng, dt), cov=gen_frames(rng, dt))
    if kind == "expvals-dict":
        vals = {"real": [gen_float(rng) for _ in range(2)]}
        fr = {"real": [[0.5]]}
        v = rng.choice(["plain", "empty-frames", "null-frames", "only-cov", "no-values", "frames-not-list"])
        d = {"expectation_values": vals}
        if v == "empty-frames": d.update(correlations=[], estimator_covariances=[])
        elif v == "null-frames": d.update(correlations=None)
        elif v == "only-cov": d.update(estimator_covariances=[fr, {"real": [[1.0, 2.0]], "imag": [[0.0, 4.0]]}])
        elif v == "no-values": d = {"correlations": [fr]}
        elif v == "frames-not-list": d.update(correlations=5)
        return dict(kind=kind, variant=v, text=json.dumps(d))
    if kind == "parities":
        n = rng.randint(0, 3)
        corr = None
        r = rng.random()
        if r < 0.2: corr = []
        elif r < 0.7: corr = [gen_arr(rng, dt="i", shape=[n, n, 2]) for _ in range(rng.choice([1, 2]))]
        return dict(kind=kind, mode=mode, values=gen_arr(rng, dt="i", shape=[n, 2]), corr=corr)
    if kind == "value-estimate":
        p = rng.choice(["none", "float", "int", "numpy", "zero"])
        prec = {"none": None, "float": gen_float(rng), "int": rng.randint(0, 9), "numpy": gen_float(rng), "zero": rng.choice([0, 0.0])}[p]
        return dict(kind=kind, mode=mode, value=rng.choice([gen_float(rng), rng.randint(-9, 9)]), prec=prec, prec_kind=p)
    if kind == "value-estimate-dict":
        v = rng.choice(["no-precision", "int-value", "null", "no-value"])
        d = {"no-precision": {"value": gen_float(rng)}, "int-value": {"value": rng.randint(-9, 9), "precision": 0.25},
             "null": {"value": gen_float(rng), "precision": None}, "no-value": {"precision": 1.0}}[v]
        return dict(kind=kind, variant=v, text=json.dumps(d))
    if kind == "list":
        return dict(kind=kind, mode=mode, items=[gen_jsonish(rng) for _ in range(rng.randint(0, 4))], tuples=rng.random() < 0.3)
    if kind == "layers":
        return dict(kind=kind, mode=mode, layers=[gen_tuples(rng) for _ in range(rng.randint(0, 3))])
    if kind == "connectivity":
        return dict(kind=kind, mode=mode, conn=gen_tuples(rng))
    if kind == "ordering":
        n = rng.randint(0, 6)
        return dict(kind=kind, mode=mode, ordering=rng.sample(range(n + 3), n))
    if kind == "nmeas":
        fm = gen_arr(rng, dt=rng.choice("fi"), shape=[rng.randint(0, 4)]) if rng.random() < 0.6 else None
        return dict(kind=kind, nmeas=rng.choice([gen_float(rng), rng.randint(1, 10 ** 6)]), nterms=rng.randint(0, 50), fm=fm)
    raise ValueError(kind)

def gen(rng, tier):
    n = {"quick": 900, "search": 400}.get(tier, 20000)
    for _ in range(n):
        r = rng.random()
        if r < 0.05:
            yield dict(kind="path-object", what=rng.choice(sorted(PATH_PAIRS)), as_bytes=rng.random() < 0.3)
        else:
            yield gen_operator(rng) if r < 0.5 else gen_artefact(rng)

# ----------------------------------------------------------------------------- cases

def tup(x):
    """lists -> tuples, as an artefact holding tuples would have them"""
    return tuple(tup(y) for y in x) if isinstance(x, list) else x

def untuple(x):
    if isinstance(x, (list, tuple)):
        return [untuple(y) for y in x]
    if isinstance(x, dict):
        return {k: untuple(v) for k, v in x.items()}
    return x

def cev(values, corr, cov):
    fr = lambda l: clist(l, carr)
    return f"(mk_ev {carr(values)} {copt(corr, fr)} {copt(cov, fr)})"

def run_artefact(inp):
    kind = inp["kind"]
    mode = inp.get("mode", "path")
    lab = kind + ("/" + mode if "mode" in inp else "")
    if kind == "array":
        a = build_arr(inp["arr"])
        d = U.convert_array_to_dict(a)
        text = json.dumps(d)
        st, got = outcome(lambda: U.convert_dict_to_array(json.loads(text)))
        ok = st == "ok" and arr_same(a, got)
        if ok and np.iscomplexobj(a) and not np.iscomplexobj(got):
            ok = not np.any(a.imag != 0)          # a complex array may come back real only when its imaginary part is zero
        sub = "complex" if inp["arr"]["dt"] == "c" else "real"
        if 0 in inp["arr"]["shape"]:
            sub += "-zero-axis"
        return dict(chk=f"arr_case {carr(a)} {cjt(parse_text(text))} {loaded(st, got, carr)}", oracle_ok=ok,
                    oracle_msg="" if ok else f"array {a!r} -> {text} -> {got!r}", kind=f"array-{sub}", nontrivial=arr_size(inp["arr"]) >= 2)
    if kind == "array-dict":
        st, got = outcome(lambda: U.convert_dict_to_array(json.loads(inp["text"])))
        return dict(chk=f"arr_from_case {cjt(parse_text(inp['text']))} {loaded(st, got, carr)}", oracle_ok=True,
                    kind=f"array-dict-{inp['variant']}" + ("" if st == "ok" else "-rejected"), nontrivial=True)
    if kind == "measurements":
        bits = [tuple(b) for b in inp["bits"]]
        if inp["via"] == "counts":
            counts = {}
            for b in bits:
                k = "".join(map(str, b))
                counts[k] = counts.get(k, 0) + 1
            m = M.Measurements.from_counts(counts)
        elif inp["via"] == "numpy":
            m = M.Measurements([tuple(np.int8(x) for x in b) for b in bits])
        else:
            m = M.Measurements(bits)
        held = [tuple(int(x) for x in b) for b in m.bitstrings]
        text, st, got = through_file(m.save, M.Measurements.load_from_file, mode)
        ok = st == "ok" and [tuple(b) for b in got.bitstrings] == held and all(isinstance(b, tuple) for b in got.bitstrings)
        return dict(chk=f"meas_case {clist(held, lambda b: clist(b, cz))} {cjt(parse_text(text))} "
                        f"{loaded(st, got, lambda g: ctuples(g.bitstrings))}",
                    oracle_ok=ok, oracle_msg="" if ok else f"measurements {held} -> {text!r} -> {getattr(got, 'bitstrings', got)}",
                    kind=lab + "-" + inp["via"], nontrivial=len(held) >= 1)
    if kind == "expvals":
        values = build_arr(inp["values"])
        corr = None if inp["corr"] is None else [build_arr(s) for s in inp["corr"]]
        cov = None if inp["cov"] is None else [build_arr(s) for s in inp["cov"]]
        e = EV.ExpectationValues(values, corr, cov)
        text, st, got = through_file(lambda p: EV.save_expectation_values(e, p), EV.load_expectation_values, mode)
        ok = st == "ok" and arr_same(values, got.values) and frames_same(corr, got.correlations) and \
            frames_same(cov, got.estimator_covariances)
        return dict(chk=f"ev_case {cev(values, corr, cov)} {cjt(parse_text(text))} "
                        f"{loaded(st, got, lambda g: cev(g.values, g.correlations, g.estimator_covariances))}",
                    oracle_ok=ok, oracle_msg="" if ok else f"expectation values {inp} -> {text!r} -> {getattr(got, '__dict__', got)}",
                    kind=lab + ("-frames" if corr or cov else ""), nontrivial=bool(corr or cov) or values.size >= 2)
    if kind == "expvals-dict":
        st, got = outcome(lambda: EV.ExpectationValues.from_dict(json.loads(inp["text"])))
        return dict(chk=f"ev_from_case {cjt(parse_text(inp['text']))} "
                        f"{loaded(st, got, lambda g: cev(g.values, g.correlations, g.estimator_covariances))}",
                    oracle_ok=True, kind=f"expvals-dict-{inp['variant']}" + ("" if st == "ok" else "-rejected"), nontrivial=True)
    if kind == "parities":
        values = build_arr(inp["values"])
        corr = None if inp["corr"] is None else [build_arr(s) for s in inp["corr"]]
        p = PA.Parities(values, corr)
        text, st, got = through_file(lambda f: PA.save_parities(p, f), PA.load_parities, mode)
        ok = st == "ok" and arr_same(values, got.values) and frames_same(corr, got.correlations)
        cp = lambda v, c: f"(mk_par {carr(v)} {copt(c, lambda l: clist(l, carr))})"
        return dict(chk=f"par_case {cp(values, corr)} {cjt(parse_text(text))} {loaded(st, got, lambda g: cp(g.values, g.correlations))}",
                    oracle_ok=ok, oracle_msg="" if ok else f"parities {inp} -> {text!r} -> {getattr(got, '__dict__', got)}",
                    kind=lab + ("-frames" if corr else ""), nontrivial=values.size >= 2)
    if kind == "value-estimate":
        prec = np.float64(inp["prec"]) if inp["prec_kind"] == "numpy" else inp["prec"]
        v = U.ValueEstimate(inp["value"], prec)
        text, st, got = through_file(lambda f: U.save_value_estimate(v, f), U.load_value_estimate, mode)
        ok = st == "ok" and float(got) == float(inp["value"]) and type(got) is U.ValueEstimate and \
            ((got.precision is None) == (inp["prec"] is None)) and (inp["prec"] is None or got.precision == inp["prec"])
        cv = lambda x, p: f"(mk_ve {cnum(float(x))} {copt(p, cnum)})"
        return dict(chk=f"ve_case {cv(v, None if prec is None else (prec.item() if isinstance(prec, np.generic) else prec))} "
                        f"{cjt(parse_text(text))} {loaded(st, got, lambda g: cv(g, g.precision))}",
                    oracle_ok=ok, oracle_msg="" if ok else f"value estimate {inp} -> {text!r} -> {got!r} ± {getattr(got, 'precision', '?')}",
                    kind=lab + "-" + inp["prec_kind"], nontrivial=inp["prec"] is not None)
    if kind == "value-estimate-dict":
        st, got = outcome(lambda: U.ValueEstimate.from_dict(json.loads(inp["text"])))
        cv = lambda x, p: f"(mk_ve {cnum(float(x))} {copt(p, cnum)})"
        return dict(chk=f"ve_from_case {cjt(parse_text(inp['text']))} {loaded(st, got, lambda g: cv(g, g.precision))}",
                    oracle_ok=True, kind=f"value-estimate-dict-{inp['variant']}" + ("" if st == "ok" else "-rejected"), nontrivial=True)
    if kind == "list":
        items = [tup(x) for x in inp["items"]] if inp["tuples"] else inp["items"]
        text, st, got = through_file(lambda f: U.save_list(items, f), U.load_list, mode)
        ok = st == "ok" and got == untuple(inp["items"])
        return dict(chk=f"keyed_case {cstring('list')} {clist(inp['items'], cval)} {cjt(parse_text(text))} {loaded(st, got, cval)}",
                    oracle_ok=ok, oracle_msg="" if ok else f"list {items!r} -> {text!r} -> {got!r}", kind=lab, nontrivial=len(items) >= 2)
    if kind == "layers":
        layers = [[tuple(t) for t in layer] for layer in inp["layers"]]
        cl = LA.CircuitLayers(layers)
        text, st, got = through_file(lambda f: LA.save_circuit_layers(cl, f), LA.load_circuit_layers, mode)
        ok = st == "ok" and got.layers == layers
        return dict(chk=f"layers_case {clist(layers, lambda l: clist(l, lambda t: clist(t, cz)))} {cjt(parse_text(text))} "
                        f"{loaded(st, got, lambda g: clist(g.layers, ctuples))}",
                    oracle_ok=ok, oracle_msg="" if ok else f"layers {layers} -> {text!r} -> {getattr(got, 'layers', got)}",
                    kind=lab, nontrivial=sum(len(l) for l in layers) >= 2)
    if kind == "connectivity":
        conn = [tuple(t) for t in inp["conn"]]
        cc = LA.CircuitConnectivity(conn)
        text, st, got = through_file(lambda f: LA.save_circuit_connectivity(cc, f), LA.load_circuit_connectivity, mode)
        ok = st == "ok" and got.connectivity == conn
        return dict(chk=f"conn_case {clist(conn, lambda t: clist(t, cz))} {cjt(parse_text(text))} "
                        f"{loaded(st, got, lambda g: ctuples(g.connectivity))}",
                    oracle_ok=ok, oracle_msg="" if ok else f"connectivity {conn} -> {text!r} -> {getattr(got, 'connectivity', got)}",
                    kind=lab, nontrivial=len(conn) >= 2)
    if kind == "ordering":
        o = inp["ordering"]
        text, st, got = through_file(lambda f: LA.save_circuit_ordering(o, f), LA.load_circuit_ordering, mode)
        ok = st == "ok" and got == o
        return dict(chk=f"keyed_case {cstring('ordering')} {clist(o, cval)} {cjt(parse_text(text))} {loaded(st, got, cval)}",
                    oracle_ok=ok, oracle_msg="" if ok else f"ordering {o} -> {text!r} -> {got!r}", kind=lab, nontrivial=len(o) >= 2)
    if kind == "nmeas":
        fm = None if inp["fm"] is None else build_arr(inp["fm"])
        k, nt = inp["nmeas"], inp["nterms"]
        text, st, got = through_file(lambda f: U.save_nmeas_estimate(k, nt, f, fm), U.load_nmeas_estimate, "path")
        ok = st == "ok" and got[0] == k and got[1] == nt and arr_same(fm, got[2])
        cn = lambda g: f"({cval(g[0])}, {cval(g[1])}, {copt(g[2], carr)})"
        return dict(chk=f"nmeas_case {cnum(k)} {cnum(nt)} {copt(fm, carr)} {cjt(parse_text(text))} {loaded(st, got, cn)}",
                    oracle_ok=ok, oracle_msg="" if ok else f"nmeas estimate {inp} -> {text!r} -> {got!r}",
                    kind="nmeas" + ("" if fm is not None else "-no-frame-meas"), nontrivial=fm is not None and fm.size >= 1)
    raise ValueError(kind)

OPERATOR_KINDS = {"op-dict", "op-set", "op-dict-made", "text-term", "text-sum", "text-sum-out-of-domain", "parse"}

def run_case(inp):
    if inp["kind"] == "path-object":
        return run_path_object(inp)
    return run_operator(inp) if inp["kind"] in OPERATOR_KINDS else run_artefact(inp)

# ----------------------------------------------------------------------------- witnesses of fixed findings

def w_f11():
    fd, path = tempfile.mkstemp(dir=TMP, suffix=".json")
    os.close(fd)
    try:
        U.save_nmeas_estimate(10.5, 3, path)
        st, got = outcome(U.load_nmeas_estimate, path)
    finally:
        os.unlink(path)
    bad = not (st == "ok" and got[0] == 10.5 and got[1] == 3 and got[2] is None)
    return bad, f"save_nmeas_estimate(10.5, 3, f); load_nmeas_estimate(f) -> {got!r}"

def w_f10():
    res = []
    for s in [str(PauliTerm("I0", 2.0)), str(PauliTerm("X0", 1.0) + PauliTerm("I0", 3.0)), str(PauliSum())]:
        st, got = outcome(PauliSum, s)
        res.append((s, st, str(got)))
    bad = any(st != "ok" for _, st, _ in res)
    return bad, f"PauliSum(printed) for printed constants: {res}"

if __name__ == "__main__":
    H.main(gen, run_case, {"F10": w_f10, "F11": w_f11, F_PATHLIKE: w_f39})
