"""C04 correspondence harness: every view of a simulated state agrees on which qubit is which.

For a circuit (X on a subset of qubits, then dyadic gates S, SX, CNOT, CZ, SWAP) the implementation's state vector,
outcome-probability dictionary, exact distribution, sampled tuples / count strings (both sampling regimes), exact and
measured expectation values of random Z-type operators are recorded; the model computes the state with C01's code
mirror and derives the same views (coq/State/Views.v); Coq compares.  The independent oracle is a state-vector
simulation written here with explicit bit operations (qubit 0 = most significant bit of the amplitude index).
"""
import math
from collections import Counter
from fractions import Fraction

import numpy as np
import sympy

from hlib import *
from orquestra.quantum import circuits as oqc
from orquestra.quantum.circuits import Circuit
from orquestra.quantum.measurements import Measurements
from orquestra.quantum.operators import PauliSum, PauliTerm, get_expectation_value
from orquestra.quantum.runners.symbolic_simulator import SymbolicSimulator
from orquestra.quantum.utils import bitstring_to_tuple
from orquestra.quantum.wavefunction import sample_from_wavefunction
from orquestra.quantum.distributions import create_bitstring_distribution_from_probability_distribution

H = Harness("C04", ["OQ.Base.Ring", "OQ.Base.Mat", "OQ.Base.CaseEq", "OQ.Circ.Lift", "OQ.Circ.Circuit",
                    "OQ.Circ.CircuitCases", "OQ.State.Views", "OQ.State.ViewsCases"],
            "kinds: basis (X on a random subset then CNOT/CZ/SWAP/S and, on widths >= 3, gates of arity 3-4 - X.controlled(2), "
            "CNOT.controlled(1), SWAP.controlled(1), Z.controlled(2), X.controlled(3), SWAP.controlled(2), a custom 3-qubit "
            "permutation-with-phases gate and its controlled version - mostly on qubit orders whose permutation is not an "
            "involution (cyclic orders; kinds marked +cyc), about half of them right after X on a proper subset of the gate's "
            "qubits; widths 1-5 with idle qubits: amplitudes, "
            "get_outcome_probs keys and values, exact distribution keys and values, run_and_measure tuples and count "
            "strings with fewer samples than basis states and with more, exact and measured expectation values of random "
            "Z-type operators with dyadic coefficients - everything compared exactly), superpos (the same with SX gates: "
            "probabilities within 2^-40 where np.abs rounds, sampled count strings checked for width, support and total with "
            "a power-of-two number of samples so that measured values are exact), superpos-h (Hadamards: oracle only, 2000 "
            "samples), wide (registers of 9-11 qubits, 12 in the thorough tier: X on the first qubit only / the last only / "
            "alternating / a random subset, then CNOT, SWAP, CCX, CSWAP on arbitrary qubit orders and S, Z, CZ phases; the "
            "model follows the basis state on its tuple - theorem classical_circuit_views - and compares the non-zero "
            "amplitude, all 2^n outcome-probability keys and exact-distribution keys, sampled tuples, count strings, the "
            "distribution computed from the measurements, exact and measured expectation values of operators with terms on "
            "the first and the last qubit; on narrow registers the same tuple path is compared with C01's matrix mirror), "
            "history (ONE Wavefunction object: all views, then accepted item assignments that keep the norm - swap two "
            "amplitudes by index list, move to another basis state by slice assignment, multiply one amplitude by a power of "
            "i - and all views again after each: get_outcome_probs, sample_from_wavefunction in both regimes with count "
            "strings / distribution / measured values, exact distribution, exact expectation values, each compared with the "
            "model on the amplitudes the object holds at that step; four fixed cases in every tier plus random ones), "
            "measure (random asymmetric tuples of width 1-6, and measure-wide: width 9-20 with outcomes differing only in "
            "the first or only in the last qubits: get_counts, get_distribution and get_expectation_values), zero-width "
            "(known finding F6), invalid (non-positive sample count, operator index outside the register: must raise exactly "
            "when the model says so); non-trivial = register of at least 2 qubits whose marked/flipped qubits are not "
            "symmetric under reversal of the qubit order")

TOL = 1e-9

# ----------------------------------------------------------------------------- exact numbers -> Coq

def ex(z):
    if isinstance(z, sympy.Basic):
        z = sympy.nsimplify(sympy.expand(z), rational=True)
        re, im = z.as_real_imag()
        return (Fraction(int(re.p), int(re.q)), Fraction(int(im.p), int(im.q)))
    z = complex(z)
    return (Fraction(z.real), Fraction(z.imag))

def cg(z):
    re, im = z
    if re == 0 and im == 0:
        return "gz"
    den = re.denominator * im.denominator // math.gcd(re.denominator, im.denominator)
    a, b = int(re * den), int(im * den)
    return f"(gd {a if a >= 0 else '(' + str(a) + ')'} {b if b >= 0 else '(' + str(b) + ')'} {den})"

def cbits(t):
    return clist(t, lambda b: cbool(int(b) == 1))

def ccounts(d):
    return clist(list(d.items()), lambda kv: cpair(cstring(str(kv[0])), cz(kv[1])))

def cop(op):
    return clist(op, lambda t: cpair(cq(Fraction(t[0], 2 ** t[1])), clist(t[2], cnat)))

# a fixed 3-qubit "permutation with phases" gate: column a has the single entry i^P3_PHASE[a] in row P3_PERM[a];
# it is not invariant under any relabelling of its three qubits
P3_PERM = [3, 0, 6, 1, 7, 4, 2, 5]
P3_PHASE = [0, 1, 0, 2, 3, 0, 1, 0]
_P3 = oqc.CustomGateDefinition(
    "P3", sympy.Matrix(8, 8, lambda r, c: sympy.I ** P3_PHASE[c] if P3_PERM[c] == r else 0), ())

MULTI = {"CCX": lambda: oqc.X.controlled(2), "CSWAP": lambda: oqc.SWAP.controlled(1),
         "CCNOT": lambda: oqc.CNOT.controlled(1), "CCZ": lambda: oqc.Z.controlled(2), "P3": lambda: _P3(),
         "CCCX": lambda: oqc.X.controlled(3), "CCSWAP": lambda: oqc.SWAP.controlled(2), "CP3": lambda: _P3().controlled(1)}
ARITY = {"CCX": 3, "CSWAP": 3, "CCNOT": 3, "CCZ": 3, "P3": 3, "CCCX": 4, "CCSWAP": 4, "CP3": 4}

def mk_gate(name):
    return MULTI[name]() if name in MULTI else getattr(oqc, name)

def coq_gate(name, qs):
    M = mk_gate(name).matrix
    rows = [[ex(M[i, j]) for j in range(M.shape[1])] for i in range(M.shape[0])]
    return "OGate (G " + clist(rows, lambda r: clist(r, cg)) + " " + clist(qs, cnat) + ")"

IPOW = {(1, 0): 0, (0, 1): 1, (-1, 0): 2, (0, -1): 3}

def table_of(name):
    """(perm, exps, exact rows) when the gate's matrix has one entry i^e per column (a classical gate), else None"""
    M = mk_gate(name).matrix
    d = M.shape[0]
    rows = [[ex(M[i, j]) for j in range(d)] for i in range(d)]
    perm, exps = [], []
    for a in range(d):
        nzr = [r for r in range(d) if rows[r][a] != (0, 0)]
        if len(nzr) != 1 or tuple(int(x) if x.denominator == 1 else None for x in rows[nzr[0]][a]) not in IPOW:
            return None
        perm.append(nzr[0])
        exps.append(IPOW[tuple(int(x) for x in rows[nzr[0]][a])])
    return perm, exps, rows

def coq_tables(gates):
    """the circuit as table gates, and the check of every table used against the implementation's matrix"""
    tabs = {}
    for g, _ in gates:
        if g not in tabs:
            tabs[g] = table_of(g)
            if tabs[g] is None:
                return None, None
    lits = clist(gates, lambda gq: f"tgate {clist(gq[1], cnat)} {clist(tabs[gq[0]][0], cnat)} {clist(tabs[gq[0]][1], cnat)}")
    match = " && ".join(f"table_matches {cnat(len(t[0]).bit_length() - 1)} {clist(t[0], cnat)} {clist(t[1], cnat)} "
                        f"{clist(t[2], lambda r: clist(r, cg))}" for t in tabs.values()) or "true"
    return lits, match

def involutive(qs):
    """the relative order of the listed qubits is a permutation equal to its inverse"""
    rank = [sorted(qs).index(q) for q in qs]
    return all(rank[rank[k]] == k for k in range(len(qs)))

# ----------------------------------------------------------------------------- independent oracle simulation

SQ = 1 / math.sqrt(2)
ORACLE_1Q = {"X": [[0, 1], [1, 0]], "S": [[1, 0], [0, 1j]], "Z": [[1, 0], [0, -1]],
             "SX": [[0.5 + 0.5j, 0.5 - 0.5j], [0.5 - 0.5j, 0.5 + 0.5j]], "H": [[SQ, SQ], [SQ, -SQ]]}

def qbit(n, i, q):
    """value of qubit q in amplitude index i of an n-qubit register: qubit 0 is the most significant bit"""
    return (i >> (n - 1 - q)) & 1

def oracle_state(n, gates):
    psi = np.zeros(2 ** n, dtype=complex)
    psi[0] = 1
    for name, qs in gates:
        new = np.zeros_like(psi)
        if name in ORACLE_1Q:
            U = ORACLE_1Q[name]
            q = qs[0]
            mask = 1 << (n - 1 - q)
            for i in range(2 ** n):
                b = qbit(n, i, q)
                for b2 in (0, 1):
                    j = (i & ~mask) | (mask if b2 else 0)
                    new[j] += U[b2][b] * psi[i]
        elif name == "CNOT":
            for i in range(2 ** n):
                j = i ^ (1 << (n - 1 - qs[1])) if qbit(n, i, qs[0]) else i
                new[j] += psi[i]
        elif name == "CZ":
            for i in range(2 ** n):
                new[i] += (-1 if qbit(n, i, qs[0]) and qbit(n, i, qs[1]) else 1) * psi[i]
        elif name == "SWAP":
            for i in range(2 ** n):
                a, b = qbit(n, i, qs[0]), qbit(n, i, qs[1])
                j = i
                if a != b:
                    j = i ^ (1 << (n - 1 - qs[0])) ^ (1 << (n - 1 - qs[1]))
                new[j] += psi[i]
        elif name in ARITY:
            for i in range(2 ** n):
                bits, phase = oracle_multi(name, [qbit(n, i, q) for q in qs])
                j = i
                for q, b in zip(qs, bits):
                    j = (j & ~(1 << (n - 1 - q))) | (b << (n - 1 - q))
                new[j] += phase * psi[i]
        else:
            raise ValueError(name)
        psi = new
    return psi

def oracle_multi(name, b):
    """action on a basis state, bits listed in the order of the gate's qubits: (new bits, phase)"""
    b = list(b)
    if name in ("CCX", "CCNOT"):
        return (b[:2] + [b[2] ^ (b[0] & b[1])], 1)
    if name == "CCZ":
        return (b, -1 if all(b) else 1)
    if name == "CSWAP":
        return ([b[0], b[2], b[1]] if b[0] else b, 1)
    if name == "CCCX":
        return (b[:3] + [b[3] ^ (b[0] & b[1] & b[2])], 1)
    if name == "CCSWAP":
        return (b[:2] + [b[3], b[2]] if b[0] and b[1] else b, 1)
    if name in ("P3", "CP3"):
        ctl, t = (b[:1], b[1:]) if name == "CP3" else ([], b)
        if ctl and not ctl[0]:
            return (b, 1)
        a = t[0] * 4 + t[1] * 2 + t[2]
        r = P3_PERM[a]
        return (ctl + [(r >> 2) & 1, (r >> 1) & 1, r & 1], 1j ** P3_PHASE[a])
    raise ValueError(name)

def tuple_index(t):
    n = len(t)
    return sum(int(b) << (n - 1 - q) for q, b in enumerate(t))

def eig(op, bit_of):
    """eigenvalue of the Z-type operator, per term, on the basis state whose qubit q reads bit_of(q)"""
    return [float(Fraction(c, 2 ** e)) * math.prod(1 - 2 * bit_of(q) for q in S) for c, e, S in op]

# ----------------------------------------------------------------------------- generator

def rand_op(rng, n, wide=False):
    terms, seen = [], set()
    for _ in range(rng.randint(1, 4)):
        hi = n + 2 if wide else n
        S = sorted(rng.sample(range(hi), rng.randint(0, min(hi, 3)))) if hi > 0 else []
        if wide and not terms:
            S = sorted(set(S) | {rng.randint(n, n + 2)})
        if tuple(S) in seen:
            continue
        seen.add(tuple(S))
        c = 0
        while c == 0:
            c = rng.randint(-24, 24)
        terms.append([c, rng.randint(0, 3), S])
    return terms

def rand_order(rng, n, k):
    """k distinct qubits, most of the time in an order whose permutation is not its own inverse (cyclic orders)"""
    for _ in range(20):
        qs = rng.sample(range(n), k)
        if not involutive(qs) or rng.random() < 0.15:
            return qs
    return qs

def rand_multi(rng, n):
    names = [g for g, k in ARITY.items() if k <= n]
    g = rng.choice(names + [x for x in names if x != "CCZ"])
    return [g, rand_order(rng, n, ARITY[g])]

def rand_circuit(rng, n, flavour):
    pool1 = {"basis": ["S", "X"], "superpos": ["S", "SX", "SX", "X"], "superpos-h": ["H", "H", "S", "SX", "X"]}[flavour]
    gates = []
    if n >= 3 and rng.random() < 0.45:
        # a gate of arity 3-4 on an unsorted order, on a state that is not symmetric under relabelling its qubits:
        # X on a non-empty proper subset of the gate's qubits (and possibly on others) first
        g, qs = rand_multi(rng, n)
        on = rng.sample(qs, rng.randint(1, len(qs) - 1))
        if g in ("CCX", "CCNOT", "CCCX", "CCSWAP", "CSWAP", "CP3") and rng.random() < 0.7:
            nc = {"CCX": 2, "CCNOT": 2, "CCCX": 3, "CCSWAP": 2, "CSWAP": 1, "CP3": 1}[g]
            on = sorted(set(qs[:nc]) | set(rng.sample(qs[nc:], rng.randint(0, len(qs) - nc - 1))))
            if g in ("CSWAP", "CCSWAP") and not set(on) & set(qs[nc:]):
                on.append(rng.choice(qs[nc:]))
        others = [q for q in range(n) if q not in qs]
        on = sorted(set(on) | set(rng.sample(others, rng.randint(0, len(others)))))
        gates = [["X", [q]] for q in on] + [[g, qs]]
    else:
        xs = sorted(rng.sample(range(n), rng.randint(0, n)))
        gates = [["X", [q]] for q in xs]
    budget = 0
    for _ in range(rng.randint(0, 8)):
        r = rng.random()
        if n >= 3 and r < 0.15:
            gates.append(rand_multi(rng, n))
        elif n >= 2 and r < 0.55:
            gates.append([rng.choice(["CNOT", "CZ", "SWAP"]), rng.sample(range(n), 2)])
        else:
            g = rng.choice(pool1)
            if g in ("SX", "H"):
                if budget >= 4:
                    continue
                budget += 1
            gates.append([g, [rng.randrange(n)]])
    if flavour != "basis" and budget == 0:
        gates.append(["SX" if flavour == "superpos" else "H", [rng.randrange(n)]])
    return gates

def rand_op_ends(rng, n):
    """Z-type operator with terms on the first qubit, on the last qubit, across both ends, plus random ones"""
    coef = lambda: [rng.choice([-1, 1]) * rng.randint(1, 24), rng.randint(0, 3)]
    terms = [coef() + [[0]], coef() + [[n - 1]], coef() + [sorted({0, n - 1, rng.randrange(n)})], coef() + [[rng.randrange(1, n - 7)]]]
    seen = {tuple(t[2]) for t in terms}
    for t in rand_op(rng, n):
        if tuple(t[2]) not in seen:
            seen.add(tuple(t[2]))
            terms.append(t)
    return terms[:6]

def rand_wide(rng, n):
    """a circuit of classical gates on a wide register whose state is a basis state not symmetric under reversal"""
    pattern = rng.choice(["first", "first", "last", "alternating", "random"])
    xs = {"first": [0], "last": [n - 1], "alternating": list(range(0, n, 2)),
          "random": sorted(rng.sample(range(n), rng.randint(1, n - 1)))}[pattern]
    gates = [["X", [q]] for q in xs]
    multi = 0
    for _ in range(rng.randint(1, 4)):
        r = rng.random()
        if r < 0.6 and multi < (3 if n <= 9 else 2):
            multi += 1
            g = rng.choice(["CNOT", "CNOT", "SWAP", "CCX", "CSWAP"])
            k = ARITY.get(g, 2)
            qs = rng.sample(range(n), k)
            if rng.random() < 0.7:          # controls (or one swapped qubit) on flipped qubits, the rest anywhere
                qs[0] = rng.choice(xs)
                rest = [q for q in range(n) if q != qs[0]]
                qs[1:] = rng.sample(rest, k - 1)
            gates.append([g, qs])
        else:
            g = rng.choice(["S", "Z", "CZ", "X"])
            gates.append([g, rng.sample(range(n), 2 if g == "CZ" else 1)])
    return gates

def gen(rng, tier):
    N = 360 if tier == "quick" else 9000
    if tier == "search":
        N = 1500
    yield dict(kind="zero-width", n_samples=3, seed=1)
    widths = {"quick": [9, 9, 9, 9, 10, 10, 11], "search": [9] * 8}.get(tier)
    if widths is None:
        widths = [rng.choice([9] * 7 + [10] * 3 + [11] * 2) for _ in range(70)] + [12]
    # one Wavefunction object: views, accepted item assignments, views again (fixed cases in every tier)
    yield dict(kind="history", n=3, gates=[["X", [0]]], steps=[["move", 1]], op=[[1, 0, [0]], [1, 0, [2]], [3, 1, [0, 2]]],
               seed=11, ns_few=4, ns_many=12)
    yield dict(kind="history", n=2, gates=[["SX", [0]]], steps=[["swap", 0, 1]], op=[[1, 0, [1]], [-5, 2, [0, 1]]],
               seed=12, ns_few=4, ns_many=16)
    yield dict(kind="history", n=3, gates=[["X", [2]], ["S", [2]]], steps=[["phase", 1, 3], ["swap", 1, 6], ["move", 3]],
               op=[[7, 1, [1]], [1, 0, [0, 1, 2]]], seed=13, ns_few=8, ns_many=9)
    yield dict(kind="history", n=4, gates=[["X", [3]], ["SX", [0]]], steps=[["swap", 1, 2], ["swap", 9, 15]],
               op=[[1, 0, [3]], [1, 0, [0]], [1, 1, [1, 2]]], seed=14, ns_few=16, ns_many=32)
    for n in widths:
        yield dict(kind="wide", n=n, gates=rand_wide(rng, n), op=rand_op_ends(rng, n), seed=rng.randint(0, 2 ** 31 - 1),
                   ns_few=rng.randint(2, 9), ns_many=2 ** n + rng.randint(1, 9))
    for _ in range(N):
        r = rng.random()
        seed = rng.randint(0, 2 ** 31 - 1)
        if r < 0.40:
            n = rng.choice([1, 2, 2, 3, 3, 4, 4, 5])
            yield dict(kind="basis", n=n, gates=rand_circuit(rng, n, "basis"), op=rand_op(rng, n), seed=seed,
                       ns_few=rng.randint(1, 2 ** n), ns_many=2 ** n + rng.randint(1, 9))
        elif r < 0.65:
            n = rng.choice([1, 2, 3, 3, 4, 4, 5])
            yield dict(kind="superpos", n=n, gates=rand_circuit(rng, n, "superpos"), op=rand_op(rng, n), seed=seed,
                       ns_few=2 ** rng.randint(0, n), ns_many=2 ** rng.randint(n + 1, 11))
        elif r < 0.72:
            n = rng.choice([1, 2, 3, 4, 5])
            yield dict(kind="superpos-h", n=n, gates=rand_circuit(rng, n, "superpos-h"), op=rand_op(rng, n), seed=seed,
                       ns_few=rng.randint(1, 2 ** n), ns_many=2000)
        elif r < 0.90:
            if rng.random() < 0.7:
                w = rng.randint(1, 6)
                pool = [[rng.randint(0, 1) for _ in range(w)] for _ in range(rng.randint(1, 5))]
                op = rand_op(rng, w)
            else:
                # wide registers: outcomes that differ only in the first or only in the last qubits
                w = rng.choice([9, 9, 10, 11, 12, 12, 16, 17, 20])
                base = [rng.randint(0, 1) for _ in range(w)]
                base[0] = 1
                pool = [base]
                for _ in range(rng.randint(0, 4)):
                    t = list(base)
                    where = range(w - 8) if rng.random() < 0.6 else range(w)
                    for q in rng.sample(where, min(len(where), rng.randint(1, 2))):
                        t[q] ^= 1
                    pool.append(t)
                op = rand_op_ends(rng, w)
            shots = [rng.choice(pool) for _ in range(2 ** rng.randint(0, 5))]
            yield dict(kind="measure", w=w, shots=shots, op=op)
        elif r < 0.915:
            yield dict(kind="zero-width", n_samples=rng.randint(1, 6), seed=seed)
        elif r < 0.93:
            n = rng.choice([1, 2, 2, 3, 3, 4])
            flavour = rng.choice(["basis", "superpos"])
            steps = []
            for _ in range(rng.randint(1, 3)):
                k = rng.choice(["swap", "swap", "move", "phase"])
                if k == "swap":
                    steps.append(["swap"] + rng.sample(range(2 ** n), 2))
                elif k == "move":
                    steps.append(["move", rng.randrange(2 ** n)])
                else:
                    steps.append(["phase", rng.randrange(2 ** n), rng.randint(1, 3)])
            yield dict(kind="history", n=n, gates=rand_circuit(rng, n, flavour), steps=steps, op=rand_op(rng, n), seed=seed,
                       ns_few=2 ** rng.randint(0, n), ns_many=2 ** rng.randint(n + 1, 7))
        elif r < 0.965:
            n = rng.randint(1, 4)
            yield dict(kind="invalid-samples", n=n, gates=rand_circuit(rng, n, "basis"), n_samples=rng.choice([0, -1, -7]), seed=seed)
        else:
            n = rng.randint(1, 4)
            yield dict(kind="invalid-op", n=n, gates=rand_circuit(rng, n, "basis"), op=rand_op(rng, n, wide=True), seed=seed,
                       ns=2 ** rng.randint(0, 3))

# ----------------------------------------------------------------------------- cases

def build(inp):
    return Circuit([mk_gate(g)(*qs) for g, qs in inp["gates"]], inp["n"])

def pauli(op):
    return PauliSum([PauliTerm({q: "Z" for q in S}, float(Fraction(c, 2 ** e))) if S else PauliTerm("I0", float(Fraction(c, 2 ** e)))
                     for c, e, S in op])

def asym(n, gates, op=None):
    """computed non-triviality: reversing the qubit order changes the circuit or the operator"""
    if n < 2:
        return False
    rev = lambda qs: [n - 1 - q for q in qs]
    a = sorted((g, tuple(qs)) for g, qs in gates)
    b = sorted((g, tuple(rev(qs))) for g, qs in gates)
    if a != b:
        return True
    if op:
        return sorted(tuple(S) for _, _, S in op) != sorted(tuple(sorted(rev(S))) for _, _, S in op)
    return False

def real_q(x):
    z = complex(x)
    return Fraction(z.real), abs(z.imag) < 1e-12

def read_measurements(m, op_obj, timeout=60):
    """tuples, get_counts, values of get_expectation_values, get_distribution of a Measurements object"""
    if any(not isinstance(t, (tuple, list)) for t in m.bitstrings):
        return "err", f"non-tuple sample {[t for t in m.bitstrings if not isinstance(t, (tuple, list))][0]!r}", None, None, None
    shots = [tuple(int(b) for b in t) for t in m.bitstrings]
    stc, cnt = outcome(m.get_counts)
    if stc != "ok":
        return "err", f"get_counts raised {cnt}", None, None, None
    stv, vals = outcome(lambda: [float(v) for v in m.get_expectation_values(op_obj).values], timeout=timeout)
    std, md = outcome(lambda: [(tuple(int(b) for b in k), float(v)) for k, v in m.get_distribution().distribution_dict.items()],
                      timeout=timeout)
    return "ok", shots, {str(k): int(v) for k, v in cnt.items()}, (vals if stv == "ok" else None), (md if std == "ok" else None)

def measured(sim, circuit, ns, op_obj, timeout=60):
    """run_and_measure + counts + values (or the error class)"""
    st, m = outcome(sim.run_and_measure, circuit, ns, timeout=timeout)
    if st != "ok":
        return st, m, None, None, None
    return read_measurements(m, op_obj, timeout)

def cdist(md):
    return copt(md, lambda d: clist(d, lambda kv: cpair(cbits(kv[0]), cq(kv[1]))))

def check_samples(n, shots, cnt, vals, op, psi_o, fails, label, basis_tuple=None, mdist="skip"):
    """the oracle's reading of one measurement: widths, support, count strings, averages of eigenvalues,
    the distribution computed from the measurements"""
    if mdist != "skip":
        if mdist is None:
            fails.append(f"{label}: get_distribution raised")
        else:
            want = Counter(tuple(t) for t in shots)
            if set(k for k, _ in mdist) != set(want) or any(abs(p - want[k] / len(shots)) > TOL for k, p in mdist):
                fails.append(f"{label}: get_distribution {mdist[:4]} but the tuples give {[(k, c / len(shots)) for k, c in list(want.items())[:4]]}")
    for t in shots:
        if len(t) != n:
            fails.append(f"{label}: tuple {t} has length {len(t)} on a register of {n} qubits")
            return
        if psi_o is not None and abs(psi_o[tuple_index(t)]) ** 2 < 1e-12:
            fails.append(f"{label}: sampled tuple {t} has zero probability")
            return
        if basis_tuple is not None and tuple(t) != tuple(basis_tuple):
            fails.append(f"{label}: sampled {t}, the state is the basis state {basis_tuple}")
            return
    want = Counter("".join(str(b) for b in t) for t in shots)
    if dict(want) != cnt:
        fails.append(f"{label}: get_counts {cnt} but the tuples give {dict(want)}")
    if vals is not None:
        for k, (c, e, S) in enumerate(op):
            avg = sum(float(Fraction(c, 2 ** e)) * math.prod(1 - 2 * t[q] for q in S) for t in shots) / len(shots)
            if abs(avg - vals[k]) > TOL:
                fails.append(f"{label}: measured <term {k} on qubits {S}> = {vals[k]}, average over the sampled tuples {avg}")
                break
    else:
        fails.append(f"{label}: get_expectation_values raised")

def run_state(inp):
    n, gates, op = inp["n"], inp["gates"], inp["op"]
    kind = inp["kind"]
    circuit = build(inp)
    sim = SymbolicSimulator(seed=inp["seed"])
    op_obj = pauli(op)
    fails = []
    psi_o = oracle_state(n, gates)
    st, wf = outcome(sim.get_wavefunction, circuit, timeout=60)
    if st != "ok":
        return dict(chk="false", oracle_ok=False, oracle_msg=f"get_wavefunction raised {wf}", kind=kind)
    amps = np.asarray(wf.amplitudes).reshape(-1)
    if len(amps) != 2 ** n or np.max(np.abs(amps - psi_o)) > TOL:
        fails.append(f"state vector {list(amps)} differs from the bitwise simulation {list(psi_o)}")
    probs_o = np.abs(psi_o) ** 2
    # get_outcome_probs
    oprobs = wf.get_outcome_probs()
    okeys = [str(k) for k in oprobs.keys()]
    ovals = [float(v) for v in oprobs.values()]
    if len(okeys) != 2 ** n:
        fails.append(f"get_outcome_probs has {len(okeys)} entries")
    for key, p in zip(okeys, ovals):
        t = bitstring_to_tuple(key)
        if len(t) != n or abs(probs_o[tuple_index(t)] - p) > TOL:
            fails.append(f"get_outcome_probs[{key!r}] = {p}: as a tuple {t} the probability is {probs_o[tuple_index(t)] if len(t) == n else '?'}")
            break
    # exact distribution
    st, dist = outcome(lambda: sim.get_measurement_outcome_distribution(circuit, None).distribution_dict, timeout=60)
    if st != "ok":
        return dict(chk="false", oracle_ok=False, oracle_msg=f"get_measurement_outcome_distribution raised {dist}", kind=kind)
    dkeys = [tuple(int(b) for b in k) for k in dist.keys()]
    dvals = [float(v) for v in dist.values()]
    if len(dkeys) != 2 ** n:
        fails.append(f"exact distribution has {len(dkeys)} entries")
    for t, p in zip(dkeys, dvals):
        if len(t) != n or abs(probs_o[tuple_index(t)] - p) > TOL:
            fails.append(f"exact distribution[{t}] = {p}, bitwise simulation {probs_o[tuple_index(t)] if len(t) == n else '?'}")
            break
    # exact expectation values
    per_term, exact_ok = [], True
    for k, term in enumerate(op_obj.terms):
        stt, v = outcome(get_expectation_value, term, wf, timeout=60)
        if stt != "ok":
            fails.append(f"get_expectation_value raised {v}")
            per_term.append(None)
            continue
        q, real = real_q(v)
        per_term.append(q)
        want = sum(probs_o[i] * eig([op[k]], lambda qb: qbit(n, i, qb))[0] for i in range(2 ** n))
        if not real or abs(float(q) - want) > TOL:
            fails.append(f"exact <term {k} on qubits {op[k][2]}> = {v}, average of eigenvalues under the distribution {want}")
    stt, tot = outcome(sim.get_exact_expectation_values, circuit, op_obj, timeout=60)
    total = None
    if stt != "ok":
        fails.append(f"get_exact_expectation_values raised {tot}")
    else:
        total = Fraction(float(tot))
        want = sum(probs_o[i] * sum(eig(op, lambda qb: qbit(n, i, qb))) for i in range(2 ** n))
        if abs(float(tot) - want) > TOL:
            fails.append(f"exact expectation {tot}, average of eigenvalues {want}")
        # ... and under the implementation's own exact distribution, reading position q of each key for qubit q
        want2 = sum(p * sum(eig(op, lambda qb: t[qb])) for t, p in zip(dkeys, dvals) if len(t) == n)
        if abs(float(tot) - want2) > TOL:
            fails.append(f"exact expectation {tot}, average over get_measurement_outcome_distribution {want2}")
    # sampling in both regimes
    nz = [i for i in range(2 ** n) if probs_o[i] > 1e-12]
    basis_tuple = tuple(qbit(n, nz[0], q) for q in range(n)) if len(nz) == 1 else None
    meas = {}
    for label, ns in (("few", inp["ns_few"]), ("many", inp["ns_many"])):
        stm, shots, cnt, vals, md = measured(sim, circuit, ns, op_obj)
        if stm != "ok":
            fails.append(f"run_and_measure({ns}) raised {shots}")
            meas[label] = None
            continue
        if len(shots) != ns:
            fails.append(f"run_and_measure({ns}) returned {len(shots)} tuples")
        check_samples(n, shots, cnt, vals, op, psi_o, fails, f"{label} ({ns} samples)", basis_tuple, mdist=md)
        meas[label] = (ns, shots, cnt, vals, md)
    # model side
    chk = None
    if kind != "superpos-h":
        aligned = all(z.real == 0 or z.imag == 0 for z in amps)
        exact = cbool(aligned)
        ops_c = clist(gates, lambda g: coq_gate(g[0], g[1]))
        parts = [f"amps_eqb psi {clist([ex(z) for z in amps], cg)}",
                 f"outcome_probs_eqb {exact} {cnat(n)} psi {clist(okeys, cstring)} {clist(ovals, cq)}",
                 f"exact_dist_eqb {exact} {cnat(n)} psi {clist(dkeys, cbits)} {clist(dvals, cq)}",
                 f"exact_values_eqb {cnat(n)} psi {cop(op)} {clist(per_term, lambda v: copt(v, cq))} {copt(total, cq)}"]
        if total is not None:
            parts.append(f"dist_average_eqb {cnat(n)} psi {cop(op)} {cq(total)}")
        tl, tm = coq_tables(gates)
        if tl is not None:
            parts.append(f"{tm} && basis_path_eqb {cnat(n)} {tl} psi")
        for label in ("few", "many"):
            if meas[label] is None:
                parts.append("false")
                continue
            ns, shots, cnt, vals, md = meas[label]
            cv = copt(vals, lambda vs: clist(vs, cq))
            if basis_tuple is not None:
                parts.append(f"measure_basis_eqb {cnat(n)} psi {cz(ns)} (Some {clist(shots, cbits)}) {ccounts(cnt)}")
                parts.append(f"measured_eqb {clist(shots, cbits)} {cop(op)} {ccounts(cnt)} {cv}")
                parts.append(f"measured_dist_eqb {clist(shots, cbits)} {cdist(md)}")
            else:
                parts.append(f"support_eqb {cnat(n)} psi {ccounts(cnt)} {cz(ns)}")
                parts.append(f"values_from_counts_eqb {ccounts(cnt)} {cop(op)} {cv}")
        chk = f"(let psi := state_of {cnat(n)} {ops_c} in " + " && ".join(parts) + ")"
    k2 = kind
    if kind == "superpos" and basis_tuple is not None:
        k2 = "superpos-collapsed"
    if any(g in ARITY and not involutive(qs) for g, qs in gates):
        k2 += "+cyc"
    return dict(chk=chk, oracle_ok=not fails, oracle_msg="; ".join(fails[:3]), kind=k2 + f"-w{n}",
                nontrivial=asym(n, gates, op))

def run_wide(inp):
    """registers of 9-12 qubits, circuits of classical gates: the model follows the tuple, no 2^n x 2^n matrix"""
    n, gates, op, kind = inp["n"], inp["gates"], inp["op"], inp["kind"]
    circuit = build(inp)
    sim = SymbolicSimulator(seed=inp["seed"])
    op_obj = pauli(op)
    fails = []
    psi_o = oracle_state(n, gates)
    probs_o = np.abs(psi_o) ** 2
    nzo = [i for i in range(2 ** n) if probs_o[i] > 1e-12]
    basis_tuple = tuple(qbit(n, nzo[0], q) for q in range(n))
    st, wf = outcome(sim.get_wavefunction, circuit, timeout=300)
    if st != "ok":
        return dict(chk="false", oracle_ok=False, oracle_msg=f"get_wavefunction raised {wf}", kind=kind)
    amps = np.asarray(wf.amplitudes).reshape(-1)
    if len(amps) != 2 ** n or np.max(np.abs(amps - psi_o)) > TOL:
        nz_i = [int(i) for i in np.nonzero(amps)[0]]
        fails.append(f"state vector is non-zero at {nz_i[:4]}, the bitwise simulation at {nzo} (tuple {basis_tuple})")
    amps_nz = [(int(i), ex(amps[i])) for i in np.nonzero(amps)[0]]
    # get_outcome_probs
    oprobs = wf.get_outcome_probs()
    okeys = [str(k) for k in oprobs.keys()]
    ovals = [float(v) for v in oprobs.values()]
    for key, p in zip(okeys, ovals):
        t = bitstring_to_tuple(key)
        if len(t) != n or abs(probs_o[tuple_index(t)] - p) > TOL:
            fails.append(f"get_outcome_probs[{key!r}] = {p}: as a tuple {t} the probability is {probs_o[tuple_index(t)] if len(t) == n else '?'}")
            break
    o_nz = [(k, Fraction(p)) for k, p in enumerate(ovals) if p != 0]
    # exact distribution (through the runner's method on 9 qubits, through the function it calls above)
    if n <= 9:
        std, dist = outcome(lambda: sim.get_measurement_outcome_distribution(circuit, None).distribution_dict, timeout=300)
    else:
        std, dist = outcome(lambda: create_bitstring_distribution_from_probability_distribution(wf.get_probabilities()).distribution_dict, timeout=300)
    if std != "ok":
        return dict(chk="false", oracle_ok=False, oracle_msg=f"exact distribution raised {dist}", kind=kind)
    dkeys = [tuple(int(b) for b in k) for k in dist.keys()]
    dvals = [float(v) for v in dist.values()]
    if len(dkeys) != 2 ** n:
        fails.append(f"exact distribution has {len(dkeys)} entries")
    for t, p in zip(dkeys, dvals):
        if len(t) != n or abs(probs_o[tuple_index(t)] - p) > TOL:
            fails.append(f"exact distribution[{t}] = {p}, bitwise simulation {probs_o[tuple_index(t)] if len(t) == n else '?'}")
            break
    d_nz = [(k, Fraction(p)) for k, p in enumerate(dvals) if p != 0]
    # exact expectation values
    per_term = []
    for k, term in enumerate(op_obj.terms):
        stt, v = outcome(get_expectation_value, term, wf, timeout=300)
        q, real = real_q(v) if stt == "ok" else (None, False)
        per_term.append(q)
        want = eig([op[k]], lambda qb: basis_tuple[qb])[0]
        if stt != "ok" or not real or abs(float(q) - want) > TOL:
            fails.append(f"exact <term {k} on qubits {op[k][2]}> = {v}, eigenvalue on the tuple {basis_tuple}: {want}")
    if n <= 9:
        stt, tot = outcome(sim.get_exact_expectation_values, circuit, op_obj, timeout=300)
    else:
        stt, tot = outcome(lambda: get_expectation_value(op_obj, wf).real, timeout=300)
    total = Fraction(float(tot)) if stt == "ok" else None
    if total is None or abs(float(total) - sum(eig(op, lambda qb: basis_tuple[qb]))) > TOL:
        fails.append(f"exact expectation {tot}, eigenvalue on the tuple {sum(eig(op, lambda qb: basis_tuple[qb]))}")
    # sampling: few samples through run_and_measure; many through it on 9 qubits, else through the function it calls
    meas = {}
    for label, ns in (("few", inp["ns_few"]), ("many", inp["ns_many"])):
        if label == "few" or n <= 9:
            stm, shots, cnt, vals, md = measured(sim, circuit, ns, op_obj, timeout=300)
        else:
            stm, m = outcome(lambda: Measurements(sample_from_wavefunction(wf, ns, inp["seed"])), timeout=300)
            stm, shots, cnt, vals, md = read_measurements(m, op_obj, 300) if stm == "ok" else (stm, m, None, None, None)
        if stm != "ok":
            fails.append(f"{label}: sampling {ns} raised {shots}")
            meas[label] = None
            continue
        if len(shots) != ns:
            fails.append(f"{label}: asked for {ns} samples, got {len(shots)}")
        check_samples(n, shots, cnt, vals, op, psi_o, fails, f"{label} ({ns} samples)", basis_tuple, mdist=md)
        meas[label] = (ns, shots, cnt, vals, md)
    tl, tm = coq_tables(gates)
    parts = [tm, f"wide_amps_eqb st {clist(amps_nz, lambda kv: cpair(cnat(kv[0]), cg(kv[1])))}",
             f"wide_outcome_probs_eqb {cnat(n)} st {clist(okeys, cstring)} {clist(o_nz, lambda kv: cpair(cnat(kv[0]), cq(kv[1])))}",
             f"wide_exact_dist_eqb {cnat(n)} st {clist(dkeys, lambda t: cstring(''.join(str(b) for b in t)))} "
             f"{clist(d_nz, lambda kv: cpair(cnat(kv[0]), cq(kv[1])))}"]
    if None not in per_term and total is not None:
        parts.append(f"basis_values_eqb st {cop(op)} {clist(per_term, cq)} {cq(total)}")
    else:
        parts.append("false")
    for label in ("few", "many"):
        if meas[label] is None:
            parts.append("false")
            continue
        ns, shots, cnt, vals, md = meas[label]
        parts.append(f"measure_index_eqb {cnat(n)} st {cz(ns)} (Some {clist(shots, cbits)}) {ccounts(cnt)}")
        if label == "few":       # the many-sample tuples are all equal to the few-sample ones: pass the counts only
            parts.append(f"measured_eqb {clist(shots, cbits)} {cop(op)} {ccounts(cnt)} {copt(vals, lambda vs: clist(vs, cq))}")
            parts.append(f"measured_dist_eqb {clist(shots, cbits)} {cdist(md)}")
        else:
            parts.append(f"values_from_counts_eqb {ccounts(cnt)} {cop(op)} {copt(vals, lambda vs: clist(vs, cq))}")
    chk = f"(let st := basis_path {cnat(n)} {tl} in " + " && ".join(parts) + ")"
    return dict(chk=chk, oracle_ok=not fails, oracle_msg="; ".join(fails[:3]), kind=f"wide-w{n}", nontrivial=asym(n, gates, op))

def wf_views(wf, n, op, op_obj, ns_few, ns_many, seed, psi_o, fails, label):
    """all views of ONE Wavefunction object as it is now: oracle checks against psi_o, Coq parts against the amplitudes
    the object holds now"""
    amps = np.asarray(wf.amplitudes).reshape(-1)
    if len(amps) != 2 ** n or np.max(np.abs(amps - psi_o)) > TOL:
        fails.append(f"{label}: amplitudes {list(amps)} expected {list(psi_o)}")
    probs_o = np.abs(psi_o) ** 2
    nz = [i for i in range(2 ** n) if probs_o[i] > 1e-12]
    basis_tuple = tuple(qbit(n, nz[0], q) for q in range(n)) if len(nz) == 1 else None
    aligned = all(z.real == 0 or z.imag == 0 for z in amps)
    exact = cbool(aligned)
    parts = []
    # sampling first in odd steps, the probability table first in even ones: both orders of first use occur
    def table():
        oprobs = wf.get_outcome_probs()
        okeys = [str(k) for k in oprobs.keys()]
        ovals = [float(v) for v in oprobs.values()]
        if len(okeys) != 2 ** n:
            fails.append(f"{label}: get_outcome_probs has {len(okeys)} entries")
        for key, p in zip(okeys, ovals):
            t = bitstring_to_tuple(key)
            if len(t) != n or abs(probs_o[tuple_index(t)] - p) > TOL:
                fails.append(f"{label}: get_outcome_probs[{key!r}] = {p}: as a tuple {t} the probability is "
                             f"{probs_o[tuple_index(t)] if len(t) == n else '?'}")
                break
        parts.append(f"outcome_probs_eqb {exact} {cnat(n)} psi {clist(okeys, cstring)} {clist(ovals, cq)}")
    def sampling():
        for regime, ns in (("few", ns_few), ("many", ns_many)):
            stm, m = outcome(lambda: Measurements(sample_from_wavefunction(wf, ns, seed)), timeout=60)
            stm, shots, cnt, vals, md = read_measurements(m, op_obj) if stm == "ok" else (stm, m, None, None, None)
            if stm != "ok":
                fails.append(f"{label} {regime}: sampling raised {shots}")
                parts.append("false")
                continue
            if len(shots) != ns:
                fails.append(f"{label} {regime}: asked for {ns} samples, got {len(shots)}")
            check_samples(n, shots, cnt, vals, op, psi_o, fails, f"{label} {regime} ({ns} samples)", basis_tuple, mdist=md)
            cv = copt(vals, lambda vs: clist(vs, cq))
            if basis_tuple is not None:
                parts.append(f"measure_basis_eqb {cnat(n)} psi {cz(ns)} (Some {clist(shots, cbits)}) {ccounts(cnt)}")
                parts.append(f"measured_eqb {clist(shots, cbits)} {cop(op)} {ccounts(cnt)} {cv}")
                parts.append(f"measured_dist_eqb {clist(shots, cbits)} {cdist(md)}")
            else:
                parts.append(f"support_eqb {cnat(n)} psi {ccounts(cnt)} {cz(ns)}")
                parts.append(f"values_from_counts_eqb {ccounts(cnt)} {cop(op)} {cv}")
    for f in ((table, sampling) if label.endswith(("0", "2")) else (sampling, table)):
        f()
    std, dist = outcome(lambda: create_bitstring_distribution_from_probability_distribution(wf.get_probabilities()).distribution_dict, timeout=60)
    if std != "ok":
        fails.append(f"{label}: exact distribution raised {dist}")
        parts.append("false")
    else:
        dkeys = [tuple(int(b) for b in k) for k in dist.keys()]
        dvals = [float(v) for v in dist.values()]
        for t, p in zip(dkeys, dvals):
            if len(t) != n or abs(probs_o[tuple_index(t)] - p) > TOL:
                fails.append(f"{label}: exact distribution[{t}] = {p}, expected {probs_o[tuple_index(t)] if len(t) == n else '?'}")
                break
        parts.append(f"exact_dist_eqb {exact} {cnat(n)} psi {clist(dkeys, cbits)} {clist(dvals, cq)}")
    per_term = []
    for k, term in enumerate(op_obj.terms):
        stt, v = outcome(get_expectation_value, term, wf, timeout=60)
        q, real = real_q(v) if stt == "ok" else (None, False)
        per_term.append(q)
        want = sum(probs_o[i] * eig([op[k]], lambda qb: qbit(n, i, qb))[0] for i in range(2 ** n))
        if stt != "ok" or not real or abs(float(q) - want) > TOL:
            fails.append(f"{label}: exact <term {k} on qubits {op[k][2]}> = {v}, average of eigenvalues {want}")
    stt, tot = outcome(lambda: get_expectation_value(op_obj, wf), timeout=60)
    total = real_q(tot)[0] if stt == "ok" else None
    parts.append(f"exact_values_eqb {cnat(n)} psi {cop(op)} {clist(per_term, lambda v: copt(v, cq))} {copt(total, cq)}")
    return f"(let psi := {clist([ex(z) for z in amps], cg)} in " + " && ".join(parts) + ")"

def run_history(inp):
    """one Wavefunction object: all views, then accepted item assignments (each keeps the norm), all views again"""
    n, gates, op, kind = inp["n"], inp["gates"], inp["op"], inp["kind"]
    sim = SymbolicSimulator(seed=inp["seed"])
    op_obj = pauli(op)
    fails = []
    psi_o = oracle_state(n, gates)
    st, wf = outcome(sim.get_wavefunction, build(inp), timeout=60)
    if st != "ok":
        return dict(chk="false", oracle_ok=False, oracle_msg=f"get_wavefunction raised {wf}", kind=kind)
    chks = [wf_views(wf, n, op, op_obj, inp["ns_few"], inp["ns_many"], inp["seed"], psi_o, fails, "step 0")]
    for k, step in enumerate(inp["steps"], 1):
        psi_o = psi_o.copy()
        if step[0] == "swap":
            i, j = step[1], step[2]
            sta, _ = outcome(wf.__setitem__, [i, j], [complex(wf[j]), complex(wf[i])])
            psi_o[[i, j]] = psi_o[[j, i]]
        elif step[0] == "move":
            new = np.zeros(2 ** n, dtype=complex)
            new[step[1]] = 1
            sta, _ = outcome(wf.__setitem__, slice(None), new)
            psi_o = new.copy()
        else:
            i = step[1]
            sta, _ = outcome(wf.__setitem__, i, complex(wf[i]) * 1j ** step[2])
            psi_o[i] = psi_o[i] * 1j ** step[2]
        if sta != "ok":
            fails.append(f"step {k}: assignment {step} (norm kept) raised {_}")
            break
        chks.append(wf_views(wf, n, op, op_obj, inp["ns_few"], inp["ns_many"], inp["seed"] + k, psi_o, fails, f"step {k}"))
    return dict(chk=" && ".join(chks), oracle_ok=not fails, oracle_msg="; ".join(fails[:3]), kind=f"history-w{n}",
                nontrivial=n >= 2 and len(chks) >= 2)

def run_case(inp):
    kind = inp["kind"]
    if kind == "wide":
        return run_wide(inp)
    if kind == "history":
        return run_history(inp)
    if kind in ("basis", "superpos", "superpos-h"):
        return run_state(inp)
    if kind == "measure":
        w, shots, op = inp["w"], [tuple(t) for t in inp["shots"]], inp["op"]
        m = Measurements(list(shots))
        st, _, cnt, vals, md = read_measurements(m, pauli(op), timeout=30)
        fails = []
        if st != "ok":
            return dict(chk="false", oracle_ok=False, oracle_msg=f"measurements: {_}", kind=kind)
        check_samples(w, shots, cnt, vals, op, None, fails, "measurements", mdist=md)
        cv = copt(vals, lambda vs: clist(vs, cq))
        chk = (f"measured_eqb {clist(shots, cbits)} {cop(op)} {ccounts(cnt)} {cv} && "
               f"measured_dist_eqb {clist(shots, cbits)} {cdist(md)}")
        distinct = len(set(shots))
        return dict(chk=chk, oracle_ok=not fails, oracle_msg="; ".join(fails[:3]), kind=kind + ("-wide" if w >= 9 else ""),
                    nontrivial=w >= 2 and any(tuple(reversed(t)) != t for t in shots) and distinct >= 1)
    if kind == "zero-width":
        circuit = Circuit()
        sim = SymbolicSimulator(seed=inp["seed"])
        ns = inp["n_samples"]
        st, m = outcome(sim.run_and_measure, circuit, ns, timeout=30)
        std, dist = outcome(lambda: sim.get_measurement_outcome_distribution(circuit, None).distribution_dict, timeout=30)
        if st != "ok" or std != "ok" or any(not isinstance(t, (tuple, list)) for t in m.bitstrings):
            return dict(chk="false", oracle_ok=False, kind=kind,
                        oracle_msg=f"zero-width circuit: {m if st != 'ok' else dist if std != 'ok' else 'non-tuple sample in ' + repr(m.bitstrings[:3])}")
        shots = [tuple(int(b) for b in t) for t in m.bitstrings]
        cnt = {str(k): int(v) for k, v in m.get_counts().items()}
        bad = [t for t in shots if len(t) != circuit.n_qubits]
        f6 = bool(bad) and all(t == (0,) for t in shots) and circuit.n_qubits == 0
        dk = [tuple(int(b) for b in k) for k in dist.keys()]
        chk = (f"(let psi := state_of 0%nat [] in measure_basis_eqb 0%nat psi {cz(ns)} (Some {clist(shots, cbits)}) {ccounts(cnt)} && "
               f"exact_dist_eqb true 0%nat psi {clist(dk, cbits)} {clist([float(v) for v in dist.values()], cq)})")
        return dict(chk=chk, oracle_ok=not bad, sig="F6" if f6 else None,
                    oracle_msg=f"run_and_measure on a 0-qubit register returned tuples of length {len(bad[0])}: {bad[:2]}" if bad else "",
                    kind=kind, nontrivial=False)
    if kind == "invalid-samples":
        circuit = build(inp)
        sim = SymbolicSimulator(seed=inp["seed"])
        st, m = outcome(sim.run_and_measure, circuit, inp["n_samples"], timeout=30)
        ok = st == "err" and m == "ValueError"
        return dict(chk=f"measure_raises {cnat(inp['n'])} {cz(inp['n_samples'])}" if ok else "false", oracle_ok=ok,
                    oracle_msg="" if ok else f"run_and_measure(c, {inp['n_samples']}) -> {st} {m if st == 'err' else ''}", kind=kind,
                    nontrivial=False)
    if kind == "invalid-op":
        n, op = inp["n"], inp["op"]
        circuit = build(inp)
        sim = SymbolicSimulator(seed=inp["seed"])
        op_obj = pauli(op)
        st, v = outcome(sim.get_exact_expectation_values, circuit, op_obj, timeout=30)
        stm, shots, cnt, vals, _ = measured(sim, circuit, inp["ns"], op_obj)
        ok = st == "err" and v == "ValueError" and stm == "ok" and vals is None
        if not ok:
            return dict(chk="false", oracle_ok=False, kind=kind,
                        oracle_msg=f"operator {op} on {n} qubits: exact -> {st} {v}, measured values -> {vals}")
        ops_c = clist(inp["gates"], lambda g: coq_gate(g[0], g[1]))
        # the whole operator is rejected (exact) / the first out-of-range term raises (measured)
        chk = (f"(let psi := state_of {cnat(n)} {ops_c} in oeqb qeqb (exact_value {cnat(n)} psi {cop(op)}) None"
               f" && values_from_counts_eqb {ccounts(cnt)} {cop(op)} None)")
        return dict(chk=chk, oracle_ok=True, oracle_msg="", kind=kind, nontrivial=False)
    raise ValueError(kind)

def w_f6():
    m = SymbolicSimulator(seed=0).run_and_measure(Circuit(), 3)
    bad = any(len(t) != 0 for t in m.bitstrings)
    return bad, f"SymbolicSimulator().run_and_measure(Circuit(), 3).bitstrings = {m.bitstrings} on a 0-qubit register"

WITNESSES = {"F6": w_f6}
H.main(gen, run_case, WITNESSES)
