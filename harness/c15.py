"""C15 correspondence harness: estimation by averaging (task bookkeeping, weights, basis-state exactness),
binding symbol maps to tasks, exact expectation values."""
import numpy as np
import sympy
from hlib import *
from orquestra.quantum.estimation._estimation import (estimate_expectation_values_by_averaging,
    split_estimation_tasks_to_measure, evaluate_non_measured_estimation_tasks, evaluate_estimation_circuits,
    calculate_exact_expectation_values)
from orquestra.quantum.api.estimation import EstimationTask
from orquestra.quantum.api.circuit_runner import BaseCircuitRunner
from orquestra.quantum.api.wavefunction_simulator import BaseWavefunctionSimulator
from orquestra.quantum.wavefunction import Wavefunction
from orquestra.quantum.operators import PauliTerm, PauliSum
from orquestra.quantum.measurements import Measurements
from orquestra.quantum.measurements.measurements import get_expectation_value_from_frequencies
from orquestra.quantum.circuits import Circuit, X, RX, RY, RZ, CNOT
from orquestra.quantum.runners.symbolic_simulator import SymbolicSimulator

H = Harness("C15", ["OQ.Base.CaseEq", "OQ.Stats.Estimation", "OQ.Stats.EstimationCases"],
            "kinds: mock-* (task lists of length 0-8 in random kind order - measured / constant / zero-shot, shared circuits, "
            "Ising operators with constant parts, unsimplified constant sums, empty sums, bare PauliTerms; a scripted runner "
            "returning recorded bitstrings, sometimes more shots than asked, sometimes too few/many results; invalid stream: "
            "shots None/negative, non-Ising operators, qubit out of range), sim-* (same task lists on X-gate circuits run with "
            "SymbolicSimulator, shots 1-50), freq (counts and frequency average vs per-shot mean), split, nonmeasured (incl. the RuntimeError branch), bind (symbolic circuits, "
            "per-task maps, unequal list lengths), exact-basis (model), exact-model (calculate_exact_expectation_values with a "
            "scripted wavefunction simulator returning dyadic unit states of 1-3 qubits, per-task circuits of different widths, "
            "X/Y/Z operators with gaps, constants and some complex coefficients, empty sums, operators wider than the state; "
            "compared with the model built on C09's get_expectation over Gaussian rationals) and exact-general (SymbolicSimulator "
            "on rotation circuits, oracle only: quadratic form with dense matrices); in all three exact kinds the tasks of one list "
            "mix number_of_shots 0 / None / positive and constant / non-constant operators, and every position is checked "
            "against the quadratic form; non-trivial = at least two tasks of different kinds, or a measured operator with two or more terms")

ERR = {"ValueError": "EValue", "TypeError": "EType", "IndexError": "EIndex", "RuntimeError": "ERuntime"}

# ----------------------------------------------------------------------------- inputs <-> objects / literals

def fr(c):
    return Fraction(c[0], c[1])

def mk_op(op):
    terms = [PauliTerm({int(q): p for q, p in ops}, float(fr(c))) for c, ops in op["terms"]]
    if op["form"] == "term":
        assert len(terms) == 1
        return terms[0]
    return PauliSum(terms)

def c_term(t):
    c, ops = t
    return f"(mkTerm {cq(fr(c))} {clist(ops, lambda qp: cpair(cnat(qp[0]), 'P' + qp[1]))})"

def c_op(op):
    return clist(op["terms"], c_term)

def c_task(t, ccirc):
    return f"(mkTask {c_op(t['op'])} {ccirc(t['circ'])} {copt(t['shots'], cz)})"

def c_xc(c):
    return cpair(cnat(c[0]), clist(c[1], cnat))

def c_meas(m):
    return clist(m, lambda b: clist(b, cbool))

def c_mat(m):
    return clist(m, lambda r: clist(r, cq))

def c_ev(e):
    return "None" if e is None else f"(Some (mkEv {clist(e[0], cq)} {c_mat(e[1])} {c_mat(e[2])}))"

def c_ev_plain(e):
    return f"(mkEv {clist(e[0], cq)} {c_mat(e[1])} {c_mat(e[2])})"

def c_res(st, out, f):
    if st == "ok":
        return f"(Ok {f(out)})"
    return f"(Err {ERR[out]})"

def fnum(x):
    x = complex(x)
    if x.imag != 0:
        raise ValueError(f"non-real entry {x}")
    return Fraction(x.real)

def ev_data(e):
    """ExpectationValues -> (values, correlations, covariances) as Fractions (None stays None)."""
    if e is None:
        return None
    assert len(e.correlations) == 1 and len(e.estimator_covariances) == 1
    vals = [fnum(v) for v in np.asarray(e.values).reshape(-1)]
    mat = lambda a: [[fnum(v) for v in row] for row in np.asarray(a)]
    return (vals, mat(e.correlations[0]), mat(e.estimator_covariances[0]))

# ----------------------------------------------------------------------------- independent oracle (per shot)

def o_const(op):
    return all(len(ops) == 0 for _, ops in op["terms"])

def o_eig(ops, b):
    s = 1
    for q, _ in ops:
        if b[q]:
            s = -s
    return s

def o_expected_measured(op, shots_bits):
    """Direct per-shot recomputation: sample means of c_a*z_a and of (c_a*z_a)*(c_b*z_b)."""
    n = len(shots_bits)
    per = [[fr(c) * o_eig(ops, b) for c, ops in op["terms"]] for b in shots_bits]
    k = len(op["terms"])
    vals = [sum(p[a] for p in per) / n for a in range(k)]
    corr = [[sum(p[a] * p[b] for p in per) / n for b in range(k)] for a in range(k)]
    cov = [[(corr[a][b] - vals[a] * vals[b]) / n for b in range(k)] for a in range(k)]
    return (vals, corr, cov)

def o_estimate(tasks, returned):
    """Expected outcome of the whole call: ('ok', list) or ('err', name); `returned` = runner results in order."""
    measured = [i for i, t in enumerate(tasks) if not o_const(t["op"]) and t["shots"] != 0]
    for i in measured:
        s = tasks[i]["shots"]
        if s is None:
            return ("err", "TypeError")
        if s <= 0:
            return ("err", "ValueError")
    res = [None] * len(tasks)
    for i, t in enumerate(tasks):
        if o_const(t["op"]):
            res[i] = ([sum((fr(c) for c, _ in t["op"]["terms"]), Fraction(0))], [[Fraction(0)]], [[Fraction(0)]])
        elif t["shots"] == 0:
            res[i] = ([Fraction(0)], [[Fraction(0)]], [[Fraction(0)]])
    for i, m in zip(measured, returned):
        op = tasks[i]["op"]
        if any(p != "Z" for _, ops in op["terms"] for _, p in ops):
            return ("err", "TypeError")
        if any(q >= len(b) for b in m for _, ops in op["terms"] for q, _ in ops):
            return ("err", "IndexError")
        res[i] = o_expected_measured(op, m)
    return ("ok", res)

def o_compare(st, out, exp):
    if st != exp[0]:
        return False, f"implementation {st}:{out if st == 'err' else '...'} expected {exp[0]}:{exp[1] if exp[0] == 'err' else '...'}"
    if st == "err":
        return (out == exp[1]), f"raised {out}, expected {exp[1]}"
    if len(out) != len(exp[1]):
        return False, f"{len(out)} results for {len(exp[1])} tasks"
    for i, (a, b) in enumerate(zip(out, exp[1])):
        if a != b:
            return False, f"result {i}: got {a} expected {b}"
    return True, ""

# ----------------------------------------------------------------------------- generators

def gen_coef(rng):
    return [int(x) for x in dyadic(rng, 24, 3, allow_zero=rng.random() < 0.1).as_integer_ratio()]

def gen_zterm(rng, nq, letters="Z"):
    k = rng.randint(1, min(3, nq))
    qs = rng.sample(range(nq), k)          # dict order = insertion order, deliberately unsorted
    return [gen_coef(rng), [[q, rng.choice(letters)] for q in qs]]

def gen_op(rng, nq, flavour):
    """flavour: const | ising | nonising | range"""
    if flavour == "const":
        r = rng.random()
        if r < 0.25:
            return dict(form="sum", terms=[])
        if r < 0.5:
            return dict(form="term", terms=[[gen_coef(rng), []]])
        return dict(form="sum", terms=[[gen_coef(rng), []] for _ in range(rng.randint(1, 3))])
    if rng.random() < 0.15:
        terms = [gen_zterm(rng, nq)]
        form = "term"
    else:
        terms = [gen_zterm(rng, nq) for _ in range(rng.randint(1, 4))]
        for _ in range(rng.choice([0, 0, 1, 2])):
            terms.insert(rng.randint(0, len(terms)), [gen_coef(rng), []])
        if rng.random() < 0.15:
            terms.append([gen_coef(rng), [list(x) for x in rng.choice(terms)[1]]])   # repeated Pauli string
        form = "sum"
    if flavour == "nonising":
        t = rng.choice([t for t in terms if t[1]])
        rng.choice(t[1])[1] = rng.choice("XY")
    if flavour == "range":
        t = rng.choice([t for t in terms if t[1]])
        t[1][-1][0] = nq + rng.randint(0, 2)
    return dict(form=form, terms=terms)

def gen_tasks(rng, nq_of, ncirc, invalid):
    n = rng.choice([0, 1, 1, 2, 3, 4, 5, 6, 7, 8, 8])
    tasks = []
    bad_at = rng.randrange(n) if (invalid and n) else None
    p_const, p_zero = rng.choice([(0.25, 0.25), (0.25, 0.25), (0, 0), (0.1, 0), (0, 0.1), (0.5, 0.3)])   # per-list mixture
    for i in range(n):
        circ = rng.randrange(ncirc)
        flavour = "const" if rng.random() < p_const else "ising"
        shots = 0 if rng.random() < p_zero else rng.randint(1, 50)
        if flavour == "const" and rng.random() < 0.3:
            shots = rng.choice([None, 0, -3])
        if i == bad_at:
            which = rng.choice(["none", "neg", "nonising", "range", "nonising0"])
            if which == "none":
                flavour, shots = "ising", None
            elif which == "neg":
                flavour, shots = "ising", -rng.randint(1, 5)
            elif which == "nonising":
                flavour, shots = "nonising", rng.randint(1, 50)
            elif which == "nonising0":
                flavour, shots = "nonising", 0
            else:
                flavour, shots = "range", rng.randint(1, 50)
        tasks.append(dict(op=gen_op(rng, nq_of(circ), flavour), circ=circ, shots=shots))
    return tasks

def gen_meas(rng, nq):
    if rng.random() < 0.5:
        b = [rng.randint(0, 1) for _ in range(nq)]
        return [b] * rng.randint(1, 50)
    n = rng.choice([1, 2, 4, 8, 16, 32])
    pool = [[rng.randint(0, 1) for _ in range(nq)] for _ in range(rng.randint(1, 4))]
    return [rng.choice(pool) for _ in range(n)]

def g_coef(rng):
    """(re + i im) / 2^e, mostly real"""
    e = rng.randint(0, 3)
    re = rng.randint(-12, 12)
    im = rng.randint(-12, 12) if rng.random() < 0.25 else 0
    return [re, im, e]

def g_state(rng, n):
    """dyadic unit state (same construction as the C09 harness): weights 2^-k on distinct basis states, amplitude of
    weight 2^-k is a unit times 2^(-k/2) (k even) or (+-1 +-i) 2^(-(k+1)/2) (k odd); [[re, im, e], ...]"""
    d = 2 ** n
    ws = [0]
    while len(ws) < d and rng.random() < 0.8:
        i = rng.randrange(len(ws))
        if ws[i] >= 6:
            break
        ws[i] += 1
        ws.insert(i, ws[i])
    pos = rng.sample(range(d), len(ws))
    amps = [[0, 0, 0] for _ in range(d)]
    for p, k in zip(pos, ws):
        if k % 2 == 0:
            re, im = rng.choice([(1, 0), (-1, 0), (0, 1), (0, -1)])
            amps[p] = [re, im, k // 2]
        else:
            amps[p] = [rng.choice([1, -1]), rng.choice([1, -1]), (k + 1) // 2]
    return amps

def gnum(c):
    return complex(c[0], c[1]) / 2 ** c[2]

def c_gnum(c):
    return f"(xnum {cz(c[0])} {cz(c[1])} {cnat(c[2])})"

def c_gterm(t):
    c, ops = t
    return f"(xterm {cz(c[0])} {cz(c[1])} {cnat(c[2])} {clist(ops, lambda qp: cpair(cnat(qp[0]), 'P' + qp[1]))})"

def dyadic_triple(x):
    f = Fraction(float(x))
    e = f.denominator.bit_length() - 1
    assert f.denominator == 2 ** e
    return [f.numerator, 0, e]

class ScriptedSimulator(BaseWavefunctionSimulator):
    """Keeps the library's get_exact_expectation_values and answers get_wavefunction from a script."""

    def __init__(self, table):
        super().__init__()
        self.table = table          # list of (circuit object, amplitudes)

    def _get_wavefunction_from_native_circuit(self, circuit, initial_state):
        raise NotImplementedError

    def get_wavefunction(self, circuit, initial_state=None):
        for c, amps in self.table:
            if c is circuit:
                return Wavefunction(np.array(amps, dtype=complex))
        raise KeyError("unknown circuit")

def g_xshots(rng):
    """shots of a task handed to the exact path (must not matter): 0, None and positive regularly mixed"""
    return rng.choice([0, 0, None, None, rng.randint(1, 50), rng.randint(1, 50)])

def gen(rng, tier):
    n = 420 if tier in ("quick", "search") else 8000
    for _ in range(n):
        r = rng.random()
        if r < 0.07:
            states = [[n, g_state(rng, n)] for n in [rng.randint(1, 3) for _ in range(rng.randint(1, 3))]]
            tasks = []
            for _ in range(rng.randint(1, 5)):
                ci = rng.randrange(len(states))
                n = states[ci][0]
                wide = rng.random() < 0.06
                terms = []
                for _ in range(rng.choice([0, 1, 1, 2, 2, 3])):
                    qs = sorted(rng.sample(range(n + (1 if wide else 0)), rng.randint(1, n)))
                    if wide:
                        qs[-1] = n
                    terms.append([g_coef(rng), [[q, rng.choice("XYZ")] for q in qs]])
                if rng.random() < 0.4:
                    terms.insert(rng.randint(0, len(terms)), [g_coef(rng), []])
                form = "term" if len(terms) == 1 and rng.random() < 0.5 else "sum"
                tasks.append(dict(op=dict(form=form, terms=terms), circ=ci, shots=g_xshots(rng)))
            yield dict(kind="exact-model", states=states, tasks=tasks)
        elif r < 0.42:
            nq = rng.randint(1, 4)
            invalid = rng.random() < 0.15
            tasks = gen_tasks(rng, lambda c: nq, 4, invalid)
            outs = [gen_meas(rng, nq) for _ in range(len(tasks) + 2)]
            yield dict(kind="mock", tasks=tasks, outs=outs, delta=rng.choice([0] * 12 + [-1, -2, 1, 2]))
        elif r < 0.66:
            ncirc = rng.randint(1, 4)
            circs = []
            for _ in range(ncirc):
                nq = rng.randint(1, 4)
                circs.append([nq, [rng.randrange(nq) for _ in range(rng.randint(0, nq + 1))]])
            invalid = rng.random() < 0.12
            tasks = gen_tasks(rng, lambda c: circs[c][0], ncirc, invalid)
            yield dict(kind="sim", circs=circs, tasks=tasks)
        elif r < 0.73:
            nq = rng.randint(1, 4)
            yield dict(kind="freq", meas=gen_meas(rng, nq), S=rng.sample(range(nq), rng.randint(0, nq)))
        elif r < 0.77:
            tasks = gen_tasks(rng, lambda c: 3, 100, False)
            for i, t in enumerate(tasks):
                t["circ"] = 100 + i
            yield dict(kind="split", tasks=tasks)
        elif r < 0.82:
            tasks = gen_tasks(rng, lambda c: 3, 100, False)
            for i, t in enumerate(tasks):
                t["circ"] = 100 + i
                if rng.random() < 0.9:
                    t["shots"] = rng.choice([None, 0, 0, -2, 5 if rng.random() < 0.15 else 0])
            yield dict(kind="nonmeasured", tasks=tasks)
        elif r < 0.9:
            nt = rng.randint(0, 6)
            tasks = [dict(op=gen_op(rng, 3, rng.choice(["const", "ising"])), circ=rng.randrange(3),
                          shots=rng.choice([None, 0, rng.randint(1, 50)])) for _ in range(nt)]
            nm = max(0, nt + rng.choice([0, 0, 0, 0, -1, 1, 2]))
            maps = [[rng.randint(-8, 8), rng.randint(-8, 8)] for _ in range(nm)]
            yield dict(kind="bind", tasks=tasks, maps=maps)
        elif r < 0.95:
            circs = []
            for _ in range(rng.randint(1, 3)):
                nq = rng.randint(1, 4)
                circs.append([nq, [rng.randrange(nq) for _ in range(rng.randint(0, nq + 1))]])
            tasks = []
            for _ in range(rng.randint(1, 5)):
                ci = rng.randrange(len(circs))
                tasks.append(dict(op=gen_op(rng, circs[ci][0], rng.choice(["ising", "ising", "const"])), circ=ci,
                                  shots=g_xshots(rng)))
            yield dict(kind="exact-basis", circs=circs, tasks=tasks)
        else:
            nq = rng.randint(1, 3)
            circs = []
            for _ in range(rng.randint(1, 2)):
                gates = []
                for _ in range(rng.randint(1, 5)):
                    g = rng.choice(["X", "RX", "RY", "RZ", "CNOT"] if nq > 1 else ["X", "RX", "RY", "RZ"])
                    if g == "CNOT":
                        gates.append([g, rng.sample(range(nq), 2), None])
                    else:
                        gates.append([g, [rng.randrange(nq)], None if g == "X" else rng.randint(-7, 7)])
                circs.append(gates)
            tasks = []
            for _ in range(rng.randint(1, 4)):
                terms = [gen_zterm(rng, nq, "XYZ") for _ in range(rng.randint(1, 3))]
                if rng.random() < 0.4:
                    terms.append([gen_coef(rng), []])
                if rng.random() < 0.15:
                    terms = [[gen_coef(rng), []] for _ in range(rng.randint(0, 2))]      # constant operator in the same list
                tasks.append(dict(op=dict(form="sum", terms=terms), circ=rng.randrange(len(circs)), shots=g_xshots(rng)))
            yield dict(kind="exact-general", nq=nq, circs=circs, tasks=tasks)

# ----------------------------------------------------------------------------- runners

class ScriptedRunner(BaseCircuitRunner):
    """Keeps the library's validation (BaseCircuitRunner.run_batch_and_measure) and answers from a script."""

    def __init__(self, outs, delta):
        super().__init__()
        self.outs, self.delta, self.seen = outs, delta, None

    def _run_and_measure(self, circuit, n_samples):
        raise NotImplementedError

    def _run_batch_and_measure(self, batch, samples_per_circuit):
        self.seen = (list(batch), list(samples_per_circuit))
        k = max(0, len(batch) + self.delta)
        self.returned = self.outs[:k]
        return [Measurements([tuple(b) for b in m]) for m in self.returned]


def xcirc(c):
    return Circuit([X(q) for q in c[1]], n_qubits=c[0])

def kinds_of(tasks):
    return ["C" if o_const(t["op"]) else ("Z" if t["shots"] == 0 else "M") for t in tasks]

def nontrivial_tasks(tasks):
    ks = kinds_of(tasks)
    return len(set(ks)) >= 2 or any(k == "M" and len(t["op"]["terms"]) >= 2 for k, t in zip(ks, tasks))

# ----------------------------------------------------------------------------- cases

def run_case(inp):
    kind = inp["kind"]
    if kind == "mock":
        tasks = inp["tasks"]
        circuits = [Circuit([X(0)] * (i + 1)) for i in range(4)]
        py_tasks = [EstimationTask(mk_op(t["op"]), circuits[t["circ"]], t["shots"]) for t in tasks]
        runner = ScriptedRunner(inp["outs"], inp["delta"])
        st, out = outcome(lambda: [ev_data(e) for e in estimate_expectation_values_by_averaging(runner, py_tasks)], timeout=30)
        if st == "err" and out not in ERR:
            return dict(chk="false", oracle_ok=False, oracle_msg=f"unexpected exception {out}", kind="mock")
        returned = getattr(runner, "returned", [])
        seen = None
        if runner.seen is not None:
            seen = [(next(i for i, c in enumerate(circuits) if c is cc), n) for cc, n in zip(*runner.seen)]
        exp = o_estimate(tasks, returned)
        ok, msg = o_compare(st, out, exp)
        if ok and runner.seen is not None:
            want = [(t["circ"], t["shots"]) for t, k in zip(tasks, kinds_of(tasks)) if k == "M"]
            if seen != want:
                ok, msg = False, f"runner was given {seen}, expected {want}"
        if ok and runner.seen is None and st == "ok" and "M" in kinds_of(tasks):
            ok, msg = False, "runner not called although a task needs measuring"
        chk = (f"mock_eqb {clist(tasks, lambda t: c_task(t, cz))} {clist(returned, c_meas)} "
               f"{copt(seen, lambda s: clist(s, lambda cn: cpair(cz(cn[0]), cz(cn[1]))))} {c_res(st, out, lambda o: clist(o, c_ev))}")
        label = "mock" + ("-err" if st == "err" else ("-short" if inp["delta"] < 0 else ("-long" if inp["delta"] > 0 else "")))
        return dict(chk=chk, oracle_ok=ok, oracle_msg=msg, kind=label, nontrivial=nontrivial_tasks(tasks))
    if kind == "sim":
        tasks, circs = inp["tasks"], inp["circs"]
        circuits = [xcirc(c) for c in circs]
        py_tasks = [EstimationTask(mk_op(t["op"]), circuits[t["circ"]], t["shots"]) for t in tasks]
        sim = SymbolicSimulator(seed=11)
        st, out = outcome(lambda: [ev_data(e) for e in estimate_expectation_values_by_averaging(sim, py_tasks)], timeout=60)
        if st == "err" and out not in ERR:
            return dict(chk="false", oracle_ok=False, oracle_msg=f"unexpected exception {out}", kind="sim")
        measured = [t for t, k in zip(tasks, kinds_of(tasks)) if k == "M"]
        returned = []
        for t in measured:
            nq, xs = circs[t["circ"]]
            b = [sum(1 for x in xs if x == q) % 2 for q in range(nq)]
            returned.append([b] * (t["shots"] if isinstance(t["shots"], int) and t["shots"] > 0 else 1))
        exp = o_estimate(tasks, returned)
        ok, msg = o_compare(st, out, exp)
        if ok and st == "ok":
            # basis-state exactness, stated directly: value = coefficient * eigenvalue, zero covariance
            for t, e, k in zip(tasks, out, kinds_of(tasks)):
                if k == "M":
                    nq, xs = circs[t["circ"]]
                    b = [sum(1 for x in xs if x == q) % 2 for q in range(nq)]
                    if e[0] != [fr(c) * o_eig(ops, b) for c, ops in t["op"]["terms"]] or any(v != 0 for row in e[2] for v in row):
                        ok, msg = False, f"basis state {b}: values {e[0]} covariances {e[2]} for {t['op']}"
        chk = (f"sim_eqb {clist(tasks, lambda t: c_task(t, lambda c: c_xc(circs[c])))} "
               f"{c_res(st, out, lambda o: clist(o, c_ev))}")
        return dict(chk=chk, oracle_ok=ok, oracle_msg=msg, kind="sim" + ("-err" if st == "err" else ""),
                    nontrivial=nontrivial_tasks(tasks))
    if kind == "freq":
        m, S = inp["meas"], inp["S"]
        st, out = outcome(lambda: (lambda counts: (list(counts.items()), get_expectation_value_from_frequencies(set(S), counts)))(
            Measurements([tuple(b) for b in m]).get_counts()))
        if st != "ok":
            return dict(chk="false", oracle_ok=False, oracle_msg=f"raised {out}", kind=kind)
        counts, val = out
        want = sum(Fraction(o_eig([[q, "Z"] for q in S], b)) for b in m) / len(m)
        ok = Fraction(val) == want and sum(c for _, c in counts) == len(m)
        chk = (f"counts_eqb {c_meas(m)} {clist(counts, lambda kc: cpair(clist(kc[0], lambda ch: cbool(ch == '1')), cz(kc[1])))} && "
               f"freq_eqb {clist(S, cnat)} {c_meas(m)} {cq(Fraction(val))}")
        return dict(chk=chk, oracle_ok=ok, oracle_msg="" if ok else f"frequencies {counts} qubits {S}: {val}, per-shot mean {want}",
                    kind=kind, nontrivial=len(counts) >= 2 and len(S) >= 1)
    if kind == "split":
        tasks = inp["tasks"]
        py_tasks = [EstimationTask(mk_op(t["op"]), t["circ"], t["shots"]) for t in tasks]
        st, out = outcome(split_estimation_tasks_to_measure, py_tasks)
        if st != "ok":
            return dict(chk="false", oracle_ok=False, oracle_msg=f"split raised {out}", kind=kind)
        tm, tn, im, inm = out
        ks = kinds_of(tasks)
        ok = (sorted(im + inm) == list(range(len(tasks))) and im == sorted(im) and inm == sorted(inm)
              and all(ks[i] == "M" for i in im) and all(ks[i] != "M" for i in inm)
              and all(a is py_tasks[i] for a, i in zip(tm, im)) and all(a is py_tasks[i] for a, i in zip(tn, inm))
              and len(tm) == len(im) and len(tn) == len(inm))
        chk = (f"split_eqb {clist(tasks, lambda t: c_task(t, cz))} {clist(im, cnat)} {clist(inm, cnat)} "
               f"{clist([t.circuit for t in tm], cz)} {clist([t.circuit for t in tn], cz)}")
        return dict(chk=chk, oracle_ok=ok, oracle_msg="" if ok else f"indices {im} / {inm} for kinds {ks}", kind=kind,
                    nontrivial=len(set(ks)) >= 2)
    if kind == "nonmeasured":
        tasks = inp["tasks"]
        py_tasks = [EstimationTask(mk_op(t["op"]), t["circ"], t["shots"]) for t in tasks]
        st, out = outcome(lambda: [ev_data(e) for e in evaluate_non_measured_estimation_tasks(py_tasks)])
        if st == "err" and out not in ERR:
            return dict(chk="false", oracle_ok=False, oracle_msg=f"unexpected exception {out}", kind=kind)
        Z0 = Fraction(0)
        bad = any(not o_const(t["op"]) and t["shots"] is not None and t["shots"] > 0 for t in tasks)
        if bad:
            ok = st == "err" and out == "RuntimeError"
        else:
            ok = st == "ok" and out == [([sum((fr(c) for c, _ in t["op"]["terms"]), Z0) if o_const(t["op"]) else Z0], [[Z0]], [[Z0]])
                                        for t in tasks]
        chk = f"nonmeasured_eqb {clist(tasks, lambda t: c_task(t, cz))} {c_res(st, out, lambda o: clist(o, c_ev_plain))}"
        return dict(chk=chk, oracle_ok=ok, oracle_msg="" if ok else f"{st}: {out}", kind=kind + ("-err" if st == "err" else ""),
                    nontrivial=len(tasks) >= 2)
    if kind == "bind":
        tasks, maps = inp["tasks"], inp["maps"]
        a, b = sympy.symbols("a b")
        circuits = [Circuit([RX(a)(0), RY(b)(1)]), Circuit([RZ(a + b)(0), X(1)]), Circuit([RY(a * 2)(1), RX(b)(0), X(0)])]
        ops = [mk_op(t["op"]) for t in tasks]
        py_tasks = [EstimationTask(o, circuits[t["circ"]], t["shots"]) for o, t in zip(ops, tasks)]
        py_maps = [{a: sympy.Rational(m[0], 8), b: sympy.Rational(m[1], 8)} for m in maps]
        st, out = outcome(evaluate_estimation_circuits, py_tasks, py_maps, timeout=30)
        if st != "ok":
            return dict(chk="false", oracle_ok=False, oracle_msg=f"evaluate_estimation_circuits raised {out}", kind=kind)
        # identify every returned task: which operator object, which (circuit, map) pair, which shots
        ident, ok, msg = [], True, ""
        for k, t in enumerate(out):
            oi = [i for i, o in enumerate(ops) if o is t.operator]
            cands = [(ci, mi) for ci, c in enumerate(circuits) for mi, m in enumerate(py_maps) if t.circuit == c.bind(m)]
            want = (tasks[k]["circ"], k) if k < min(len(tasks), len(maps)) else None
            if not oi or want not in cands or t.circuit.free_symbols:
                ok, msg = False, f"returned task {k}: operator matches {oi}, circuit matches (circuit, map) {cands}, expected {want}"
                ident.append(None)
                continue
            # prefer the expected pair when equal maps make several pairs indistinguishable
            ident.append(dict(op=tasks[oi[0]]["op"], circ=[want[0], want[1]] if want in cands else list(cands[0]), shots=t.number_of_shots))
            if oi[0] != k:
                ok, msg = False, f"returned task {k} carries operator of task {oi[0]}"
            if t.number_of_shots != tasks[k]["shots"]:
                ok, msg = False, f"returned task {k} has shots {t.number_of_shots}, task had {tasks[k]['shots']}"
        if len(out) != min(len(tasks), len(maps)):
            ok, msg = False, f"{len(out)} bound tasks for {len(tasks)} tasks and {len(maps)} maps"
        if ok and any(set(circuits[t["circ"]].free_symbols) != {a, b} for t in tasks):
            ok, msg = False, "input circuits were modified by binding"
        if None in ident:
            return dict(chk="false", oracle_ok=False, oracle_msg=msg, kind=kind)
        cc = lambda c: cpair(cz(c[0]), cz(c[1]))
        chk = (f"bind_eqb {clist(tasks, lambda t: c_task(t, lambda c: cc([c, -1])))} {clist(range(len(maps)), cz)} "
               f"{clist(ident, lambda t: c_task(t, cc))}")
        return dict(chk=chk, oracle_ok=ok, oracle_msg=msg, kind=kind, nontrivial=len(out) >= 2)
    if kind == "exact-basis":
        circs, tasks = inp["circs"], inp["tasks"]
        circuits = [xcirc(c) for c in circs]
        py_tasks = [EstimationTask(mk_op(t["op"]), circuits[t["circ"]], t.get("shots")) for t in tasks]
        st, out = outcome(lambda: calculate_exact_expectation_values(SymbolicSimulator(), py_tasks), timeout=60)
        if st != "ok":
            return dict(chk="false", oracle_ok=False, oracle_msg=f"calculate_exact_expectation_values raised {out}", kind=kind)
        vals, ok, msg = [], len(out) == len(tasks), "" if len(out) == len(tasks) else f"{len(out)} results for {len(tasks)} tasks"
        for t, e in zip(tasks, out):
            nq, xs = circs[t["circ"]]
            b = [sum(1 for x in xs if x == q) % 2 for q in range(nq)]
            v = np.asarray(e.values).reshape(-1)
            want = sum((fr(cf) * o_eig(tops, b) for cf, tops in t["op"]["terms"]), Fraction(0))
            if len(v) != 1 or Fraction(float(v[0])) != want or e.correlations is not None:
                ok, msg = False, f"exact value {v} for {t['op']} on basis state {b}, expected {want}"
            vals.append(Fraction(float(v[0])) if len(v) else Fraction(0))
        chk = " && ".join([f"exact_eqb {c_op(t['op'])} {c_xc(circs[t['circ']])} {cq(v)}" for t, v in zip(tasks, vals)]
                          + [cbool(len(out) == len(tasks))])
        return dict(chk=chk, oracle_ok=ok, oracle_msg=msg, kind=kind,
                    nontrivial=len(tasks) >= 2 or any(len(t["op"]["terms"]) >= 2 for t in tasks))
    if kind == "exact-model":
        states, tasks = inp["states"], inp["tasks"]
        circuits = [Circuit([X(0)] * (i + 1), n_qubits=st_[0]) for i, st_ in enumerate(states)]
        sim = ScriptedSimulator([(c, [gnum(a) for a in st_[1]]) for c, st_ in zip(circuits, states)])
        def mk(op):
            terms = [PauliTerm({int(q): p for q, p in ops}, gnum(c) if c[1] else float(gnum(c).real)) for c, ops in op["terms"]]
            return terms[0] if op["form"] == "term" else PauliSum(terms)
        py_tasks = [EstimationTask(mk(t["op"]), circuits[t["circ"]], t.get("shots")) for t in tasks]
        st, out = outcome(lambda: [(np.asarray(e.values).reshape(-1).tolist(), e.correlations, e.estimator_covariances)
                                   for e in calculate_exact_expectation_values(sim, py_tasks)], timeout=60)
        wide = any(q >= states[t["circ"]][0] for t in tasks for _, ops in t["op"]["terms"] for q, _ in ops)
        if st == "ok":
            ok, msg = (not wide) and len(out) == len(tasks), "" if not wide else "operator wider than the state accepted"
            vals = []
            for t, (v, corr, cov) in zip(tasks, out):
                n, amps = states[t["circ"]]
                psi = np.array([gnum(a) for a in amps])
                m = np.zeros((2 ** n, 2 ** n), dtype=complex)
                for c, ops in t["op"]["terms"]:
                    d = dict((q, p) for q, p in ops)
                    m += gnum(c) * _kron([_P[d.get(q, "I")] for q in range(n)])
                want = (psi.conj() @ m @ psi).real
                if len(v) != 1 or isinstance(v[0], complex) or abs(v[0] - want) > 1e-12 or corr is not None or cov is not None:
                    ok, msg = False, f"exact value {v} for {t['op']} in state {amps}: quadratic form is {want}"
                vals.append([dyadic_triple(x) for x in v])
            coq = "(Some " + clist(vals, lambda v: clist(v, c_gnum)) + ")"
        else:
            ok, msg = wide, "" if wide else f"raised {out} on operators that fit their states"
            coq = "None"
        chk = (f"exactm_eqb {clist(states, lambda s_: cpair(cnat(s_[0]), clist(s_[1], c_gnum)))} "
               f"{clist(tasks, lambda t: cpair(clist(t['op']['terms'], c_gterm), cnat(t['circ'])))} {coq}")
        return dict(chk=chk, oracle_ok=ok, oracle_msg=msg, kind=kind + ("" if st == "ok" else "-rejected"),
                    nontrivial=len(tasks) >= 2 or any(len(t["op"]["terms"]) >= 2 for t in tasks))
    if kind == "exact-general":
        nq, tasks = inp["nq"], inp["tasks"]
        gl = dict(X=X, RX=RX, RY=RY, RZ=RZ, CNOT=CNOT)
        circuits = [Circuit([gl[g](*qs) if k is None else gl[g](sympy.pi * sympy.Rational(k, 8))(*qs) for g, qs, k in gates],
                            n_qubits=nq) for gates in inp["circs"]]
        py_tasks = [EstimationTask(mk_op(t["op"]), circuits[t["circ"]], t.get("shots")) for t in tasks]
        st, out = outcome(lambda: calculate_exact_expectation_values(SymbolicSimulator(), py_tasks), timeout=60)
        if st != "ok":
            return dict(chk=None, oracle_ok=False, oracle_msg=f"calculate_exact_expectation_values raised {out}", kind=kind)
        ok, msg = len(out) == len(py_tasks), "" if len(out) == len(py_tasks) else f"{len(out)} results for {len(tasks)} tasks"
        for t, e in zip(tasks, out):
            psi = dense_state(nq, inp["circs"][t["circ"]])
            want = (psi.conj() @ dense_operator(nq, t["op"]) @ psi).real
            v = np.asarray(e.values).reshape(-1)
            if len(v) != 1 or abs(float(v[0]) - want) > 1e-9:
                ok, msg = False, f"exact value {v} differs from the quadratic form {want}"
        return dict(chk=None, oracle_ok=ok, oracle_msg=msg, kind=kind, nontrivial=len(tasks) >= 2 or len(tasks[0]["op"]["terms"]) >= 2)
    raise ValueError(kind)

# dense linear algebra written from the textbook definitions (qubit 0 = most significant bit of the index)
_P = dict(I=np.eye(2), X=np.array([[0, 1], [1, 0]], dtype=complex), Y=np.array([[0, -1j], [1j, 0]]),
          Z=np.array([[1, 0], [0, -1]], dtype=complex))

def _kron(ms):
    out = np.eye(1, dtype=complex)
    for m in ms:
        out = np.kron(out, m)
    return out

def dense_operator(nq, op):
    tot = np.zeros((2 ** nq, 2 ** nq), dtype=complex)
    for c, ops in op["terms"]:
        d = dict((q, p) for q, p in ops)
        tot += float(fr(c)) * _kron([_P[d.get(q, "I")] for q in range(nq)])
    return tot

def dense_state(nq, gates):
    psi = np.zeros(2 ** nq, dtype=complex)
    psi[0] = 1
    for g, qs, k in gates:
        if g == "CNOT":
            u = np.zeros((2 ** nq, 2 ** nq), dtype=complex)
            for i in range(2 ** nq):
                bits = [(i >> (nq - 1 - q)) & 1 for q in range(nq)]
                if bits[qs[0]]:
                    bits[qs[1]] ^= 1
                u[sum(b << (nq - 1 - q) for q, b in enumerate(bits)), i] = 1
        else:
            if g == "X":
                m = _P["X"]
            else:
                th = np.pi * k / 8
                m = np.cos(th / 2) * np.eye(2) - 1j * np.sin(th / 2) * _P[g[1]]
            u = _kron([m if q == qs[0] else np.eye(2) for q in range(nq)])
        psi = u @ psi
    return psi


def w_f18():
    c = Circuit([X(0)])
    runner = ScriptedRunner([], 0)
    st, out = outcome(lambda: [ev_data(e) for e in estimate_expectation_values_by_averaging(runner, [
        EstimationTask(PauliSum([PauliTerm("I0", 2.0), PauliTerm("I0", 3.0)]), c, 10), EstimationTask(PauliSum([]), c, 10)])])
    bad = not (st == "ok" and out[0][0] == [5] and out[1][0] == [0])
    return bad, f"constant operator 2*I + 3*I and the empty sum, 10 shots each -> {st}: {[o[0] for o in out] if st == 'ok' else out}"

H.main(gen, run_case, {"F18": w_f18})
