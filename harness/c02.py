"""C02 harness: built-in gates.  The model is generated from the source (translator), so the
correspondence here checks (a) that the library can compute every gate's matrix (floats, ints, sympy
rationals, symbols), (b) that the translator's reading of each matrix agrees with what sympy evaluates
(entry-wise, certified inside Coq by `interval` to 1e-12), (c) that the generated gate table agrees with the
attributes of the running gate objects.  The numpy oracle re-checks the property's clauses numerically."""
import inspect, math
import numpy as np, sympy
from hlib import *
from orquestra.quantum.circuits import _builtin_gates as bg, _gates

GATES = [n for n, v in vars(bg).items()
         if isinstance(v, _gates.MatrixFactoryGate) or (callable(v) and getattr(v, "__qualname__", "").startswith("make_parametric_gate_prototype.<locals>"))]
GROUP = ["RX", "RY", "RZ", "RH", "PHASE", "CPHASE", "XX", "YY", "ZZ", "XY"]

def nparams(name):
    g = getattr(bg, name)
    if isinstance(g, _gates.MatrixFactoryGate):
        return 0
    for k in range(0, 5):
        try:
            gg = g(*([0.1] * k))
            gg.matrix
            return k
        except TypeError:
            continue
    raise RuntimeError("cannot determine arity of " + name)

def gate(name, ps):
    g = getattr(bg, name)
    return g if isinstance(g, _gates.MatrixFactoryGate) else g(*ps)

def npmat(m):
    return np.array([[complex(sympy.N(x)) for x in row] for row in m.tolist()], dtype=complex)

H = Harness("C02", ["OQ.Gates.CR", "OQ.Gen.GatesGen", "OQ.Gates.BuiltinCases"],
            "per gate: table-entry cases (generated table vs running object), computability cases (float/int/Rational/"
            "Symbol parameters), entry cases (generated definition vs sympy's evaluated matrix at rational parameter "
            "points, certified by interval to 1e-12), law cases (numpy oracle: unitarity, flag, group law, fixed relations "
            "at random parameters), fresh cases (the caller edits the matrix object it was handed; asking again must give the same matrix); non-trivial = parametric gate or 2-qubit gate",
            preamble="Require Import Coq.Reals.Reals Coq.Lists.List.\nImport ListNotations.\nFrom Interval Require Import Tactic.\nOpen Scope R_scope.\n")

def gen(rng, tier):
    npts = 2 if tier == "quick" else 8
    nlaw = 20 if tier == "quick" else 200
    yield dict(kind="names")
    for name in GATES:
        yield dict(kind="table", gate=name)
        k = nparams(name)
        for style in ("float", "int", "rational", "symbol"):
            yield dict(kind="computable", gate=name, style=style, vals=[rng.randint(-7, 7) for _ in range(k)])
        for _ in range(npts if k else 1):
            yield dict(kind="entries", gate=name, num=[rng.randint(-40, 40) for _ in range(k)], den=[rng.choice([1, 2, 3, 5, 7, 10]) for _ in range(k)])
        for _ in range(nlaw if k else 1):
            yield dict(kind="laws", gate=name, ps=[rng.uniform(-7, 7) for _ in range(k)], qs=[rng.uniform(-7, 7) for _ in range(k)])
    yield dict(kind="relations")
    # history stream (last, so that a shared-object defect cannot disturb the cases above): the caller edits the
    # matrix it was handed, then asks again; the second answer must still be the gate's matrix
    for name in GATES:
        yield dict(kind="fresh", gate=name, ps=[rng.uniform(-7, 7) for _ in range(nparams(name))])

def rlit(x):
    fr = Fraction(repr(float(x))) if not isinstance(x, Fraction) else x
    s = f"({abs(fr.numerator)} / {fr.denominator})"
    return s if fr >= 0 else f"(- {s})"

def run_case(inp):
    kind = inp["kind"]
    if kind == "names":
        return dict(chk="names_eqb " + clist(GATES, cstring), kind=kind, nontrivial=False,
                    oracle_ok=len(GATES) == 27, oracle_msg=f"{len(GATES)} built-in gates found: {GATES}")
    name = inp.get("gate")
    if kind == "table":
        k = nparams(name)
        g = gate(name, [0.25] * k)
        return dict(chk=f"table_entry_eqb {cstring(name)} {cnat(k)} {cnat(g.num_qubits)} {cbool(g.is_hermitian)}",
                    kind=kind, nontrivial=k > 0 or g.num_qubits > 1, oracle_ok=g.name == name, oracle_msg=f"gate {name} reports name {g.name}")
    if kind == "computable":
        conv = dict(float=lambda v: v / 4.0, int=lambda v: int(v), rational=lambda v: sympy.Rational(v, 3),
                    symbol=lambda v: sympy.Symbol(f"theta_{abs(v)}"))[inp["style"]]
        ps = [conv(v) for v in inp["vals"]]
        st, out = outcome(lambda: gate(name, ps).matrix, timeout=60)
        ok = st == "ok" and out.shape == (2 ** gate(name, ps).num_qubits,) * 2
        return dict(chk=None, kind=kind + "-" + inp["style"], nontrivial=bool(ps), oracle_ok=ok,
                    oracle_msg="" if ok else f"{name}{tuple(ps)}.matrix -> {out if st != 'ok' else out.shape}")
    if kind == "entries":
        ps = [Fraction(n, d) for n, d in zip(inp["num"], inp["den"])]
        st, out = outcome(lambda: npmat(gate(name, [float(p) for p in ps]).matrix), timeout=60)
        if st != "ok":
            return dict(chk=None, kind=kind, oracle_ok=False, oracle_msg=f"{name}{tuple(map(float, ps))}.matrix raised {out}")
        fac = name.lower() + "_matrix"
        fac = {"gpi": "gpi_matrix", "gpi2": "gpi2_matrix"}.get(name.lower(), fac)
        app = "(" + " ".join([fac] + [rlit(p) for p in ps]) + ")"
        n = out.shape[0]
        goals = []
        for i in range(n):
            for j in range(n):
                for part, val in (("fst", out[i, j].real), ("snd", out[i, j].imag)):
                    goals.append(f"Rabs ({part} (nth {j}%nat (nth {i}%nat {app} []) (0, 0)) - {rlit(val)}) <= 1 / 1000000000000")
        lemma = (f"Lemma case_{abs(hash(json.dumps(inp, sort_keys=True))) % 10**12} : " + " /\\\n  ".join(goals) + ".\nProof. unfold " + fac +
                 (", i_matrix" if fac == "delay_matrix" else "") + "; cbn [nth fst snd]; repeat split; interval with (i_prec 80). Qed.")
        return dict(chk=None, goal=lemma, kind=kind, nontrivial=bool(ps) or n > 2, oracle_ok=True, oracle_msg="")
    if kind == "laws":
        ps, qs = inp["ps"], inp["qs"]
        g = gate(name, ps)
        st, M = outcome(lambda: npmat(g.matrix), timeout=60)
        if st != "ok":
            return dict(chk=None, kind=kind, oracle_ok=False, oracle_msg=f"{name}{tuple(ps)}.matrix raised {M}")
        d = 2 ** g.num_qubits
        msgs = []
        if M.shape != (d, d): msgs.append(f"shape {M.shape}")
        elif np.abs(M.conj().T @ M - np.eye(d)).max() > 1e-9: msgs.append("not unitary")
        elif g.is_hermitian and np.abs(M.conj().T - M).max() > 1e-9: msgs.append("flagged self-adjoint but differs from its adjoint")
        if name in GROUP and not msgs:
            M2 = npmat(gate(name, qs).matrix); M12 = npmat(gate(name, [ps[0] + qs[0]]).matrix)
            if np.abs(M @ M2 - M12).max() > 1e-9: msgs.append("G(a)G(b) != G(a+b)")
            if np.abs(npmat(gate(name, [0.0]).matrix) - np.eye(d)).max() > 1e-9: msgs.append("G(0) != I")
        if name == "Delay" and not msgs and np.abs(M - np.eye(2)).max() > 1e-12: msgs.append("Delay is not the identity")
        return dict(chk=None, kind=kind, nontrivial=bool(ps), oracle_ok=not msgs, oracle_msg=f"{name}{tuple(ps)}: " + "; ".join(msgs))
    if kind == "fresh":
        ps = inp["ps"]
        st, M0 = outcome(lambda: gate(name, ps).matrix, timeout=60)
        if st != "ok":
            return dict(chk=None, kind=kind, oracle_ok=False, oracle_msg=f"{name}{tuple(ps)}.matrix raised {M0}")
        before = npmat(M0)
        try:
            M0[0, 0] = M0[0, 0] + 3
            M0[M0.shape[0] - 1, 0] = 5
            edited = True
        except TypeError:
            edited = False      # immutable result: nothing a caller could spoil
        after = npmat(gate(name, ps).matrix)
        ok = after.shape == before.shape and np.abs(after - before).max() < 1e-12
        return dict(chk=None, kind=kind, nontrivial=edited, oracle_ok=ok,
                    oracle_msg=f"{name}{tuple(ps)}.matrix differs (not unitary any more) after the caller edited the matrix object it had been handed earlier")
    if kind == "relations":
        m = lambda n: npmat(getattr(bg, n).matrix)
        msgs = []
        close = lambda a, b: np.abs(a - b).max() < 1e-9
        if not close(m("S") @ m("S"), m("Z")): msgs.append("S*S != Z")
        if not close(m("T") @ m("T"), m("S")): msgs.append("T*T != S")
        if not close(m("SX") @ m("SX"), m("X")): msgs.append("SX*SX != X")
        if not close(m("H") @ m("Z") @ m("H"), m("X")): msgs.append("H*Z*H != X")
        blk = lambda u: np.block([[np.eye(2), np.zeros((2, 2))], [np.zeros((2, 2)), u]])
        if not close(m("CNOT"), blk(m("X"))): msgs.append("CNOT != controlled X")
        if not close(m("CZ"), blk(m("Z"))): msgs.append("CZ != controlled Z")
        sw = np.zeros((4, 4)); 
        for a in (0, 1):
            for b in (0, 1): sw[2 * a + b, 2 * b + a] = 1
        if not close(m("SWAP"), sw): msgs.append("SWAP does not exchange the qubits")
        return dict(chk=None, kind=kind, nontrivial=True, oracle_ok=not msgs, oracle_msg="; ".join(msgs))
    raise ValueError(kind)

import json
def w_f7():
    st, out = outcome(lambda: bg.H.matrix)
    return st != "ok", f"H.matrix -> {out if st != 'ok' else 'ok'}"

H.main(gen, run_case, {"F7": w_f7})
