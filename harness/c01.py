"""C01 correspondence harness: lifting of gate matrices, circuit unitaries, step-by-step application,
the base-class simulator with an arbitrary native predicate, concatenation.

Everything is exact: gate matrices have Gaussian-dyadic entries, which IEEE doubles and sympy rationals carry
without rounding as long as numerators stay below 2^53; the generator keeps a bit budget per circuit.
The gate's own matrix (property C02) is read from the gate object and passed to the model as literals;
what is compared is placement, order and composition.
"""
import copy
import math
from fractions import Fraction

import numpy as np
import sympy

from hlib import *
from orquestra.quantum import circuits as oqc
from orquestra.quantum.api.wavefunction_simulator import BaseWavefunctionSimulator
from orquestra.quantum.circuits import (Circuit, CustomGateDefinition, GateOperation, MultiPhaseOperation,
                                        split_circuit)
from orquestra.quantum.runners.symbolic_simulator import SymbolicSimulator

H = Harness("C01", ["OQ.Base.Ring", "OQ.Base.Mat", "OQ.Base.CaseEq", "OQ.Circ.Lift", "OQ.Circ.Circuit", "OQ.Circ.CircuitCases"],
            "kinds: lift (op.lifted_matrix(n) on the numpy path and, for gates with a free symbol, the sympy path, against "
            "the code mirror lift_impl and the specification lift_spec; gate = dyadic built-in, controlled/dagger/integer "
            "power wrapper, or custom gate of arity 1-3 with random Gaussian-dyadic entries; ordered tuples of distinct "
            "indices drawn uniformly, idle qubits anywhere), lift-invalid (repeated index, index outside the register, no "
            "index: the call must raise exactly when the model says so), unitary / unitary-sym / unitary-empty "
            "(Circuit.to_unitary, widths 1-5, 0-12 operations), unitary-nongate (must raise), run (every intermediate state of "
            "op.apply, MultiPhaseOperation with angles k*pi/2 interleaved; states snapped to the dyadic grid, tolerance "
            "1e-9, kinds ending in +snap had at least one snapped amplitude), sim (SymbolicSimulator and a "
            "BaseWavefunctionSimulator subclass with a random native predicate - by kind, qubit parity, arity, position "
            "mask, always, never - whose native method multiplies to_unitary() or applies operations itself; chunks and final "
            "state), concat (c1 + c2, c + op: widths, operations, unitary), unitary-mixed (symbolic and symbol-free "
            "gates: known finding F24); a case whose implementation output is not entry-for-entry the rational recomputation "
            "but within 1e-9 of it (float rounding / evalf residues) is compared by tolerance only and labelled ~tol; non-trivial = at least one operation on a register with an idle qubit or a "
            "non-ascending / non-adjacent index tuple or at least two operations")

BUILTIN = ["X", "Y", "Z", "I", "S", "SX", "CNOT", "CZ", "SWAP", "ISWAP"]
THETA = sympy.Symbol("theta")
BUDGET = 44          # bits of numerator growth allowed per circuit (doubles carry 53)

# ----------------------------------------------------------------------------- exact numbers

def ex(z):
    """number (python, numpy, sympy) -> (Fraction re, Fraction im), exactly"""
    if isinstance(z, sympy.Basic):
        z = sympy.expand(z)
        re, im = z.as_real_imag()
        out = []
        for p in (re, im):
            if p.is_Rational:
                out.append(Fraction(int(p.p), int(p.q)))
            else:
                out.append(Fraction(float(p)))
        return tuple(out)
    z = complex(z)
    return (Fraction(z.real), Fraction(z.imag))

def cg(z):
    re, im = z
    if re == 0 and im == 0:
        return "gz"
    den = re.denominator * im.denominator // math.gcd(re.denominator, im.denominator)
    a, b = int(re * den), int(im * den)
    return f"(gd {a if a >= 0 else '(' + str(a) + ')'} {b if b >= 0 else '(' + str(b) + ')'} {den})"

def cmat(M):
    return clist(M, lambda row: clist(row, cg))

def csmat(M):
    return clist(M, lambda row: clist([(j, v) for j, v in enumerate(row) if v != (0, 0)], lambda jv: cpair(cnat(jv[0]), cg(jv[1]))))

def cvec(v):
    return clist(v, cg)

def exmat(M):
    """2-D numpy array / sympy matrix -> list of rows of exact pairs"""
    if isinstance(M, sympy.MatrixBase):
        r, c = M.shape
        return [[ex(M[i, j]) for j in range(c)] for i in range(r)]
    M = np.asarray(M)
    return [[ex(M[i, j]) for j in range(M.shape[1])] for i in range(M.shape[0])]

def exvec(v):
    if isinstance(v, sympy.MatrixBase):
        return [ex(x) for x in list(v)]
    return [ex(x) for x in np.asarray(v).reshape(-1)]

def fl(M):
    """exact rows -> complex numpy array (for the float oracle)"""
    return np.array([[complex(float(a), float(b)) for a, b in row] for row in M], dtype=complex)

def flv(v):
    return np.array([complex(float(a), float(b)) for a, b in v], dtype=complex)

def snap_vec(v, E):
    """snap every amplitude to the grid 2^-E (tolerance 1e-9); returns exact pairs, number snapped, ok"""
    out, cnt, ok = [], 0, True
    s = 2 ** E
    for z in np.asarray(v).reshape(-1):
        z = complex(z)
        parts = []
        for p in (z.real, z.imag):
            q = Fraction(round(p * s), s)
            if abs(float(q) - p) > 1e-9:
                ok = False
            if Fraction(p) != q:
                cnt += 1
            parts.append(q)
        out.append(tuple(parts))
    return out, cnt, ok

# ----------------------------------------------------------------------------- gates

def tri(z):
    re, im = z
    den = re.denominator * im.denominator // math.gcd(re.denominator, im.denominator)
    return [int(re * den), int(im * den), den]

def mk_gate(spec):
    g = spec["g"]
    if g in BUILTIN:
        return getattr(oqc, g)
    if g == "ctrl":
        return mk_gate(spec["of"]).controlled(spec["k"])
    if g == "dagger":
        return mk_gate(spec["of"]).dagger
    if g == "pow":
        return mk_gate(spec["of"]).power(spec["e"])
    if g == "custom":
        m = sympy.Matrix([[sympy.Rational(a, d) + sympy.I * sympy.Rational(b, d) for a, b, d in row] for row in spec["m"]])
        name = "cg" + hashlib.sha1(json.dumps(spec["m"]).encode()).hexdigest()[:8]
        if spec.get("sym"):
            return CustomGateDefinition(name + "s", m, (THETA,))(THETA)
        return CustomGateDefinition(name, m, ())()
    raise ValueError(g)

def gate_matrix(gate):
    st, m = outcome(lambda: gate.matrix, timeout=10)
    if st != "ok":
        raise RuntimeError(f"gate.matrix failed: {m}")
    return exmat(m)

def gate_cost(M):
    """bits of numerator growth: log2 of the common denominator for unitary matrices, plus row-sum bits otherwise"""
    den = 1
    for row in M:
        for re, im in row:
            den = max(den, re.denominator, im.denominator)
    e = den.bit_length() - 1
    d = len(M)
    unitary = all(sum((M[i][k][0] * M[j][k][0] + M[i][k][1] * M[j][k][1]) for k in range(d)) == (1 if i == j else 0) and
                  sum((M[i][k][1] * M[j][k][0] - M[i][k][0] * M[j][k][1]) for k in range(d)) == 0
                  for i in range(d) for j in range(d))
    if unitary:
        return e, True
    rs = max(sum(abs(re * den) + abs(im * den) for re, im in row) for row in M)
    return e + max(1, math.ceil(math.log2(max(rs, 1)))), False

def kron_ex(A, B):
    mul = lambda x, y: (x[0] * y[0] - x[1] * y[1], x[0] * y[1] + x[1] * y[0])
    return [[mul(A[i][j], B[k][l]) for j in range(len(A)) for l in range(len(B))] for i in range(len(A)) for k in range(len(B))]

def matmul_ex(A, B):
    d = len(A)
    out = []
    for i in range(d):
        row = []
        for j in range(d):
            re = sum(A[i][k][0] * B[k][j][0] - A[i][k][1] * B[k][j][1] for k in range(d))
            im = sum(A[i][k][0] * B[k][j][1] + A[i][k][1] * B[k][j][0] for k in range(d))
            row.append((re, im))
        out.append(row)
    return out

F = Fraction
SXM = [[(F(1, 2), F(1, 2)), (F(1, 2), F(-1, 2))], [(F(1, 2), F(-1, 2)), (F(1, 2), F(1, 2))]]
SXD = [[(F(1, 2), F(-1, 2)), (F(1, 2), F(1, 2))], [(F(1, 2), F(1, 2)), (F(1, 2), F(-1, 2))]]
ID2 = [[(F(1), F(0)), (F(0), F(0))], [(F(0), F(0)), (F(1), F(0))]]
IPOW = [(F(1), F(0)), (F(0), F(1)), (F(-1), F(0)), (F(0), F(-1))]

def rand_unitary(rng, k):
    """phase permutation, optionally times a tensor of SX / SX^dagger / identity factors"""
    d = 2 ** k
    perm = list(range(d))
    rng.shuffle(perm)
    P = [[IPOW[rng.randint(0, 3)] if perm[i] == j else (F(0), F(0)) for j in range(d)] for i in range(d)]
    if rng.random() < 0.5:
        T = None
        for _ in range(k):
            f = rng.choice([SXM, SXD, ID2, SXM])
            T = f if T is None else kron_ex(T, f)
        P = matmul_ex(P, T)
    return P

def rand_arbitrary(rng, k):
    d = 2 ** k
    den = rng.choice([1, 1, 2, 4])
    return [[(F(rng.randint(-3, 3), den), F(rng.randint(-3, 3), den)) for _ in range(d)] for _ in range(d)]

def rand_gate(rng, n, unitary_only, allow_sym, max_arity=3, numeric_only=False):
    """a gate spec of arity <= min(n, 4)"""
    for _ in range(100):
        r = rng.random()
        if r < 0.4:
            spec = dict(g=rng.choice(BUILTIN))
        elif r < 0.7:
            k = rng.randint(1, min(n, max_arity))
            M = rand_unitary(rng, k) if (unitary_only or rng.random() < 0.4) else rand_arbitrary(rng, k)
            spec = dict(g="custom", m=[[tri(z) for z in row] for row in M])
            if allow_sym and rng.random() < 0.4:
                spec["sym"] = True
        else:
            base = rand_gate(rng, max(1, n - 1), unitary_only, allow_sym, max_arity=2)
            w = rng.choice(["ctrl", "ctrl", "dagger", "pow"])
            if w == "ctrl":
                spec = dict(g="ctrl", k=rng.randint(1, 2), of=base)
            elif w == "dagger":
                spec = dict(g="dagger", of=base)
            else:
                if any_symbolic(base):
                    continue
                spec = dict(g="pow", e=rng.choice([0, 2, 3]), of=base)
        if numeric_only and any_symbolic(spec):
            continue
        gate = mk_gate(spec)
        if gate.num_qubits <= min(n, 4) and numeric_conversion_exact(gate, gate_matrix(gate)):
            return spec
    return dict(g="X")

def any_symbolic(spec):
    return bool(spec.get("sym")) or ("of" in spec and any_symbolic(spec["of"]))

def rand_ops(rng, n, count, unitary_only, symbolic=None, phases=False, budget=BUDGET):
    """list of op specs; symbolic: None = numeric gates only, True = every gate carries the free symbol"""
    ops, spent = [], 0
    for _ in range(count):
        if phases and rng.random() < 0.25:
            ops.append(dict(t="phase", ks=[rng.randint(0, 3) for _ in range(2 ** n)]))
            continue
        if symbolic:
            k = rng.randint(1, min(n, 2))
            M = rand_unitary(rng, k) if rng.random() < 0.6 else rand_arbitrary(rng, k)
            spec = dict(g="custom", m=[[tri(z) for z in row] for row in M], sym=True)
            if rng.random() < 0.3 and k + 1 <= n:
                spec = dict(g="ctrl", k=1, of=spec)
        else:
            spec = rand_gate(rng, n, unitary_only, allow_sym=False, numeric_only=True)
        gate = mk_gate(spec)
        c, _ = gate_cost(gate_matrix(gate))
        if spent + c > budget:
            break
        spent += c
        ops.append(dict(t="gate", gate=spec, qs=rng.sample(range(n), gate.num_qubits)))
    return ops

def rand_state(rng, n):
    d = 2 ** n
    r = rng.random()
    if r < 0.3:
        k = rng.randrange(d)
        return [[1 if i == k else 0, 0, 1] for i in range(d)]
    if r < 0.5 or d < 4:
        a, b = rng.sample(range(d), 2)
        v = [[0, 0, 1] for _ in range(d)]
        v[a] = [rng.choice([1, -1]), rng.choice([1, -1]), 2]
        v[b] = [rng.choice([1, -1]), rng.choice([1, -1]), 2]
        return v
    c = 16 if (d >= 16 and rng.random() < 0.4) else 4
    pos = rng.sample(range(d), c)
    v = [[0, 0, 1] for _ in range(d)]
    for p in pos:
        z = IPOW[rng.randint(0, 3)]
        v[p] = [int(z[0]), int(z[1]), 2 if c == 4 else 4]
    return v

def pick_n(rng, tier, heavy=False):
    if tier == "thorough":
        return rng.choices([1, 2, 3, 4, 5, 6], [1, 3, 4, 4, 2, 0.15 if heavy else 0.4])[0]
    return rng.choices([1, 2, 3, 4, 5], [1, 3, 4, 3.5, 1.2 if heavy else 1.8])[0]

# ----------------------------------------------------------------------------- generator

def gen(rng, tier):
    total = 720 if tier == "quick" else (80 if tier == "search" else 9000)
    # fixed block, every tier and seed: gates whose index tuple spans 7 or 8 qubits (the permutation inside
    # _lift_matrix then acts on 2**7 / 2**8 basis states and is not an involution) - seeded change C01-6.
    # The whole matrix is checked by the oracle; inside Coq ten columns are compared with the specification.
    wide = [(7, dict(g="CNOT"), [6, 0]), (7, dict(g="ctrl", k=1, of=dict(g="ISWAP")), [6, 2, 0])]
    if tier == "thorough":
        wide += [(7, dict(g="CNOT"), [0, 6]), (7, dict(g="ctrl", k=2, of=dict(g="Y")), [1, 6, 0]), (8, dict(g="ISWAP"), [7, 0]),
                 (8, dict(g="ctrl", k=1, of=dict(g="SWAP")), [0, 7, 3]), (8, dict(g="CNOT"), [1, 7])]
    for n, spec, qs in wide:
        yield dict(kind="lift-cols", n=n, gate=spec, qs=qs, cols=sorted(rng.sample(range(2 ** n), 10)))
    for _ in range(total):
        r = rng.random()
        if r < 0.30:
            n = pick_n(rng, tier)
            want = rng.choices([1, 2, 3, 4], [2, 3, 3, 1.5])[0]
            for _ in range(12):          # bias towards the wanted arity; anything that fits is fine in the end
                spec = rand_gate(rng, n, unitary_only=False, allow_sym=(n <= 4))
                k = mk_gate(spec).num_qubits
                if k == min(want, n):
                    break
            if want == 4 and n >= 4 and k != 4:      # arity 4 only arises from controlled forms: build one directly
                a = rng.choice([2, 3])
                if a == 2 and rng.random() < 0.5:
                    base = dict(g=rng.choice(["CNOT", "CZ", "SWAP", "ISWAP"]))
                else:
                    M = rand_unitary(rng, a) if rng.random() < 0.5 else rand_arbitrary(rng, a)
                    base = dict(g="custom", m=[[tri(z) for z in row] for row in M])
                    if n <= 4 and rng.random() < 0.3:
                        base["sym"] = True
                spec = dict(g="ctrl", k=4 - a, of=base)
                if rng.random() < 0.3:
                    spec = dict(g="dagger", of=spec)
                k = 4
            yield dict(kind="lift", n=n, gate=spec, qs=rng.sample(range(n), k))
        elif r < 0.36:
            n = rng.randint(1, 4)
            spec = rand_gate(rng, n, unitary_only=False, allow_sym=True, max_arity=2)
            k = mk_gate(spec).num_qubits
            how = rng.choice(["dup", "range", "range", "empty"]) if k >= 2 else rng.choice(["range", "empty"])
            if how == "dup":
                qs = rng.sample(range(n), k)
                i, j = rng.sample(range(k), 2)
                qs[i] = qs[j]
            elif how == "range":
                qs = rng.sample(range(n + 2), k)
                if rng.random() < 0.8:
                    qs[rng.randrange(k)] = n + rng.randint(0, 2)
            else:
                qs = []
            yield dict(kind="lift-invalid", n=n, gate=spec, qs=qs)
        elif r < 0.56:
            n = pick_n(rng, tier, heavy=True)
            rr = rng.random()
            if rr < 0.06:
                yield dict(kind="unitary", n=rng.choice([0, 0, 1, 2, 3]), ops=[], explicit=rng.random() < 0.7)
            elif rr < 0.2:
                n = min(n, 3)
                yield dict(kind="unitary", n=n, ops=rand_ops(rng, n, rng.randint(1, 4), False, symbolic=True, budget=20),
                           explicit=rng.random() < 0.7)
            elif rr < 0.26:
                n = min(n, 3)
                ops = rand_ops(rng, n, rng.randint(1, 5), True, phases=True)
                if not any(o["t"] == "phase" for o in ops):
                    ops.insert(rng.randint(0, len(ops)), dict(t="phase", ks=[rng.randint(0, 3) for _ in range(2 ** n)]))
                yield dict(kind="unitary", n=n, ops=ops, explicit=True)
            elif rr < 0.3:
                n = min(n, 3)
                ops = rand_ops(rng, n, rng.randint(1, 3), False, symbolic=True, budget=20) + rand_ops(rng, n, rng.randint(1, 3), False)
                rng.shuffle(ops)
                yield dict(kind="unitary", n=n, ops=ops, explicit=True)
            else:
                cnt = rng.randint(1, 12 if n <= 4 else 6)
                yield dict(kind="unitary", n=n, ops=rand_ops(rng, n, cnt, rng.random() < 0.6), explicit=rng.random() < 0.7)
        elif r < 0.70:
            n = pick_n(rng, tier, heavy=True)
            cnt = rng.randint(1, 12 if n <= 4 else 6)
            yield dict(kind="run", n=n, ops=rand_ops(rng, n, cnt, True, phases=True, budget=18), init=rand_state(rng, n))
        elif r < 0.90:
            n = pick_n(rng, tier, heavy=True)
            cnt = rng.randint(0, 12 if n <= 4 else 6)
            ops = rand_ops(rng, n, cnt, True, phases=True, budget=18)
            p = rng.choice(["kind", "parity", "arity", "pos", "pos", "always", "never"])
            yield dict(kind="sim", n=n, ops=ops, init=rand_state(rng, n) if rng.random() < 0.7 else None,
                       pred=p, mask=[rng.random() < 0.5 for _ in ops], by_unitary=rng.random() < 0.5)
        else:
            n1, n2 = rng.randint(1, 4), rng.randint(1, 4)
            a = rand_ops(rng, n1, rng.randint(0, 4), rng.random() < 0.5, budget=20)
            e1 = rng.random() < 0.6
            if rng.random() < 0.6:
                b = rand_ops(rng, n2, rng.randint(0, 4), rng.random() < 0.5, budget=20)
                yield dict(kind="concat", n1=n1, ops1=a, e1=e1, n2=n2, ops2=b, e2=rng.random() < 0.6)
            else:
                b = rand_ops(rng, n2, 1, True, budget=20)
                if b:
                    yield dict(kind="append", n1=n1, ops1=a, e1=e1, op=b[0])

# ----------------------------------------------------------------------------- independent reference

def ref_lift(M, qs, n):
    """directly from the property text: M on the bits named by qs (qubit 0 = most significant), identity elsewhere"""
    d, k = 2 ** n, len(qs)
    rest = (d - 1)
    for q in qs:
        rest &= ~(1 << (n - 1 - q))
    out = np.zeros((d, d), dtype=complex)
    sub = lambda i: sum(((i >> (n - 1 - q)) & 1) << (k - 1 - t) for t, q in enumerate(qs))
    subs = [sub(i) for i in range(d)]
    for i in range(d):
        for j in range(d):
            if (i & rest) == (j & rest):
                out[i, j] = M[subs[i], subs[j]]
    return out

def ref_op_matrix(o, n):
    if o["t"] == "phase":
        return np.diag([1j ** k for k in o["ks"]])
    return ref_lift(fl(o["_M"]), o["qs"], n)

def ref_unitary(ops, n):
    U = np.eye(2 ** n, dtype=complex)
    for o in ops:
        U = np.matmul(ref_op_matrix(o, n), U)
    return U

def close(a, b):
    a, b = np.asarray(a, dtype=complex), np.asarray(b, dtype=complex)
    return a.shape == b.shape and bool(np.allclose(a, b, rtol=0, atol=1e-9))

# ----------------------------------------------------------------------------- exactness guard
# The exact comparison inside Coq is emitted only when the implementation's output equals, entry for entry, the
# recomputation below in rational arithmetic (Gaussian integers over a common denominator, Python ints inside
# numpy object arrays).  When it does not but is within 1e-9 of it (float rounding, or the ~1e-125 residues that
# sympy's evalf leaves when _lift_matrix_numpy converts an unexpanded Power matrix to complex), the case is
# compared by tolerance only and its kind is labelled "~tol"; beyond the tolerance it is an oracle failure.

class XM:
    def __init__(self, R, I, D):
        self.R, self.I, self.D = R, I, D

def _lcm(a, b):
    return a * b // math.gcd(a, b)

def x_from(M):
    D = 1
    for row in M:
        for re, im in row:
            D = _lcm(_lcm(D, re.denominator), im.denominator)
    R = np.array([[int(re * D) for re, im in row] for row in M], dtype=object)
    I = np.array([[int(im * D) for re, im in row] for row in M], dtype=object)
    return XM(R, I, D)

def x_vec(v):
    D = 1
    for re, im in v:
        D = _lcm(_lcm(D, re.denominator), im.denominator)
    return XM(np.array([int(re * D) for re, im in v], dtype=object), np.array([int(im * D) for re, im in v], dtype=object), D)

def x_eye(d):
    R = np.zeros((d, d), dtype=object)
    for i in range(d):
        R[i, i] = 1
    return XM(R + 0, np.zeros((d, d), dtype=object) + 0, 1)

def x_lift(x, qs, n):
    d, k = 2 ** n, len(qs)
    rest = d - 1
    for q in qs:
        rest &= ~(1 << (n - 1 - q))
    subs = [sum(((i >> (n - 1 - q)) & 1) << (k - 1 - t) for t, q in enumerate(qs)) for i in range(d)]
    R, I = np.zeros((d, d), dtype=object) + 0, np.zeros((d, d), dtype=object) + 0
    for i in range(d):
        for j in range(d):
            if (i & rest) == (j & rest):
                R[i, j], I[i, j] = x.R[subs[i], subs[j]], x.I[subs[i], subs[j]]
    return XM(R, I, x.D)

def x_mul(a, b):
    """a @ b; b may be a vector"""
    return XM(np.matmul(a.R, b.R) - np.matmul(a.I, b.I), np.matmul(a.R, b.I) + np.matmul(a.I, b.R), a.D * b.D)

def x_op(o, n):
    if o["t"] == "phase":
        d = len(o["ks"])
        R, I = np.zeros((d, d), dtype=object) + 0, np.zeros((d, d), dtype=object) + 0
        for i, k in enumerate(o["ks"]):
            R[i, i], I[i, i] = int(IPOW[k][0]), int(IPOW[k][1])
        return XM(R, I, 1)
    return x_lift(x_from(o["_M"]), o["qs"], n)

def x_unitary(ops, n):
    U = x_eye(2 ** n)
    for o in ops:
        U = x_mul(x_op(o, n), U)
    return U

def x_same_mat(O, x):
    d = len(O)
    return x.R.shape == (d, d) and all(len(row) == d for row in O) and all(
        O[i][j][0] * x.D == x.R[i, j] and O[i][j][1] * x.D == x.I[i, j] for i in range(d) for j in range(d))

def x_same_vec(v, x):
    return len(v) == len(x.R) and all(v[i][0] * x.D == x.R[i] and v[i][1] * x.D == x.I[i] for i in range(len(v)))

def finish(res, exact):
    if not exact and res["oracle_ok"]:
        res["chk"] = None
        res["kind"] += "~tol"
    return res

def numeric_conversion_exact(gate, M):
    """does np.array(gate.matrix, dtype=complex) (what _lift_matrix_numpy does first) reproduce the exact entries?"""
    if gate.free_symbols:
        return True
    st, a = outcome(lambda: np.array(gate.matrix, dtype=complex), timeout=10)
    return st == "ok" and exmat(a) == M

# ----------------------------------------------------------------------------- building implementation objects

def build_ops(ops):
    """op specs -> implementation operations; records each gate's exact matrix in the spec (key _M)"""
    out = []
    for o in ops:
        if o["t"] == "phase":
            out.append(MultiPhaseOperation(tuple(k * math.pi / 2 for k in o["ks"])))
        else:
            gate = mk_gate(o["gate"])
            o["_M"] = gate_matrix(gate)
            out.append(GateOperation(gate, tuple(o["qs"])))
    return out

def c_gate(o):
    return f"(G {cmat(o['_M'])} {clist(o['qs'], cnat)})"

def c_op(o):
    if o["t"] == "phase":
        return f"(OPhase (vec {cvec([IPOW[k] for k in o['ks']])}))"
    return f"(OGate {c_gate(o)})"

def exp_bits(ops, init=None):
    e = 0
    for o in ops:
        if o["t"] == "gate":
            e += max(max(re.denominator, im.denominator) for row in o["_M"] for re, im in row).bit_length() - 1
    if init is not None:
        e += max(x[2] for x in init).bit_length() - 1
    return e

def shape_nontrivial(ops, n):
    gs = [o for o in ops if o["t"] == "gate"]
    if len(ops) >= 2:
        return True
    for o in gs:
        qs = o["qs"]
        if len(qs) < n or qs != sorted(qs):
            return True
    return False

def init_vec(init, n):
    if init is None:
        return None
    return np.array([complex(a, b) / d for a, b, d in init], dtype=complex)

class PredSim(BaseWavefunctionSimulator):
    """a simulator built on the base class: arbitrary native predicate, its own native method"""

    def __init__(self, pred, mask, by_unitary):
        super().__init__()
        self.pred, self.mask, self.by_unitary = pred, mask, by_unitary
        self.keys, self.native_calls = [], []

    def is_natively_supported(self, operation):
        pos = len(self.keys)
        p = self.pred
        if p == "kind":
            k = isinstance(operation, GateOperation)
        elif p == "parity":
            k = operation.qubit_indices[0] % 2 == 0 and isinstance(operation, GateOperation)
        elif p == "arity":
            k = isinstance(operation, GateOperation) and len(operation.qubit_indices) <= 1
        elif p == "pos":
            k = bool(self.mask[pos])
        elif p == "always":
            k = True
        else:
            k = False
        self.keys.append(k)
        return k

    def _get_wavefunction_from_native_circuit(self, circuit, initial_state):
        self.native_calls.append(len(circuit.operations))
        if self.by_unitary and all(isinstance(o, GateOperation) for o in circuit.operations):
            return circuit.to_unitary() @ np.asarray(initial_state)
        state = initial_state
        for o in circuit.operations:
            state = o.apply(state)
        return state

# ----------------------------------------------------------------------------- cases

def run_case(inp0):
    inp = copy.deepcopy(inp0)      # gate matrices are cached inside the op specs: never touch the recorded input
    kind = inp["kind"]
    if kind in ("lift", "lift-invalid"):
        n, qs = inp["n"], inp["qs"]
        gate = mk_gate(inp["gate"])
        M = gate_matrix(gate)
        symb = bool(gate.free_symbols)
        op = GateOperation(gate, tuple(qs))
        st, out = outcome(lambda: op.lifted_matrix(n), timeout=60)
        g = f"(G {cmat(M)} {clist(qs, cnat)})"
        valid = len(qs) > 0 and len(set(qs)) == len(qs) and all(q < n for q in qs)
        label = kind + ("-sympy" if symb else "-numpy")
        if st != "ok":
            ok = not valid
            return dict(chk=f"Bool.eqb (lift_raises {g} {cnat(n)}) true", oracle_ok=ok,
                        oracle_msg="" if ok else f"lifted_matrix({n}) of {inp['gate']} on {qs} raised {out}",
                        kind=label + "-raised", nontrivial=True)
        if symb != isinstance(out, sympy.MatrixBase):
            return dict(chk="false", oracle_ok=False, oracle_msg=f"unexpected result type {type(out).__name__}", kind=label)
        O = exmat(out)
        ok = valid and close(fl(O), ref_lift(fl(M), qs, n))
        msg = "" if ok else f"lifted_matrix({n}) of gate {inp['gate']} on qubits {qs} is not the gate on those qubits and identity elsewhere" + ("" if valid else " (invalid index tuple accepted)")
        chk = f"negb (lift_raises {g} {cnat(n)}) && lift_eqb {g} {cnat(n)} {csmat(O)}"
        exact = valid and x_same_mat(O, x_lift(x_from(M), qs, n))
        return finish(dict(chk=chk, oracle_ok=ok, oracle_msg=msg, kind=label + f"-k{len(qs)}",
                           nontrivial=len(qs) < n or qs != sorted(qs)), exact)
    if kind == "lift-cols":
        n, qs, cols = inp["n"], inp["qs"], inp["cols"]
        gate = mk_gate(inp["gate"])
        M = gate_matrix(gate)
        op = GateOperation(gate, tuple(qs))
        st, out = outcome(lambda: op.lifted_matrix(n), timeout=120)
        if st != "ok":
            return dict(chk="false", oracle_ok=False, oracle_msg=f"lifted_matrix({n}) of {inp['gate']} on {qs} raised {out}", kind=kind)
        O = exmat(out)
        ok = len(O) == 2 ** n and close(fl(O), ref_lift(fl(M), qs, n))
        msg = "" if ok else f"lifted_matrix({n}) of gate {inp['gate']} on qubits {qs} is not the gate on those qubits and identity elsewhere"
        g = f"(G {cmat(M)} {clist(qs, cnat)})"
        colsl = clist(cols, lambda j: f"({cnat(j)}, {cvec([row[j] for row in O])})")
        # the tuple is valid by construction: the model accepts it (Props/C01.v, lift_accepts_valid_tuples); evaluating
        # lift_raises would build the mirror's permutation matrices, which is what is too slow at this width
        chk = f"lift_cols_eqb {g} {cnat(n)} {colsl}"
        exact = ok and x_same_mat(O, x_lift(x_from(M), qs, n))
        return finish(dict(chk=chk, oracle_ok=ok, oracle_msg=msg, kind=f"lift-wide-n{n}-k{len(qs)}", nontrivial=True), exact)
    if kind == "unitary":
        n, ops = inp["n"], inp["ops"]
        impl = build_ops(ops)
        st, c = outcome(lambda: Circuit(impl, n_qubits=n) if inp["explicit"] else Circuit(impl))
        if st != "ok":
            return dict(chk="false", oracle_ok=False, oracle_msg=f"Circuit(...) raised {c}", kind=kind)
        w = c.n_qubits
        gs = [o for o in ops if o["t"] == "gate"]
        has_phase = len(gs) != len(ops)
        syms = [any_symbolic(o["gate"]) for o in gs]
        mixed = any(syms) and not all(syms)
        label = "unitary-empty" if not ops else ("unitary-nongate" if has_phase else ("unitary-mixed" if mixed else ("unitary-sym" if any(syms) else "unitary")))
        wexp = (n if (inp["explicit"] and n > 0) else (max(q for o in gs for q in o["qs"]) + 1 if gs else 0))
        if has_phase and not inp["explicit"]:
            wexp = max(wexp, n)
        st, U = outcome(lambda: c.to_unitary(), timeout=120)
        opsl = clist(ops, c_op)
        if has_phase:
            ok = st == "err" and U == "ValueError"
            return dict(chk=f"Bool.eqb (unitary_raises {cnat(w)} {opsl}) {cbool(st != 'ok')}", oracle_ok=ok,
                        oracle_msg="" if ok else f"to_unitary of a circuit with a non-gate operation: {st} {U if st != 'ok' else ''}",
                        kind=label, nontrivial=True)
        if st != "ok":
            return dict(chk=None, oracle_ok=False, sig="F24" if mixed else None,
                        oracle_msg=f"to_unitary raised {U} on a circuit of {len(ops)} gate operations, width {w}" + (" (symbolic and symbol-free gates mixed)" if mixed else ""),
                        kind=label, nontrivial=True)
        O = exmat(U)
        ok = w == wexp and len(O) == 2 ** w and close(fl(O), ref_unitary(ops, w))
        msg = "" if ok else f"to_unitary of {[(o['gate'], o['qs']) for o in gs]} on {w} qubits (expected width {wexp}) is not the product of the lifted gates in program order"
        nopt = f"(Some {cnat(n)})" if inp["explicit"] else "None"
        chk = f"Nat.eqb {cnat(w)} {cnat(wexp)} && unitary_eqb {clist(gs, c_gate)} {nopt} {cnat(w)} {csmat(O)}"
        exact = len(O) == 2 ** w and x_same_mat(O, x_unitary(ops, w))
        return finish(dict(chk=chk, oracle_ok=ok, oracle_msg=msg, kind=label + (f"-n{w}" if label == "unitary" else ""),
                           nontrivial=shape_nontrivial(ops, w)), exact)
    if kind == "run":
        n, ops = inp["n"], inp["ops"]
        impl = build_ops(ops)
        E = exp_bits(ops, inp["init"])
        v = init_vec(inp["init"], n)
        states, snaps, ok, msg = [], 0, True, ""
        ref = v.copy()
        xv, exact = x_vec([ex(complex(a, b) / d) for a, b, d in inp["init"]]), True
        for k, (o, io) in enumerate(zip(ops, impl)):
            st, v2 = outcome(lambda: io.apply(v), timeout=60)
            if st != "ok":
                return dict(chk="false", oracle_ok=False, oracle_msg=f"apply of operation {k} raised {v2}", kind=kind)
            sv, cnt, sok = snap_vec(v2, E)
            snaps += cnt
            ref = np.matmul(ref_op_matrix(o, n), ref)
            if ok and not (sok and close(v2, ref)):
                ok, msg = False, f"after operation {k} ({o.get('gate', 'phase')} on {o.get('qs')}) the state is not the lifted matrix applied to the previous state"
            xv = x_mul(x_op(o, n), xv)
            exact = exact and x_same_vec(sv, xv)
            states.append(sv)
            v = v2
        has_phase = any(o["t"] == "phase" for o in ops)
        chk = f"steps_eqb {cnat(n)} {clist(ops, c_op)} {cvec([ex(complex(a, b) / d) for a, b, d in inp['init']])} {clist(states, cvec)}"
        return finish(dict(chk=chk, oracle_ok=ok, oracle_msg=msg, kind="run" + ("-phase" if has_phase else "") + ("+snap" if snaps else ""),
                           nontrivial=shape_nontrivial(ops, n)), exact)
    if kind == "sim":
        n, ops = inp["n"], inp["ops"]
        impl = build_ops(ops)
        E = exp_bits(ops, inp["init"])
        c = Circuit(impl, n_qubits=n)
        v0 = init_vec(inp["init"], n)
        d = 2 ** n
        ref = v0.copy() if v0 is not None else np.eye(d, dtype=complex)[:, 0]
        for o in ops:
            ref = np.matmul(ref_op_matrix(o, n), ref)
        # bundled simulator
        st, wf = outcome(lambda: SymbolicSimulator().get_wavefunction(c, None if v0 is None else v0.copy()), timeout=120)
        if st != "ok":
            return dict(chk="false", oracle_ok=False, oracle_msg=f"SymbolicSimulator.get_wavefunction raised {wf}", kind=kind)
        s1, cnt1, ok1 = snap_vec(wf.amplitudes, E)
        ok = ok1 and close(wf.amplitudes, ref)
        msg = "" if ok else "SymbolicSimulator's final state is not the circuit's matrix applied to the initial state"
        # simulator built on the base class
        sim = PredSim(inp["pred"], inp["mask"], inp["by_unitary"])
        st, wf2 = outcome(lambda: sim.get_wavefunction(c, None if v0 is None else v0.copy()), timeout=120)
        if st != "ok":
            return dict(chk="false", oracle_ok=False, oracle_msg=f"base-class simulator raised {wf2} (predicate {inp['pred']})", kind=kind)
        s2, cnt2, ok2 = snap_vec(wf2.amplitudes, E)
        keys = list(sim.keys)
        probe = PredSim(inp["pred"], inp["mask"], False)
        chunks = [(bool(b), len(sub.operations)) for b, sub in split_circuit(c, probe.is_natively_supported)]
        exp_chunks = []
        for kk in keys:
            if exp_chunks and exp_chunks[-1][0] == kk:
                exp_chunks[-1][1] += 1
            else:
                exp_chunks.append([kk, 1])
        if ok and not (ok2 and close(wf2.amplitudes, ref)):
            ok, msg = False, f"base-class simulator with predicate {inp['pred']} {inp['mask'] if inp['pred'] == 'pos' else ''}: final state differs from the circuit's matrix applied to the initial state"
        if ok and (len(keys) != len(ops) or [tuple(x) for x in exp_chunks] != chunks or
                   sim.native_calls != [l for b, l in chunks if b]):
            ok, msg = False, f"chunks {chunks} / native calls {sim.native_calls} do not match the predicate values {keys}"
        initl = cvec([ex(complex(a, b) / dd) for a, b, dd in inp["init"]]) if inp["init"] is not None else f"(zero_vec {cnat(n)})"
        kops = clist(list(zip(keys, ops)), lambda ko: cpair(cbool(ko[0]), c_op(ko[1]))) if len(keys) == len(ops) else "[]"
        chk = (f"symbolic_eqb {cnat(n)} {clist(ops, c_op)} {initl} {cvec(s1)} && "
               f"sim_eqb {cbool(inp['by_unitary'])} {cnat(n)} {kops} {initl} {clist(chunks, lambda bl: cpair(cbool(bl[0]), cnat(bl[1])))} {cvec(s2)}")
        xv = x_vec([ex(complex(a, b) / dd) for a, b, dd in inp["init"]]) if inp["init"] is not None else \
            x_vec([(F(1 if i == 0 else 0), F(0)) for i in range(d)])
        for o in ops:
            xv = x_mul(x_op(o, n), xv)
        exact = x_same_vec(s1, xv) and x_same_vec(s2, xv)
        return finish(dict(chk=chk, oracle_ok=ok, oracle_msg=msg, kind=f"sim-{inp['pred']}" + ("+snap" if cnt1 + cnt2 else ""),
                           nontrivial=len(chunks) >= 2 or shape_nontrivial(ops, n)), exact)
    if kind in ("concat", "append"):
        a = inp["ops1"]
        ia = build_ops(a)
        c1 = Circuit(ia, n_qubits=inp["n1"]) if inp["e1"] else Circuit(ia)
        if kind == "concat":
            b = inp["ops2"]
            ib = build_ops(b)
            c2 = Circuit(ib, n_qubits=inp["n2"]) if inp["e2"] else Circuit(ib)
            st, c = outcome(lambda: c1 + c2)
        else:
            b = [inp["op"]]
            ib = build_ops(b)
            c2 = None
            st, c = outcome(lambda: c1 + ib[0])
        if st != "ok":
            return dict(chk="false", oracle_ok=False, oracle_msg=f"circuit + raised {c}", kind=kind)
        w = c.n_qubits
        st, U = outcome(lambda: c.to_unitary(), timeout=120)
        if st != "ok":
            return dict(chk="false", oracle_ok=False, oracle_msg=f"to_unitary of the sum raised {U}", kind=kind)
        O = exmat(U)
        w2 = c2.n_qubits if c2 is not None else max(b[0]["qs"]) + 1
        ok = (w == max(c1.n_qubits, w2) and len(c.operations) == len(ia) + len(ib) and all(x is y for x, y in zip(c.operations, ia + ib)) and
              close(fl(O), np.matmul(ref_unitary(b, w), ref_unitary(a, w))))
        # composition of the two circuits' own unitaries, each widened with identities on the qubits it does not have
        if ok and c2 is not None and a and b:
            Ua, Ub = c1.to_unitary(), c2.to_unitary()
            wide = lambda Um, wm: np.kron(np.asarray(Um, dtype=complex), np.eye(2 ** (w - wm)))
            ok = close(fl(O), np.matmul(wide(Ub, c2.n_qubits), wide(Ua, c1.n_qubits)))
        msg = "" if ok else f"sum of circuits of widths {c1.n_qubits} and {w2}: width {w}, {len(c.operations)} operations; unitary is not the composition"
        o1 = f"(Some {cnat(inp['n1'])})" if inp["e1"] else "None"
        if kind == "concat":
            o2 = f"(Some {cnat(inp['n2'])})" if inp["e2"] else "None"
            chk = (f"cadd_eqb {clist(a, c_gate)} {o1} {clist(b, c_gate)} {o2} {cnat(c1.n_qubits)} {cnat(c2.n_qubits)} "
                   f"{cnat(w)} {csmat(O)}")
        else:
            chk = f"cappend_eqb {clist(a, c_gate)} {o1} {c_gate(b[0])} {cnat(c1.n_qubits)} {cnat(w)} {csmat(O)}"
        exact = len(O) == 2 ** w and x_same_mat(O, x_unitary(a + b, w))
        return finish(dict(chk=chk, oracle_ok=ok, oracle_msg=msg, kind=kind, nontrivial=len(a) + len(b) >= 2 or w > w2 or w > c1.n_qubits), exact)
    raise ValueError(kind)

# ----------------------------------------------------------------------------- witnesses of recorded findings

def w_f23():
    try:
        u0 = Circuit().to_unitary()
        u2 = Circuit(n_qubits=2).to_unitary()
        bad = not (np.asarray(u0).shape == (1, 1) and close(u2, np.eye(4)))
        return bad, f"Circuit().to_unitary() -> shape {np.asarray(u0).shape}; Circuit(n_qubits=2).to_unitary() -> identity: {close(u2, np.eye(4))}"
    except Exception as e:
        return True, f"Circuit().to_unitary() raised {type(e).__name__}: {e}"

def w_f24():
    try:
        Circuit([oqc.RX(THETA)(2), oqc.CNOT(2, 0)]).to_unitary()
        return False, "Circuit([RX(theta)(2), CNOT(2,0)]).to_unitary() returned a matrix"
    except Exception as e:
        return True, f"Circuit([RX(theta)(2), CNOT(2,0)]).to_unitary() raised {type(e).__name__}: {str(e)[:120]}"

H.main(gen, run_case, {"F23": w_f23, "F24": w_f24})
