"""C16 correspondence harness: time-evolution circuits and their derivative circuits."""
import math
import numpy as np, scipy.linalg, sympy
from hlib import *
from orquestra.quantum.circuits import Circuit
from orquestra.quantum.circuits._gates import Dagger, MatrixFactoryGate
from orquestra.quantum.evolution import time_evolution, time_evolution_for_term, time_evolution_derivatives
from orquestra.quantum.operators import PauliTerm, PauliSum

Hn = Harness("C16", ["OQ.Base.CaseEq", "OQ.Pauli.Algebra", "OQ.Pauli.Evolution", "OQ.Pauli.EvolutionCases"],
             "term cases: random Pauli terms on <= 4 acted qubits with gaps (indices up to 6), dyadic real coefficients, "
             "constants, small and large imaginary parts of either sign, dyadic times; evolution cases: sums of 1-4 terms, "
             "1-4 steps, regularly with constant terms c*I (first/middle/last position); derivative cases: same with 1-3 steps, "
             "constants included (the code's factors +c/N, -c/N), tiny imaginary parts (warning branch), and a separate stream "
             "with a zero real coefficient (ZeroDivisionError expected) or a rejected imaginary part (ValueError expected); compared: the operation list (gate kind, qubits, RZ angle as an "
             "exact rational, shifted angles as rational + k*pi/2) against the model; oracle: scipy expm for terms, ordered "
             "product for sums, central finite differences for the derivative circuits with random observable and state; "
             "non-trivial = at least two acted qubits or two terms",
             preamble="Require Import Coq.QArith.QArith Coq.ZArith.ZArith.\n")

LET = {"X": "PX", "Y": "PY", "Z": "PZ"}

def cops(ops):
    return clist(sorted(ops.items()), lambda kv: cpair(cnat(kv[0]), LET[kv[1]]))

def mk_term(spec):
    return PauliTerm({int(k): v for k, v in spec["ops"].items()}, complex(Fraction(*spec["re"]), Fraction(*spec["im"])))

def cterm(spec):
    return cpair(cpair(cq(Fraction(*spec["re"])), cq(Fraction(*spec["im"]))), cops({int(k): v for k, v in spec["ops"].items()}))

def decode_angle(x, denom_bound):
    """x = a + k*pi/2 with a rational of small denominator and k in {0, 1, -1}"""
    for k in (0, 1, -1):
        y = x - k * math.pi / 2
        fr = Fraction(y).limit_denominator(denom_bound)
        if abs(float(fr) - y) < 1e-9:
            return fr, k
    return Fraction(x), 0

def near(x, denom_bound):
    """floats such as 2*(t/3)*c are not exact: read them as the nearby rational of small denominator (within 1e-9)"""
    fr = Fraction(x).limit_denominator(denom_bound)
    return fr if abs(float(fr) - x) < 1e-9 else Fraction(x)

def dump(circuit, shifted, denom_bound=192):
    out = []
    for op in circuit.operations:
        g, qs = op.gate, clist(op.qubit_indices, cnat)
        if isinstance(g, Dagger) and isinstance(g.wrapped_gate, MatrixFactoryGate) and g.wrapped_gate.name == "RX" \
                and g.wrapped_gate.params == (math.pi / 2,):
            out.append(f"(ERXhd, {qs})")
        elif isinstance(g, MatrixFactoryGate) and g.name == "H":
            out.append(f"(EH, {qs})")
        elif isinstance(g, MatrixFactoryGate) and g.name == "CNOT":
            out.append(f"(ECNOT, {qs})")
        elif isinstance(g, MatrixFactoryGate) and g.name == "RX" and g.params == (math.pi / 2,):
            out.append(f"(ERXh, {qs})")
        elif isinstance(g, MatrixFactoryGate) and g.name == "RZ":
            a = float(g.params[0])
            if shifted:
                fr, k = decode_angle(a, denom_bound)
                out.append(f"(ERZ ({cq(fr)}, {cz(k)}), {qs})")
            else:
                out.append(f"(ERZ {cq(near(a, denom_bound))}, {qs})")
        else:
            out.append(f"(ERZ {'(0#1, 99%Z)' if shifted else '(12345#1)'}, {qs})")   # unexpected gate: forces a mismatch
    return "[" + "; ".join(out) + "]"

PM = {"I": np.eye(2), "X": np.array([[0, 1], [1, 0]]), "Y": np.array([[0, -1j], [1j, 0]]), "Z": np.diag([1, -1])}
def pauli_matrix(ops, n):
    m = np.eye(1)
    for q in range(n):
        m = np.kron(m, PM[ops.get(q, "I")])
    return m
def unitary(c, n):
    cc = Circuit(c.operations, n_qubits=n)
    return np.array(cc.to_unitary(), dtype=complex)

def gen_term(rng, big=False, zero_re=False):
    k = rng.choice([0, 1, 1, 2, 2, 3, 4]) if not big else rng.choice([1, 2, 3])
    pool = range(7 if not big else 4)
    if not big and rng.random() < 0.3:       # wide registers: indices beyond 7, where set iteration order is not ascending
        pool = list(range(0, 4)) + list(range(6, 20)) + [31, 32, 33, 64, 65]
    qs = rng.sample(pool, k)
    ops = {str(q): rng.choice("XYZ") for q in qs}
    re = [rng.randint(-12, 12) or 1, rng.choice([1, 2, 4, 8])]
    r = rng.random()
    im = [0, 1] if r < 0.8 else ([rng.choice([1, -1]), 10 ** 10] if r < 0.87 else [rng.choice([1, -1, 2, -3]), rng.choice([1, 2, 1000])])
    if zero_re and ops and rng.random() < 0.12:      # real part exactly 0: purely imaginary (must be rejected) or zero coefficient
        re = [0, 1]
        im = rng.choice([[1, 1], [-1, 2], [2, 1], [1, 1000], [0, 1], [1, 10 ** 10]])
    return dict(ops=ops, re=re, im=im)

def gen_const(rng):
    return dict(ops={}, re=[rng.choice([-5, -3, -1, 1, 2, 3, 7]), rng.choice([1, 2, 4, 8])], im=[0, 1])

def add_constants(rng, terms):
    """constant terms c*I (c != 0) in first / middle / last position"""
    r = rng.random()
    if r < 0.45:
        return terms
    where = rng.choice(["first", "middle", "last", "first+last"])
    if where in ("first", "first+last"):
        terms.insert(0, gen_const(rng))
    if where == "middle":
        terms.insert(len(terms) // 2 if len(terms) > 1 else rng.randint(0, len(terms)), gen_const(rng))
    if where in ("last", "first+last"):
        terms.append(gen_const(rng))
    return terms

def gen(rng, tier):
    n = 260 if tier == "quick" else 5000
    for _ in range(n):
        r = rng.random()
        t = [rng.randint(-20, 20), rng.choice([1, 2, 4, 8])]
        if r < 0.40:
            yield dict(kind="term", term=gen_term(rng, zero_re=True), t=t)
        elif r < 0.65:
            terms = [gen_term(rng, big=True, zero_re=True) for _ in range(rng.randint(1, 4))]
            if rng.random() < 0.2:
                terms.insert(rng.randint(0, len(terms)), dict(rng.choice(terms)))
            terms = add_constants(rng, terms)
            yield dict(kind="evolution", terms=terms, t=t, steps=rng.randint(1, 4))
        elif r < 0.92:
            terms = [dict(gen_term(rng, big=True), im=[0, 1]) for _ in range(rng.randint(1, 3))]
            if rng.random() < 0.35:      # the same term listed twice (e.g. a symmetric splitting): selected by index, not by value
                terms.insert(rng.randint(0, len(terms)), dict(rng.choice(terms)))
            if rng.random() < 0.15:      # imaginary part below the 1e-9 tolerance: a warning, the real part is used
                k = rng.randrange(len(terms))
                terms[k] = dict(terms[k], im=[rng.choice([1, -1]), 10 ** 10])
            terms = add_constants(rng, terms)
            yield dict(kind="derivative", terms=terms, t=t, steps=rng.randint(1, 3), oseed=rng.randint(0, 10 ** 6))
        else:
            # the call must raise: a zero real coefficient (constant or not; ZeroDivisionError from pi / (4 r)),
            # or a non-constant term whose imaginary part is above the tolerance (ValueError from time_evolution_for_term)
            terms = [dict(gen_term(rng, big=True), im=[0, 1]) for _ in range(rng.randint(1, 3))]
            terms = add_constants(rng, terms)
            k = rng.randrange(len(terms))
            mode = rng.choice(["zero", "zero", "zero-const", "imag", "zero-imag"])
            if mode == "zero":
                nc = [i for i, sp in enumerate(terms) if sp["ops"]]
                k = rng.choice(nc)
                terms[k] = dict(terms[k], re=[0, 1])
            elif mode == "zero-const":
                terms.insert(rng.randint(0, len(terms)), dict(ops={}, re=[0, 1], im=[0, 1]))
            elif mode == "imag":
                nc = [i for i, sp in enumerate(terms) if sp["ops"]]
                k = rng.choice(nc)
                terms[k] = dict(terms[k], im=[rng.choice([1, -1, 2, -3]), rng.choice([1, 2, 1000])])
            else:   # zero real part with a tiny imaginary part: still a division by zero
                nc = [i for i, sp in enumerate(terms) if sp["ops"]]
                k = rng.choice(nc)
                terms[k] = dict(terms[k], re=[0, 1], im=[rng.choice([1, -1]), 10 ** 10])
            yield dict(kind="derivative", terms=terms, t=t, steps=rng.randint(1, 3), oseed=rng.randint(0, 10 ** 6))

def run_case(inp):
    kind = inp["kind"]
    t = Fraction(*inp["t"])
    if kind == "term":
        sp = inp["term"]
        term = mk_term(sp)
        st, out = outcome(time_evolution_for_term, term, float(t))
        coq = "None" if st != "ok" else "(Some " + dump(out, False) + ")"
        chk = f"term_case {cq(Fraction(*sp['re']))} {cq(Fraction(*sp['im']))} {cops({int(k): v for k, v in sp['ops'].items()})} {cq(t)} {coq}"
        ok, msg = True, ""
        im = Fraction(*sp["im"])
        if st != "ok":
            if not (sp["ops"] and abs(im) > Fraction(1, 10 ** 9)):
                ok, msg = False, f"time_evolution_for_term raised {out} for coefficient {term.coefficient}"
        else:
            if sp["ops"] and abs(im) > Fraction(1, 10 ** 9):
                ok, msg = False, f"imaginary coefficient {term.coefficient} silently accepted"
            elif not sp["ops"]:
                if out.operations: ok, msg = False, "constant term gives a non-empty circuit"
            else:
                nq = max(int(k) for k in sp["ops"]) + 1
                pops = {int(k): v for k, v in sp["ops"].items()}
                if nq > 5:          # wide register: relabel the support to 0..k-1 (the circuit must act on the support only)
                    rel = {q: i for i, q in enumerate(sorted(pops))}
                    if all(q in rel for o in out.operations for q in o.qubit_indices) and \
                            all(len(set(o.qubit_indices)) == len(o.qubit_indices) for o in out.operations):
                        out = Circuit([o.gate(*[rel[q] for q in o.qubit_indices]) for o in out.operations])
                        pops = {rel[q]: v for q, v in pops.items()}
                        nq = len(rel)
                    else:
                        ok, msg = False, f"circuit for {term} touches qubits outside the term's support or repeats a qubit in one gate: {[ (o.gate.name, o.qubit_indices) for o in out.operations]}"
                if ok and nq <= 5:
                    U = unitary(out, nq)
                    E = scipy.linalg.expm(-1j * float(t) * float(Fraction(*sp["re"])) * pauli_matrix(pops, nq))
                    if np.abs(U - E).max() > 1e-9:
                        ok, msg = False, f"circuit for {term} at t={float(t)} differs from exp(-i t c P) by {np.abs(U - E).max():.3g}"
        return dict(chk=chk, oracle_ok=ok, oracle_msg=msg, kind="term" + ("-rejected" if st != "ok" else ("-const" if not sp["ops"] else "")),
                    nontrivial=len(sp["ops"]) >= 2)
    terms = [mk_term(sp) for sp in inp["terms"]]
    H = PauliSum(terms)
    steps = inp["steps"]
    cterms = clist(inp["terms"], cterm)
    nq = max([max([int(k) for k in sp["ops"]] + [-1]) for sp in inp["terms"]]) + 1
    if kind == "evolution":
        st, out = outcome(time_evolution, H, float(t), "Trotter", steps)
        coq = "None" if st != "ok" else "(Some " + dump(out, False, 64 * steps) + ")"
        chk = f"evolution_case {cterms} {cq(t)} {cnat(steps)} {coq}"
        ok, msg = True, ""
        bad_im = any(sp["ops"] and abs(Fraction(*sp["im"])) > Fraction(1, 10 ** 9) for sp in inp["terms"])
        if st != "ok":
            if not bad_im: ok, msg = False, f"time_evolution raised {out}"
        elif bad_im:
            ok, msg = False, "a term with a non-negligible imaginary coefficient was accepted"
        elif 1 <= nq <= 4:
            U = unitary(out, nq)
            step = np.eye(2 ** nq, dtype=complex)
            for sp in inp["terms"]:
                if not sp["ops"]:
                    continue      # a constant term gives the empty circuit (its global phase is dropped)
                P = pauli_matrix({int(k): v for k, v in sp["ops"].items()}, nq)
                step = scipy.linalg.expm(-1j * float(t) / steps * float(Fraction(*sp["re"])) * P) @ step
            E = np.linalg.matrix_power(step, steps)
            if np.abs(U - E).max() > 1e-9:
                ok, msg = False, f"evolution circuit differs from the ordered product of term exponentials by {np.abs(U - E).max():.3g}"
        return dict(chk=chk, oracle_ok=ok, oracle_msg=msg, kind="evolution" + ("-rejected" if st != "ok" else ""), nontrivial=len(terms) >= 2)
    if kind == "derivative":
        st, out = outcome(time_evolution_derivatives, H, float(t), "Trotter", steps)
        zero = any(Fraction(*sp["re"]) == 0 for sp in inp["terms"])          # r = c / n_steps = 0: pi / (4 r) raises
        bad_im = any(sp["ops"] and abs(Fraction(*sp["im"])) > Fraction(1, 10 ** 9) for sp in inp["terms"])
        nconst = sum(1 for sp in inp["terms"] if not sp["ops"])
        if st != "ok":
            chk = f"derivative_case {cterms} {cq(t)} {cnat(steps)} None"
            ok, msg = True, ""
            if not (zero or bad_im):
                ok, msg = False, f"time_evolution_derivatives raised {out}"
            elif out not in ("ZeroDivisionError", "ValueError"):
                ok, msg = False, f"time_evolution_derivatives raised {out} (ZeroDivisionError or ValueError expected)"
            elif out == "ZeroDivisionError" and not zero:
                ok, msg = False, "ZeroDivisionError without a zero coefficient"
            elif out == "ValueError" and not bad_im:
                ok, msg = False, "ValueError without a rejected imaginary part"
            return dict(chk=chk, oracle_ok=ok, oracle_msg=msg,
                        kind="derivative-zero-coefficient" if out == "ZeroDivisionError" else "derivative-rejected",
                        nontrivial=len(terms) >= 2 or steps >= 2)
        circuits, factors = out
        entries = [cpair(cq(near(float(f), 64 * steps)), "(Some " + dump(c, True, 64 * steps) + ")") for f, c in zip(factors, circuits)]
        chk = f"derivative_case {cterms} {cq(t)} {cnat(steps)} (Some {clist(entries)})"
        ok, msg = True, ""
        if zero or bad_im:
            ok, msg = False, "a zero coefficient or a rejected imaginary part was accepted by time_evolution_derivatives"
        elif 1 <= nq <= 3 and len(circuits) == len(factors):
            rs = np.random.RandomState(inp["oseed"])
            d = 2 ** nq
            A = rs.randn(d, d) + 1j * rs.randn(d, d); O = A + A.conj().T
            psi = rs.randn(d) + 1j * rs.randn(d); psi /= np.linalg.norm(psi)
            ev = lambda U: float(np.real(np.conj(U @ psi) @ (O @ (U @ psi))))
            lhs = sum(float(f) * ev(unitary(c, nq)) for f, c in zip(factors, circuits))
            eps = 1e-6
            f = lambda tt: ev(unitary(time_evolution(H, tt, "Trotter", steps), nq))
            rhs = (f(float(t) + eps) - f(float(t) - eps)) / (2 * eps)
            if abs(lhs - rhs) > 1e-5 * max(1.0, abs(rhs)):
                ok, msg = False, f"factor-weighted sum {lhs:.8f} differs from d/dt of the expectation {rhs:.8f} (steps={steps})"
        elif len(circuits) != len(factors):
            ok, msg = False, "circuits and factors of different length"
        return dict(chk=chk, oracle_ok=ok, oracle_msg=msg,
                    kind=f"derivative-steps{steps}" + ("-const" if nconst else ""), nontrivial=len(terms) >= 2 or steps >= 2)
    raise ValueError(kind)

def w_f19():
    H = PauliSum([PauliTerm("X0", 0.7), PauliTerm("Z0*Z1", -0.4)])
    r = run_case(dict(kind="derivative", terms=[dict(ops={"0": "X"}, re=[3, 4], im=[0, 1]), dict(ops={"0": "Z", "1": "Z"}, re=[-1, 2], im=[0, 1])],
                      t=[5, 8], steps=2, oseed=7))
    return not r["oracle_ok"], r["oracle_msg"] or "derivative circuits for n_steps=2 agree with finite differences"

def w_f20():
    st, out = outcome(time_evolution_for_term, PauliTerm("Z0", 1 - 2j), 0.5)
    return st == "ok", "time_evolution_for_term(PauliTerm('Z0', 1-2j), 0.5) " + ("was accepted" if st == "ok" else f"raised {out}")

Hn.main(gen, run_case, {"F19": w_f19, "F20": w_f20})
