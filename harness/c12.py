"""C12 correspondence harness: wavefunction objects stay normalised under every operation.

Amplitudes are JSON lists: ["s", id] for the symbol x<id>, or [re_num, re_den, im_num, im_den].
All numeric values are dyadic with one of the two parts zero, so that numpy's |a|**2 and the sums are exact.
"""
import copy, json, os, tempfile
import numpy as np
import sympy
from hlib import *
from orquestra.quantum.wavefunction import (Wavefunction, flip_wavefunction, flip_amplitudes, _get_ordering,
                                            save_wavefunction, load_wavefunction)

H = Harness("C12", ["OQ.Base.CaseEq", "OQ.State.Wavefunction", "OQ.State.WavefunctionCases"],
            "kinds: multi (several objects built by the SAME constructor call - dicke_state(n,k), zero_state(n), Wavefunction of "
            "one shared list / tuple / float ndarray / Matrix, bind of one receiver, load of one file - created before, "
            "between and after accepted and rejected assignments on one of them; EVERY object is re-read after EVERY step "
            "and compared with its own independent model run; every construction, also the later ones, must equal the "
            "first and, for dicke_state, have exactly the weight-k support with one amplitude), history (1-20 operations on 0-4 qubits; numeric / symbolic / mixed initial vectors given as list, "
            "tuple, ndarray or sympy Matrix; element, list-at-index (sympy spill) and slice assignments incl. negative / overflowing bounds, broadcast, "
            "wrong lengths, symbols into numpy storage, out-of-range indices; bind with valid, invalid, partial, renaming "
            "and absent-symbol maps; after EVERY step outcome + backing + full amplitude snapshot are compared with the "
            "model and the receiver of every bind is re-read), create (valid, wrong length, wrong norm, tolerance probes "
            "1+-2^-e), probs (probabilities and outcome keys), flip (amplitude lists, wavefunctions, the index ordering), "
            "saveload (file content and reloaded object; symbolic objects cannot be saved), dicke (support and "
            "probabilities for all n<=10 (quick) / 14 (thorough), k<=n, and rejected arguments); non-trivial = at least "
            "2 amplitudes and (for histories) at least one accepted and one rejected step")

# ----------------------------------------------------------------------------- amplitudes
def num(re, im=0):
    re, im = Fraction(re), Fraction(im)
    return [re.numerator, re.denominator, im.numerator, im.denominator]

def sym(i): return ["s", int(i)]
def is_sym(a): return a[0] == "s"
def parts(a): return Fraction(a[0], a[1]), Fraction(a[2], a[3])
def norm2(a): return Fraction(0) if is_sym(a) else parts(a)[0] ** 2 + parts(a)[1] ** 2

def amp_py(a):
    if is_sym(a):
        return sympy.Symbol(f"x{a[1]}")
    re, im = parts(a)
    if im == 0:
        return int(re) if re.denominator == 1 else float(re)
    return complex(float(re), float(im))

def amp_coq(a):
    if is_sym(a):
        return f"(sy {int(a[1])}%positive)"
    re, im = parts(a)
    if (4 * re).denominator == 1 and (4 * im).denominator == 1:
        return f"(q4 {cz(4 * re)} {cz(4 * im)})"
    return f"(Num {cq(re)} {cq(im)})"

def amps_coq(l): return clist(l, amp_coq)

def from_py(e):
    """an entry read back from the implementation -> JSON amplitude (exact)"""
    if isinstance(e, np.ndarray):
        assert e.size == 1
        e = e.reshape(-1)[0]
    if isinstance(e, sympy.Basic) and e.free_symbols:
        if not e.is_Symbol or not e.name.startswith("x"):
            raise ValueError(f"unexpected symbolic entry {e!r}")
        return sym(int(e.name[1:]))
    c = complex(e)
    return num(Fraction(c.real), Fraction(c.imag))

BK = {"flat": "NpFlat", "col": "NpCol", "mat": "Mat"}

def snapshot(wf):
    av = wf._amplitude_vector
    if isinstance(av, np.ndarray):
        if av.ndim == 1:
            b = "flat"
        elif av.ndim == 2 and av.shape[1] == 1:
            b = "col"
        else:
            raise ValueError(f"unexpected storage shape {av.shape}")
    elif isinstance(av, sympy.MatrixBase):
        b = "mat"
    else:
        raise ValueError(f"unexpected storage {type(av)}")
    pub = np.asarray(wf.amplitudes, dtype=object).reshape(-1)
    return dict(b=b, a=[from_py(e) for e in pub])

def state_coq(sn): return f"({BK[sn['b']]}, {amps_coq(sn['a'])})"

OUT = {"ValueError": "ErrValue", "TypeError": "ErrType", "IndexError": "ErrIndex"}

def container(kind, amps):
    vals = [amp_py(a) for a in amps]
    if kind == "list":
        return vals
    if kind == "tuple":
        return tuple(vals)
    if kind == "nparray":
        return np.array([complex(v) for v in vals])
    if kind == "matrix":
        return sympy.Matrix(vals)
    raise ValueError(kind)

# ----------------------------------------------------------------------------- the property, recomputed independently
TOL = Fraction(1001, 10 ** 8)

def inv_msg(sn):
    a = sn["a"]
    n = len(a)
    if n == 0 or n & (n - 1):
        return f"length {n} is not a power of two"
    tot = sum(norm2(x) for x in a)
    if any(is_sym(x) for x in a):
        if tot > 1:
            return f"numeric entries already sum to {tot} > 1"
    elif abs(tot - 1) > TOL:
        return f"squared magnitudes sum to {tot}"
    if sn["b"] != "mat" and any(is_sym(x) for x in a):
        return "symbol inside numpy storage"
    return ""

def apply_op(wf, op):
    """-> (status, exception-name or returned object)"""
    if op["op"] == "item":
        return outcome(wf.__setitem__, op["i"], amp_py(op["v"]))
    if op["op"] == "itemlist":
        return outcome(wf.__setitem__, op["i"], [amp_py(v) for v in op["vs"]])
    if op["op"] == "slice":
        return outcome(wf.__setitem__, slice(op["lo"], op["hi"]), [amp_py(v) for v in op["vs"]])
    if op["op"] == "bind":
        return outcome(wf.bind, {sympy.Symbol(f"x{k}"): amp_py(v) for k, v in op["m"]})
    raise ValueError(op["op"])

def op_coq(op):
    if op["op"] == "item":
        return f"(SetItem {cz(op['i'])} {amp_coq(op['v'])})"
    if op["op"] == "itemlist":
        return f"(SetItemList {cz(op['i'])} {amps_coq(op['vs'])})"
    if op["op"] == "slice":
        return f"(SetSlice {cz(op['lo'])} {cz(op['hi'])} {amps_coq(op['vs'])})"
    return "(Bind " + clist(op["m"], lambda kv: cpair(f"{int(kv[0])}%positive", amp_coq(kv[1]))) + ")"

# ----------------------------------------------------------------------------- generators
PHASES = [(1, 0), (-1, 0), (0, 1), (0, -1)]
MAGS_MAIN = [Fraction(1, 2), Fraction(1)]
MAGS_ALL = [Fraction(1, 4), Fraction(1, 2), Fraction(3, 4), Fraction(1)]

def rnd_value(rng, zero_ok=True, fine=False):
    if zero_ok and rng.random() < 0.25:
        return num(0)
    m = rng.choice(MAGS_ALL if fine else MAGS_MAIN)
    p = rng.choice(PHASES)
    return num(m * p[0], m * p[1])

def rephase(rng, a):
    re, im = parts(a)
    m = max(abs(re), abs(im))
    p = rng.choice(PHASES)
    return num(m * p[0], m * p[1])

def with_norm16(rng, w):
    """a value whose squared magnitude is w/16, w in {0,1,4,9,16}"""
    m = {0: Fraction(0), 1: Fraction(1, 4), 4: Fraction(1, 2), 9: Fraction(3, 4), 16: Fraction(1)}[w]
    p = rng.choice(PHASES)
    return num(m * p[0], m * p[1])

def compose16(rng, total, slots, fine):
    """random multiset from {16,9,4,1} (or {16,4}) with the given sum using at most `slots` parts, or None"""
    for _ in range(30):
        rem, out = total, []
        while rem > 0 and len(out) < slots:
            opts = [w for w in ((16, 9, 4, 1) if fine else (16, 4)) if w <= rem]
            if not opts:
                break
            w = rng.choice(opts)
            out.append(w)
            rem -= w
        if rem == 0:
            return out
    return None

def make_vector(rng, n, flavour, valid):
    fine = n >= 8 and rng.random() < 0.4
    if not valid:
        v = [rnd_value(rng, fine=fine) if (flavour == "numeric" or rng.random() < 0.6) else sym(rng.randint(1, 4))
             for _ in range(n)]
        return v
    pos = list(range(n))
    rng.shuffle(pos)
    if flavour == "numeric":
        nsym, total = 0, 16
    elif flavour == "symbolic":
        nsym, total = n, 0
    else:
        nsym = rng.randint(1, max(1, n - 1))
        total = rng.choice([0, 4, 8, 12, 16] if not fine else list(range(0, 17)))
    v = [num(0)] * n
    for p in pos[:nsym]:
        v[p] = sym(rng.randint(1, min(4, max(2, nsym))))
    free = pos[nsym:]
    ws = compose16(rng, total, len(free), fine)
    if ws is None:
        ws = compose16(rng, 16 if flavour == "numeric" else 0, len(free), False) or []
        if flavour == "numeric" and not ws:
            ws = [16]
    for p, w in zip(free, ws):
        v[p] = with_norm16(rng, w)
    return v

def gen_op(rng, sn):
    a, b = sn["a"], sn["b"]
    n = len(a)
    syms = sorted({x[1] for x in a if is_sym(x)})
    r = rng.random()
    pbind = 0.3 if syms else 0.04
    if r < pbind:
        keys = [k for k in syms if rng.random() < 0.7] or (syms[:1] if syms else [])
        if rng.random() < 0.15 or not keys:
            keys = keys + [9]
        mode = rng.random()
        m = []
        budget = 16 - int(sum(norm2(x) for x in a) * 16)
        occurrences = {k: sum(1 for x in a if is_sym(x) and x[1] == k) for k in keys}
        for k in keys:
            if mode < 0.55:      # values that fit: aim at using up the budget exactly
                opts = [w for w in (16, 4, 0) if w * max(1, occurrences.get(k, 1)) <= budget]
                w = opts[0] if (opts and rng.random() < 0.6) else (rng.choice(opts) if opts else 0)
                budget -= w * occurrences.get(k, 0)
                m.append([k, with_norm16(rng, w)])
            elif mode < 0.9:
                m.append([k, rnd_value(rng)])
            else:
                # renaming; sympy's dict substitution is sequential, so a target must not itself be a key of this map
                free = [t for t in range(5, 9) if t not in keys]
                m.append([k, sym(rng.choice(free))] if free else [k, rnd_value(rng)])
        return dict(op="bind", m=m)
    if r < pbind + (1 - pbind) * (0.14 if b == "mat" else 0.06):
        # a list at an integer index: sympy spills it over the following entries (F29 shape when rejected)
        i = rng.randrange(n)
        k = rng.choice([0, 1, 1, 2, 2, 2, 3, 4])
        q = rng.random()
        if q < 0.1:
            i = rng.choice([n, n + 1, -n - 1])
        elif q < 0.3:
            i = i - n
        pos = i % n if -n <= i < n else 0
        seg = a[pos:pos + k]
        q = rng.random()
        if q < 0.4 and len(seg) == k and seg and not any(is_sym(x) for x in seg):
            vs = [rephase(rng, x) for x in seg]
        elif q < 0.85:
            vs = [rnd_value(rng, zero_ok=rng.random() < 0.5) for _ in range(k)]
        else:
            vs = [rnd_value(rng) if rng.random() < 0.5 else sym(rng.randint(1, 4)) for _ in range(k)]
        return dict(op="itemlist", i=i, vs=vs)
    if r < pbind + (1 - pbind) * 0.5:
        i = rng.randrange(n)
        q = rng.random()
        if q < 0.07:
            i = rng.choice([n, n + 2, -n - 1, -n - 3])
        elif q < 0.35:
            i = i - n
        cur = a[i] if -n <= i < n else num(0)
        q = rng.random()
        if q < 0.45 and not is_sym(cur):
            v = rephase(rng, cur)
        elif q < 0.85:
            v = rnd_value(rng, fine=n >= 8)
        else:
            v = sym(rng.randint(1, 4))
        return dict(op="item", i=i, v=v)
    lo = rng.randint(0, n)
    hi = rng.randint(lo, n) if rng.random() < 0.9 else rng.randint(0, n)
    m = max(0, hi - lo)
    seg = a[lo:hi]
    q = rng.random()
    if q < 0.4 and seg and not any(is_sym(x) for x in seg):
        vs = [rephase(rng, x) for x in seg]
        rng.shuffle(vs)
    elif q < 0.65:
        vs = [rnd_value(rng) for _ in range(m)]
    elif q < 0.8:
        vs = [rnd_value(rng)]
    elif q < 0.92:
        vs = [rnd_value(rng) for _ in range(rng.choice([max(0, m - 1), m + 1, 0, 2]))]
    else:
        vs = [rnd_value(rng) for _ in range(max(1, m))]
        vs[rng.randrange(len(vs))] = sym(rng.randint(1, 4))
    if rng.random() < 0.25 and lo < n:
        lo = lo - n
    q = rng.random()
    if q < 0.15:
        hi = hi - n if hi < n else hi + rng.randint(0, 3)
    elif q < 0.2:
        lo = lo - 2 * n
    return dict(op="slice", lo=lo, hi=hi, vs=vs)

def gen_history(rng):
    nq = rng.choice([0, 1, 1, 2, 2, 2, 2, 3, 3, 4])
    n = 2 ** nq
    flavour = rng.choice(["numeric", "numeric", "symbolic", "mixed", "mixed"])
    valid = rng.random() < 0.93
    init = make_vector(rng, n, flavour, valid)
    if not valid and rng.random() < 0.4:
        init = init + [num(0)] * rng.choice([1, 2]) if rng.random() < 0.5 else init[:-1]
    has_s = any(is_sym(x) for x in init)
    cont = rng.choice(["list", "matrix"]) if has_s else rng.choice(["list", "list", "tuple", "nparray", "matrix"])
    ops = []
    st, wf = outcome(Wavefunction, container(cont, init))
    if st == "ok":
        for _ in range(rng.randint(1, 20)):
            op = gen_op(rng, snapshot(wf))
            ops.append(op)
            st2, res = apply_op(wf, op)
            if op["op"] == "bind" and st2 == "ok":
                wf = res
    return dict(kind="history", container=cont, init=init, ops=ops)


# ----------------------------------------------------------------------------- several objects from one constructor call
def build_source(src, tmpdir):
    """-> (construct, receiver or None).  Every call of construct() repeats the SAME constructor call: same arguments,
    same source container object, same receiver, same file.  (A complex ndarray handed to Wavefunction(...) is stored
    without a copy - documented aliasing of a caller's buffer - and is therefore not used as a shared source.)"""
    t = src["src"]
    if t == "zero":
        return (lambda: Wavefunction.zero_state(src["n"])), None
    if t == "dicke":
        return (lambda: Wavefunction.dicke_state(src["n"], src["k"])), None
    if src["container"] == "farray":
        cont = np.array([float(parts(a)[0]) for a in src["v"]], dtype=float)
    else:
        cont = container(src["container"], src["v"])
    if t == "list":
        return (lambda: Wavefunction(cont)), None
    recv = Wavefunction(cont)
    if t == "bind":
        mp = {sympy.Symbol(f"x{k}"): amp_py(v) for k, v in src["m"]}
        return (lambda: recv.bind(mp)), recv
    if t == "load":
        fn = os.path.join(tmpdir, "shared.json")
        save_wavefunction(recv, fn)
        return (lambda: load_wavefunction(fn)), recv
    raise ValueError(t)

def source_coq(src, v_dicke):
    t = src["src"]
    if t == "zero":
        return f"(SrcList false {amps_coq([num(1)] + [num(0)] * (2 ** src['n'] - 1))})"
    if t == "dicke":
        return f"(SrcDicke {cz(src['n'])} {cz(src['k'])} {amps_coq(v_dicke)})"
    col = cbool(src["container"] == "matrix")
    if t == "list":
        return f"(SrcList {col} {amps_coq(src['v'])})"
    if t == "bind":
        return f"(SrcBind {col} {amps_coq(src['v'])} " + clist(src["m"], lambda kv: cpair(f"{int(kv[0])}%positive", amp_coq(kv[1]))) + ")"
    return f"(SrcLoad {col} {amps_coq(src['v'])})"

def gen_multi(rng):
    r = rng.random()
    if r < 0.45:
        n = rng.choice([1, 2, 2, 3, 3, 4, 4])
        src = dict(src="dicke", n=n, k=rng.randint(1, n) if rng.random() < 0.9 else 0)
    elif r < 0.55:
        src = dict(src="zero", n=rng.randint(1, 4))
    elif r < 0.72:
        flav = rng.choice(["numeric", "numeric", "mixed", "symbolic"])
        v = make_vector(rng, 2 ** rng.randint(1, 4), flav, True)
        if flav == "numeric":
            cont = rng.choice(["list", "tuple", "farray", "matrix"])
            if cont == "farray" and any(parts(a)[1] != 0 for a in v):
                cont = "list"
        else:
            cont = rng.choice(["list", "matrix"])
        src = dict(src="list", container=cont, v=v)
    elif r < 0.87:
        v = make_vector(rng, 2 ** rng.randint(1, 3), rng.choice(["mixed", "symbolic"]), True)
        bop = None
        for _ in range(20):
            bop = gen_op(rng, dict(b="mat", a=v))
            if bop["op"] == "bind":
                break
        m = bop["m"] if bop and bop["op"] == "bind" else [[1, num(0)]]
        src = dict(src="bind", container=rng.choice(["list", "matrix"]), v=v, m=m)
    else:
        v = make_vector(rng, 2 ** rng.randint(1, 4), "numeric", True)
        src = dict(src="load", container=rng.choice(["list", "nparray", "matrix"]), v=v)
    script = []
    with tempfile.TemporaryDirectory() as d:
        try:
            construct, _ = build_source(src, d)
        except Exception:
            return None
        objs = []
        plan = ["new", "op", "new"] + [("new" if rng.random() < 0.3 else "op") for _ in range(rng.randint(1, 9))]
        for what in plan:
            if what == "new" or not objs:
                if len([1 for x in script if x["do"] == "new"]) >= 4:
                    continue
                script.append(dict(do="new"))
                st, wf = outcome(construct)
                # steer on a detached copy, so that generating never writes into anything the constructor might share
                objs.append(copy.deepcopy(wf) if st == "ok" else None)
                continue
            live = [j for j, o in enumerate(objs) if o is not None]
            if not live:
                continue
            j = rng.choice(live)
            op = None
            for _ in range(20):
                op = gen_op(rng, snapshot(objs[j]))
                if op["op"] != "bind":
                    break
            if op is None or op["op"] == "bind":
                continue
            script.append(dict(do="op", obj=j, op=op))
            apply_op(objs[j], op)
    return dict(kind="multi", source=src, script=script)

def gen(rng, tier):
    scale = {"quick": 1, "search": 1, "thorough": 20}.get(tier, 1)
    for _ in range(320 * scale):
        yield gen_history(rng)
    # several objects from the same constructor call, assignments on one of them in between
    for _ in range(110 * scale):
        m = gen_multi(rng)
        if m is not None:
            yield m
    # F12 shape: rejected slice assignments into numpy-backed objects
    for _ in range(40 * scale):
        nq = rng.choice([1, 2, 2, 3, 4])
        n = 2 ** nq
        init = make_vector(rng, n, "numeric", True)
        ops = []
        for _ in range(rng.randint(1, 4)):
            lo = rng.randint(0, n - 1)
            hi = rng.randint(lo + 1, n)
            vs = [rnd_value(rng, zero_ok=False) for _ in range(hi - lo)]
            ops.append(dict(op="slice", lo=lo, hi=hi, vs=vs))
            ops.append(dict(op="item", i=rng.randrange(n), v=rnd_value(rng)))
        yield dict(kind="history", container=rng.choice(["list", "nparray", "matrix"]), init=init, ops=ops)
    # F37 shape: slice assignments into flat numpy storage with matching length and a symbol after at least one number
    for _ in range(30 * scale):
        nq = rng.choice([1, 2, 2, 3, 4])
        n = 2 ** nq
        init = make_vector(rng, n, "numeric", True)
        ops = []
        for _ in range(rng.randint(1, 3)):
            lo = rng.randint(0, n - 2)
            hi = rng.randint(lo + 2, n)
            vs = [rnd_value(rng, zero_ok=False) for _ in range(hi - lo)]
            vs[rng.randint(1, hi - lo - 1)] = sym(rng.randint(1, 4))
            ops.append(dict(op="slice", lo=lo if rng.random() < 0.7 else lo - n, hi=hi, vs=vs))
            ops.append(dict(op="item", i=rng.randrange(n), v=rnd_value(rng)))
        yield dict(kind="history", container=rng.choice(["list", "nparray", "tuple"]), init=init, ops=ops)
    # F29 shape: rejected list-at-index assignments (spill) into sympy-backed objects, between ordinary steps
    for _ in range(40 * scale):
        nq = rng.choice([1, 2, 2, 3, 3, 4])
        n = 2 ** nq
        init = make_vector(rng, n, rng.choice(["mixed", "mixed", "symbolic"]), True)
        ops = []
        for _ in range(rng.randint(1, 4)):
            i = rng.randrange(n)
            k = rng.randint(1, min(3, n - i)) if rng.random() < 0.9 else n - i + 1
            ops.append(dict(op="itemlist", i=i if rng.random() < 0.7 else i - n,
                            vs=[rnd_value(rng, zero_ok=False) for _ in range(k)]))
            ops.append(dict(op="item", i=rng.randrange(n), v=rnd_value(rng)))
        yield dict(kind="history", container=rng.choice(["list", "matrix"]), init=init, ops=ops)
    for _ in range(60 * scale):
        r = rng.random()
        if r < 0.5:
            e = rng.randint(12, 24)
            s = rng.choice([1, -1])
            n = 2 ** rng.randint(0, 3)
            v = [num(0)] * n
            if n >= 4 and rng.random() < 0.5:
                idx = rng.sample(range(n), 4)
                for j in idx:
                    v[j] = num(Fraction(1, 2))
                v[idx[0]] = num(Fraction(1, 2) + s * Fraction(1, 2 ** e))
            else:
                v[rng.randrange(n)] = num(1 + s * Fraction(1, 2 ** e))
            if rng.random() < 0.3 and n >= 2:
                z = [j for j in range(n) if v[j] == num(0)]
                if z:
                    v[rng.choice(z)] = sym(1)
            yield dict(kind="create", container=rng.choice(["list", "matrix"]), v=v, sub="tolerance")
        else:
            n = rng.choice([0, 1, 2, 3, 4, 5, 6, 7, 8, 12, 16])
            flavour = rng.choice(["numeric", "symbolic", "mixed"])
            v = make_vector(rng, n, flavour, rng.random() < 0.5) if n else []
            yield dict(kind="create", container=rng.choice(["list", "matrix", "tuple"]), v=v, sub="shape")
    for _ in range(60 * scale):
        nq = rng.randint(0, 4)
        flavour = rng.choice(["numeric", "numeric", "mixed", "symbolic"])
        v = make_vector(rng, 2 ** nq, flavour, True)
        cont = rng.choice(["list", "matrix"]) if flavour != "numeric" else rng.choice(["list", "nparray", "matrix"])
        yield dict(kind=rng.choice(["probs", "flipwf", "saveload", "saveload"]) if flavour == "numeric"
                   else rng.choice(["flipwf", "saveload"]), container=cont, v=v)
    for _ in range(25 * scale):
        v = make_vector(rng, 2 ** rng.randint(1, 4), "numeric", True)
        yield dict(kind="probs", container=rng.choice(["list", "nparray", "matrix"]), v=v)
    for _ in range(40 * scale):
        nq = rng.randint(0, 5)
        vals = rng.sample(range(-40, 41), 2 ** nq) if nq <= 5 else []
        yield dict(kind="flip", v=[num(Fraction(x, 4)) if rng.random() < 0.8 else num(0, Fraction(x, 4)) for x in vals])
    for nq in range(0, 11 if tier != "thorough" else 13):
        yield dict(kind="ordering", n=nq)
    nmax = 14 if tier == "thorough" else 10
    for n in range(1, nmax + 1):
        for k in range(0, n + 1):
            yield dict(kind="dicke", n=n, k=k)
    for n, k in [(0, 0), (-1, 0), (3, 4), (3, -1), (1, 2), (5, 7), (0, 1)]:
        yield dict(kind="dicke", n=n, k=k)

# ----------------------------------------------------------------------------- cases
def run_history(inp):
    init, ops, cont = inp["init"], inp["ops"], inp["container"]
    col = cbool(cont == "matrix")
    st, wf = outcome(Wavefunction, container(cont, init))
    if st != "ok":
        ok = wf == "ValueError"
        n = len(init)
        bad_len = n == 0 or n & (n - 1) != 0
        tot = sum(norm2(x) for x in init)
        should = bad_len or (tot > 1 if any(is_sym(x) for x in init) else abs(tot - 1) > TOL)
        msg = "" if (ok and should) else f"Wavefunction({cont} {init}) raised {wf}" + ("" if should else " although the vector is valid")
        return dict(chk=f"hist_eqb {col} {amps_coq(init)} [] None [] []" if ok else "false",
                    oracle_ok=ok and should, oracle_msg=msg, kind="history-create-rejected", nontrivial=len(init) >= 2)
    sn0 = snapshot(wf)
    msgs = []
    m0 = inv_msg(sn0)
    if m0:
        msgs.append(f"created object from {init}: {m0}")
    if sn0["a"] != init:
        msgs.append(f"created object holds {sn0['a']} instead of {init}")
    exp, alias = [], []
    prev = sn0
    n_ok = n_err = 0
    n_f37 = 0            # steps of the shape of (fixed) finding F37: numpy stores leading numbers, then raises TypeError
    for k, op in enumerate(ops):
        hazard = (op["op"] == "slice" and prev["b"] == "flat" and any(is_sym(v) for v in op["vs"])
                  and not is_sym(op["vs"][0])
                  and len(op["vs"]) == len(range(*slice(op["lo"], op["hi"]).indices(len(prev["a"])))))
        n_f37 += hazard
        st, res = apply_op(wf, op)
        after = snapshot(wf)              # the receiver, re-read after the operation
        al = False
        if op["op"] == "bind":
            if after != prev:
                msgs.append(f"step {k}: bind changed its receiver from {prev} to {after}")
            if st == "ok":
                al = res is wf
                if al != (not any(is_sym(x) for x in prev["a"])):
                    msgs.append(f"step {k}: bind returned {'the receiver' if al else 'a new object'} on {prev['a']}")
                wf = res
                after = snapshot(wf)
        if st == "ok":
            n_ok += 1
            o = "Ok"
            if op["op"] == "item" and after["a"][op["i"]] != op["v"]:
                msgs.append(f"step {k}: accepted element assignment did not store the value: {after['a']}")
            if op["op"] == "itemlist":
                p0 = op["i"] % len(prev["a"])
                if after["a"][p0:p0 + len(op["vs"])] != op["vs"]:
                    msgs.append(f"step {k}: accepted list assignment did not store the values: {after['a']}")
        else:
            n_err += 1
            o = OUT.get(res)
            if o is None:
                return dict(chk="false", oracle_ok=False, oracle_msg=f"step {k} {op} raised {res}", kind="history")
            if after != prev:
                msgs.append(f"step {k}: {op} raised {res} but changed the object from {prev['a']} to {after['a']}")
        im = inv_msg(after)
        if im:
            msgs.append(f"step {k}: after {op} ({o}) the object is {after['a']}: {im}")
        exp.append(cpair(o, state_coq(after)))
        alias.append(cbool(al))
        prev = after
    chk = (f"hist_eqb {col} {amps_coq(init)} {clist(ops, op_coq)} (Some {state_coq(sn0)}) "
           f"{clist(exp)} {clist(alias)}")
    flav = "numeric" if not any(is_sym(x) for x in init) else ("symbolic" if all(is_sym(x) for x in init) else "mixed")
    return dict(chk=chk, oracle_ok=not msgs, oracle_msg="; ".join(msgs[:3]),
                kind=f"history-{flav}" + ("-F37shape" if n_f37 else ""),
                nontrivial=len(init) >= 2 and n_ok >= 1 and n_err >= 1)

def run_create(inp):
    v, cont = inp["v"], inp["container"]
    st, wf = outcome(Wavefunction, container(cont, v))
    n = len(v)
    tot = sum(norm2(x) for x in v)
    should = not (n == 0 or n & (n - 1)) and (tot <= 1 if any(is_sym(x) for x in v) else abs(tot - 1) <= TOL)
    if st == "ok":
        sn = snapshot(wf)
        ok = should and sn["a"] == v
        return dict(chk=f"create_eqb {cbool(cont == 'matrix')} {amps_coq(v)} (Some {state_coq(sn)})", oracle_ok=ok,
                    oracle_msg="" if ok else f"Wavefunction({v}) accepted, holds {sn['a']}", kind="create-" + inp["sub"],
                    nontrivial=n >= 2)
    ok = wf == "ValueError" and not should
    return dict(chk=f"create_eqb {cbool(cont == 'matrix')} {amps_coq(v)} None" if wf == "ValueError" else "false",
                oracle_ok=ok, oracle_msg="" if ok else f"Wavefunction({v}) raised {wf}", kind="create-" + inp["sub"] + "-rejected",
                nontrivial=n >= 2)

def bits_lsb(n, i): return [bool((i >> j) & 1) for j in range(n)]

def run_probs(inp):
    wf = Wavefunction(container(inp["container"], inp["v"]))
    p = np.asarray(wf.get_probabilities(), dtype=float).reshape(-1)
    d = wf.get_outcome_probs()
    nq = wf.n_qubits
    keys = list(d.keys())
    vals = [float(np.asarray(x).reshape(-1)[0]) for x in d.values()]
    want = [float(norm2(a)) for a in inp["v"]]
    # (a zero-qubit object labels its single outcome "0": format(0, "00b"); keys are compared from one qubit on)
    ok = list(p) == want and abs(sum(Fraction(x) for x in p) - 1) <= TOL and vals == want and \
        (nq == 0 or keys == ["".join(str((i >> j) & 1) for j in range(nq)) for i in range(len(p))])
    kb = clist([[c == "1" for c in k] for k in keys], lambda bs: clist(bs, cbool))
    chk = f"probs_eqb {amps_coq(inp['v'])} {clist(p, lambda x: cq(Fraction(x)))}" + (f" && keys_eqb {cnat(nq)} {kb}" if nq else "")
    return dict(chk=chk, oracle_ok=ok, oracle_msg="" if ok else f"probabilities {list(p)} keys {keys} for {inp['v']}",
                kind="probs", nontrivial=len(p) >= 2)

def run_flip(inp):
    v = inp["v"]
    out = flip_amplitudes([amp_py(a) for a in v])
    got = [from_py(e) for e in out]
    nq = len(v).bit_length() - 1
    rev = lambda i: int(format(i, f"0{nq}b")[::-1], 2) if nq else 0
    ok = got == [v[rev(i)] for i in range(len(v))]
    back = [from_py(e) for e in flip_amplitudes(out)]
    ok = ok and back == v
    return dict(chk=f"flip_eqb {amps_coq(v)} {amps_coq(got)}", oracle_ok=ok,
                oracle_msg="" if ok else f"flip_amplitudes({v}) = {got}, twice = {back}", kind="flip", nontrivial=len(v) >= 4)

def run_ordering(inp):
    n = inp["n"]
    o = [int(x) for x in _get_ordering(2 ** n)]
    ok = o == [int(format(i, f"0{n}b")[::-1], 2) if n else 0 for i in range(2 ** n)]
    return dict(chk=f"flip_ordering_eqb {cnat(n)} {clist(o, cnat)}", oracle_ok=ok, oracle_msg="" if ok else f"ordering {o[:16]}",
                kind="ordering", nontrivial=n >= 2)

def run_flipwf(inp):
    wf = Wavefunction(container(inp["container"], inp["v"]))
    before = snapshot(wf)
    st, res = outcome(flip_wavefunction, wf)
    if st != "ok":
        return dict(chk=f"flip_wf_eqb {state_coq(before)} None" if res == "ValueError" else "false", oracle_ok=False,
                    oracle_msg=f"flip_wavefunction raised {res} on {before}", kind="flipwf")
    sn = snapshot(res)
    v = before["a"]
    nq = len(v).bit_length() - 1
    rev = lambda i: int(format(i, f"0{nq}b")[::-1], 2) if nq else 0
    twice = snapshot(flip_wavefunction(res))
    ok = sn["a"] == [v[rev(i)] for i in range(len(v))] and not inv_msg(sn) and twice["a"] == v and snapshot(wf) == before
    return dict(chk=f"flip_wf_eqb {state_coq(before)} (Some {state_coq(sn)})", oracle_ok=ok,
                oracle_msg="" if ok else f"flip of {v} = {sn['a']}, twice = {twice['a']}", kind="flipwf", nontrivial=len(v) >= 4)

def run_saveload(inp):
    wf = Wavefunction(container(inp["container"], inp["v"]))
    before = snapshot(wf)
    with tempfile.TemporaryDirectory() as d:
        fn = os.path.join(d, "wf.json")
        st, res = outcome(save_wavefunction, wf, fn)
        if st != "ok":
            symbolic = before["b"] == "mat"
            ok = symbolic and res == "TypeError"
            return dict(chk=f"save_eqb {state_coq(before)} None && saveload_eqb {state_coq(before)} None", oracle_ok=ok,
                        oracle_msg="" if ok else f"save_wavefunction raised {res} on {before}", kind="saveload-unsupported",
                        nontrivial=len(inp["v"]) >= 2)
        data = json.load(open(fn))
        st, back = outcome(load_wavefunction, fn)
    if st != "ok":
        return dict(chk=f"saveload_eqb {state_coq(before)} None" if back == "ValueError" else "false", oracle_ok=False,
                    oracle_msg=f"load_wavefunction raised {back} on the file saved from {before}", kind="saveload")
    sn = snapshot(back)
    flat = lambda x: [Fraction(float(t)) for t in np.asarray(x, dtype=float).reshape(-1)]
    re, im = flat(data["amplitudes"]["real"]), flat(data["amplitudes"].get("imag", []))
    ok = sn["a"] == before["a"] and snapshot(wf) == before and bool(back == wf)
    lq = lambda l: clist(l, cq)
    chk = (f"save_eqb {state_coq(before)} (Some ({cbool(before['b'] == 'col')}, {lq(re)}, {lq(im)})) && "
           f"saveload_eqb {state_coq(before)} (Some {state_coq(sn)})")
    return dict(chk=chk, oracle_ok=ok, oracle_msg="" if ok else f"saved {before['a']} loaded {sn['a']}", kind="saveload",
                nontrivial=len(inp["v"]) >= 2)

def run_dicke(inp):
    n, k = inp["n"], inp["k"]
    st, wf = outcome(Wavefunction.dicke_state, n, k)
    if st != "ok":
        ok = wf == "ValueError" and (n <= 0 or k < 0 or k > n)
        return dict(chk=f"dicke_eqb {cz(n)} {cz(k)} None" if wf == "ValueError" else "false", oracle_ok=ok,
                    oracle_msg="" if ok else f"dicke_state({n},{k}) raised {wf}", kind="dicke-rejected", nontrivial=False)
    a = np.asarray(wf.amplitudes).reshape(-1)
    support = [int(i) for i in np.nonzero(a)[0]]
    want = [i for i in range(2 ** n) if bin(i).count("1") == k]
    vals = {complex(a[i]) for i in support}
    p = wf.get_probabilities()
    ok = (n >= 1 and 0 <= k <= n and support == want and len(vals) == 1 and len(a) == 2 ** n
          and abs(float(p[support[0]]) * len(support) - 1) < 1e-9 and abs(float(np.sum(p)) - 1) < 1e-9
          and all(x.imag == 0 and x.real > 0 for x in vals))
    chk = f"dicke_eqb {cz(n)} {cz(k)} (Some {clist(support, cz)})"
    if n <= 8:
        chk += f" && dicke_probs_eqb {cz(n)} {cz(k)} {clist(support, cz)} {len(support)}%positive"
    return dict(chk=chk, oracle_ok=ok, oracle_msg="" if ok else f"dicke_state({n},{k}): support {support[:20]} values {sorted(vals, key=abs)[:3]}",
                kind="dicke", nontrivial=0 < k < n)


def dicke_msg(src, sn):
    n, k = src["n"], src["k"]
    a = sn["a"]
    want = [i for i in range(2 ** n) if bin(i).count("1") == k]
    sup = [i for i, x in enumerate(a) if not is_sym(x) and norm2(x) != 0]
    if len(a) != 2 ** n or sup != want or any(is_sym(x) for x in a):
        return f"dicke_state({n},{k}) has support {sup} instead of {want}"
    vals = {tuple(a[i]) for i in sup}
    if len(vals) != 1 or parts(a[sup[0]])[1] != 0 or parts(a[sup[0]])[0] <= 0:
        return f"dicke_state({n},{k}) amplitudes on the support are not one positive value: {sorted(vals)[:3]}"
    if abs(norm2(a[sup[0]]) * len(sup) - 1) > Fraction(1, 10 ** 9):
        return f"dicke_state({n},{k}) gives probability {float(norm2(a[sup[0]]))} to each of {len(sup)} states"
    return ""

def run_multi(inp):
    src, script = inp["source"], inp["script"]
    msgs = []
    objs = []          # dict(wf, sn0, prev, ops, exp)
    n_ok = n_err = n_late = 0
    with tempfile.TemporaryDirectory() as d:
        construct, recv = build_source(src, d)
        recv0 = snapshot(recv) if recv is not None else None
        first = None
        for k, stp in enumerate(script):
            touched = None
            if stp["do"] == "new":
                st, wf = outcome(construct)
                new = dict(wf=wf if st == "ok" else None, sn0=None, prev=None, ops=[], exp=[], err=None if st == "ok" else wf)
                if st == "ok":
                    new["sn0"] = new["prev"] = snapshot(wf)
                    im = inv_msg(new["sn0"])
                    if im:
                        msgs.append(f"step {k}: newly constructed object {len(objs)}: {im}")
                    if src["src"] == "dicke":
                        dm = dicke_msg(src, new["sn0"])
                        if dm:
                            msgs.append(f"step {k}: construction number {len(objs) + 1}: {dm}")
                    if first is None:
                        first = new["sn0"]
                    elif new["sn0"] != first:
                        msgs.append(f"step {k}: construction number {len(objs) + 1} of the same call holds {new['sn0']['a']}, "
                                    f"the first one held {first['a']}")
                    if any(o["ops"] and any(x is not None for x in o["ops"]) for o in objs):
                        n_late += 1
                else:
                    if new["err"] != "ValueError":
                        return dict(chk="false", oracle_ok=False, oracle_msg=f"step {k}: constructor raised {wf}", kind="multi")
                    if first is not None or src["src"] in ("dicke", "zero", "list", "load"):
                        msgs.append(f"step {k}: construction number {len(objs) + 1} of {src} raised {wf}"
                                    + (" although the same call succeeded before" if first is not None else ""))
            else:
                j = stp["obj"]
                if j >= len(objs) or objs[j]["wf"] is None:
                    continue
                touched = j
                st, res = apply_op(objs[j]["wf"], stp["op"])
                if st != "ok" and OUT.get(res) is None:
                    return dict(chk="false", oracle_ok=False, oracle_msg=f"step {k} {stp} raised {res}", kind="multi")
            for i, o in enumerate(objs):
                if o["wf"] is None:
                    continue
                after = snapshot(o["wf"])
                if i == touched:
                    o["ops"].append(stp["op"])
                    if st == "ok":
                        n_ok += 1
                        o["exp"].append(cpair("Ok", state_coq(after)))
                    else:
                        n_err += 1
                        o["exp"].append(cpair(OUT[res], state_coq(after)))
                        if after != o["prev"]:
                            msgs.append(f"step {k}: {stp['op']} on object {i} raised {res} but changed it from {o['prev']['a']} to {after['a']}")
                    im = inv_msg(after)
                    if im:
                        msgs.append(f"step {k}: object {i} after {stp['op']}: {im}")
                else:
                    o["ops"].append(None)
                    o["exp"].append(cpair("Ok", state_coq(after)))
                    if after != o["prev"]:
                        what = f"an assignment to object {touched}" if touched is not None else "constructing another object"
                        msgs.append(f"step {k}: {what} changed object {i} from {o['prev']['a']} to {after['a']}")
                o["prev"] = after
            if stp["do"] == "new":
                objs.append(new)
        if recv is not None and snapshot(recv) != recv0:
            msgs.append(f"the receiver / saved object changed from {recv0['a']} to {snapshot(recv)['a']}")
    terms = []
    for o in objs:
        v_d = (o["sn0"] or first or dict(a=[]))["a"] if src["src"] == "dicke" else None
        ops = clist(o["ops"], lambda x: "None" if x is None else f"(Some {op_coq(x)})")
        crt = f"(Some {state_coq(o['sn0'])})" if o["sn0"] else "None"
        terms.append(f"({source_coq(src, v_d)}, {ops}, {crt}, {clist(o['exp'])})")
    return dict(chk=f"multi_eqb {clist(terms)}", oracle_ok=not msgs, oracle_msg="; ".join(msgs[:3]),
                kind="multi-" + src["src"], nontrivial=len(objs) >= 2 and n_ok >= 1 and n_late >= 1)

RUN = dict(multi=run_multi, history=run_history, create=run_create, probs=run_probs, flip=run_flip, ordering=run_ordering,
           flipwf=run_flipwf, saveload=run_saveload, dicke=run_dicke)

def run_case(inp):
    return RUN[inp["kind"]](inp)

def w_f12():
    wf = Wavefunction(np.array([0.5, 0.5, 0.5, 0.5]))
    st, res = outcome(wf.__setitem__, slice(0, 2), [0.9, 0.9])
    left = [complex(x) for x in np.asarray(wf.amplitudes).reshape(-1)]
    bad = st != "err" or left != [0.5, 0.5, 0.5, 0.5]
    return bad, f"wf=[.5,.5,.5,.5]; wf[0:2]=[.9,.9] -> {st} {res}; object afterwards {left}"

def w_f37():
    wf = Wavefunction([1, 0])
    st, res = outcome(wf.__setitem__, slice(0, 2), [0.5, sympy.Symbol("x1")])
    left = [complex(x) for x in np.asarray(wf.amplitudes).reshape(-1)]
    bad = st != "err" or left != [1, 0]
    return bad, f"wf=Wavefunction([1,0]); wf[0:2]=[0.5,x] -> {st} {res}; object afterwards {left}"

def w_f29():
    al, be = sympy.Symbol("x1"), sympy.Symbol("x2")
    wf = Wavefunction(sympy.Matrix([al, 0.5, 0.5, be]))
    before = snapshot(wf)
    st, res = outcome(wf.__setitem__, 1, [1.0, 1.0])
    after = snapshot(wf)
    bad = st != "err" or after != before
    return bad, f"wf=Wavefunction(Matrix([a,.5,.5,b])); wf[1]=[1.,1.] -> {st} {res}; object afterwards {after['a']}"

H.main(gen, run_case, {"F12": w_f12, "F29": w_f29, "F37": w_f37})
