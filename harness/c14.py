"""C14 correspondence harness: call histories on runners built on the base classes.

A case is one runner (harness-defined subclasses of BaseCircuitRunner / BaseWavefunctionSimulator /
SymbolicSimulator, optionally wrapped in MeasurementTrackingBackend, possibly twice) and a sequence of
public calls.  After every call the harness records the outcome kind and shape, the counters of every
level, the trace of what the innermost runner executed and the records in every tracker's JSON file;
Coq runs the model (State/Runner.v) over the same history and compares everything (history_eqb).
The oracle re-checks the property text directly on the implementation's behaviour.
"""
import hashlib, json, math, os, shutil, tempfile
import numpy as np
import sympy
from hlib import *
from orquestra.quantum.api.circuit_runner import BaseCircuitRunner
from orquestra.quantum.api.wavefunction_simulator import BaseWavefunctionSimulator
from orquestra.quantum.runners.symbolic_simulator import SymbolicSimulator
from orquestra.quantum.runners.trackers import MeasurementTrackingBackend
from orquestra.quantum.circuits import (Circuit, X, H, Z, T, CNOT, RX, RY, GateOperation, MultiPhaseOperation, CustomGateDefinition,
                                        to_dict, circuit_from_dict)
from orquestra.quantum.measurements import Measurements
from orquestra.quantum.distributions import MeasurementOutcomeDistribution
from orquestra.quantum.wavefunction import Wavefunction
from orquestra.quantum.operators import PauliTerm, PauliSum

HN = Harness("C14", ["OQ.Base.CaseEq", "OQ.State.Runner", "OQ.State.RunnerCases"],
             "one case = one runner and a history of 3-10 public calls; runner kinds: base (recording BaseCircuitRunner "
             "subclass returning n+over shots), sim (BaseWavefunctionSimulator subclass with a random native-kind set, the "
             "default predicate, or SymbolicSimulator), tracker around either (sometimes two deep, with and without "
             "record_bitstrings); calls: run / batch (integer or per-circuit list) / distribution (integer or None) / "
             "get_wavefunction / exact expectation; about 40% of the calls carry invalid arguments (count <= 0, list of the "
             "wrong length, list with a non-positive entry, None for a base runner, unbound symbols, operator wider than the "
             "register); circuits of width 0-3 including empty and idle-qubit ones, symbolic rotations and "
             "MultiPhaseOperation (a non-gate operation; under trackers this is the known finding F28); 30% of the histories "
             "(mostly tracker-wrapped, also nested) use user-defined gates (CustomGateDefinition, exact matrices) where "
             "successive circuits reuse a gate NAME with a different matrix / arity / parameter list; an operation kind of "
             "a user-defined gate is 1000 + a content hash, and every tracker record's circuit is deserialised and "
             "compared with the circuit that was run (structure in the model comparison; ==, structure and unitary in the oracle); non-trivial = at least two successful calls and one rejected call in the history")

THETA = sympy.Symbol("theta")
KIND_NAMES = {"X": 0, "H": 1, "Z": 2, "T": 3, "CNOT": 4, "RX": 5, "RY": 6}
MPO_KIND = 7
ALL_KINDS = list(range(8))
OPERATORS = ["I0", "Z0", "X1", "Z0*Z2", "Z0 + X3", "2*Y1 + Z0"]

# ------------------------------------------------------------------ circuits

def build_circuit(spec):
    nq = spec.get("nq")
    ops = []
    for o in spec["ops"]:
        k = o[0]
        if k == 0: ops.append(X(o[1]))
        elif k == 1: ops.append(H(o[1]))
        elif k == 2: ops.append(Z(o[1]))
        elif k == 3: ops.append(T(o[1]))
        elif k == 4: ops.append(CNOT(o[1], o[2]))
        elif k == 5: ops.append(RX(0.5)(o[1]))
        elif k == 6: ops.append(RY(THETA)(o[1]))
        elif k == 7: ops.append(MultiPhaseOperation(tuple(0.125 * (i + 1) for i in range(2 ** nq))))
        elif k == 8: ops.append(custom_op(o[1], o[2], o[3], o[4]))
        else: raise ValueError(k)
    return Circuit(ops, n_qubits=nq) if nq is not None else Circuit(ops)

# user-defined gates: variants (arity, parametrised?, matrix) that histories put under the SAME gate name in
# successive circuits (a sweep that compiles a unitary into a gate called "rot" at every step); entries are exact
ALPHA = sympy.Symbol("alpha")
_J = sympy.I
CUSTOM_VARIANTS = [
    (1, False, [[0, 1], [1, 0]]),
    (1, False, [[1, 0], [0, -1]]),
    (1, False, [[0, -_J], [_J, 0]]),
    (1, False, [[1, 0], [0, _J]]),
    (1, False, [[0, _J], [1, 0]]),
    (2, False, [[1, 0, 0, 0], [0, 0, 1, 0], [0, 1, 0, 0], [0, 0, 0, 1]]),
    (2, False, [[1, 0, 0, 0], [0, 1, 0, 0], [0, 0, 1, 0], [0, 0, 0, -1]]),
    (2, False, [[1, 0, 0, 0], [0, 1, 0, 0], [0, 0, 0, 1], [0, 0, 1, 0]]),
    (2, False, [[0, 0, 0, 1], [0, _J, 0, 0], [0, 0, 1, 0], [1, 0, 0, 0]]),
    (1, True, [[1, 0], [0, sympy.exp(_J * ALPHA)]]),
    (1, True, [[sympy.exp(_J * ALPHA), 0], [0, 1]]),
    (1, True, [[0, sympy.exp(-_J * ALPHA)], [1, 0]]),
]

def custom_op(name, variant, qubits, param):
    arity, parametrised, rows = CUSTOM_VARIANTS[variant]
    gate_def = CustomGateDefinition(name, sympy.Matrix(rows), (ALPHA,) if parametrised else ())
    args = ((THETA if param == "theta" else param),) if parametrised else ()
    return gate_def(*args)(*qubits)

def kind_of(op):
    """operation kind for the abstraction; a user-defined gate gets 1000 + a hash of its CONTENT (name, arity,
    parameters, matrix), so that same-named definitions with different matrices are different kinds"""
    if isinstance(op, MultiPhaseOperation):
        return MPO_KIND
    g = op.gate
    if g.name in KIND_NAMES:
        return KIND_NAMES[g.name]
    def num(x):
        x = sympy.sympify(x)
        if x.free_symbols:
            return str(x)
        z = complex(x)
        return "%.9f%+.9fj" % (round(z.real, 9) + 0.0, round(z.imag, 9) + 0.0)
    text = repr((g.name, int(g.num_qubits), [num(x) for x in g.params], [num(e) for e in g.matrix]))
    return 1000 + int(hashlib.sha1(text.encode()).hexdigest(), 16) % 10 ** 6

def abstract(circuit):
    return (int(circuit.n_qubits), [kind_of(op) for op in circuit.operations], bool(circuit.free_symbols),
            all(isinstance(op, GateOperation) for op in circuit.operations))

def c_circuit(a):
    return f"(mkC {cz(a[0])} {clist(a[1], cz)} {cbool(a[2])} {cbool(a[3])})"

# ------------------------------------------------------------------ instrumented runners

_ACTIVE = {"log": None, "native": 0}

def _patch_apply(cls):
    orig = cls.apply
    if getattr(orig, "_c14", False):
        return
    def apply(self, vec):
        if _ACTIVE["log"] is not None and not _ACTIVE["native"]:
            _ACTIVE["log"].append(("apply", kind_of(self)))
        return orig(self, vec)
    apply._c14 = True
    cls.apply = apply

_patch_apply(GateOperation)
_patch_apply(MultiPhaseOperation)

class Spy:
    """Mixin remembering the object returned by the last outermost public call on this object
    (nested self-calls, e.g. the default batch loop, do not count; an exception leaves None)."""
    last = None
    _depth = 0
    def _spy(self, fn, *a):
        self._depth += 1
        try:
            r = fn(*a)
        finally:
            self._depth -= 1
        if self._depth == 0:
            self.last = r
        return r
    def run_and_measure(self, circuit, n_samples):
        return self._spy(super().run_and_measure, circuit, n_samples)
    def run_batch_and_measure(self, circuits, n_samples):
        return self._spy(super().run_batch_and_measure, circuits, n_samples)
    def get_measurement_outcome_distribution(self, circuit, n_samples):
        return self._spy(super().get_measurement_outcome_distribution, circuit, n_samples)

class RecBase(Spy, BaseCircuitRunner):
    def __init__(self, over, log):
        super().__init__()
        self.over, self.log, self.produced = over, log, []
    def _run_and_measure(self, circuit, n_samples):
        self.log.append(("run", abstract(circuit), int(n_samples)))
        w = circuit.n_qubits
        m = Measurements([tuple((i * 5 + 3 >> b) & 1 for b in range(w)) for i in range(n_samples + self.over)])
        self.produced.append(m)
        return m

class SimMixin:
    def get_wavefunction(self, circuit, initial_state=None):
        self.log.append(("wf", abstract(circuit)))
        return super().get_wavefunction(circuit, initial_state)

class RecSimPred(Spy, SimMixin, BaseWavefunctionSimulator):
    def __init__(self, native, log, seed, custom_native=False):
        super().__init__(seed=seed)
        self.native, self.log, self.custom_native = set(native), log, custom_native
    def is_natively_supported(self, operation):
        k = kind_of(operation)
        return k in self.native or (self.custom_native and k >= 1000)
    def _get_wavefunction_from_native_circuit(self, circuit, initial_state):
        self.log.append(("seg", True, [kind_of(o) for o in circuit.operations]))
        _ACTIVE["native"] += 1
        try:
            state = initial_state
            for op in circuit.operations:
                state = op.apply(state)
            return state
        finally:
            _ACTIVE["native"] -= 1

class RecSimDefault(RecSimPred):
    """keeps BaseWavefunctionSimulator.is_natively_supported (GateOperation only)"""
    is_natively_supported = BaseWavefunctionSimulator.is_natively_supported

class RecSym(Spy, SimMixin, SymbolicSimulator):
    def __init__(self, log, seed):
        super().__init__(seed=seed)
        self.log = log
    def _get_wavefunction_from_native_circuit(self, circuit, initial_state):
        self.log.append(("seg", True, [kind_of(o) for o in circuit.operations]))
        _ACTIVE["native"] += 1
        try:
            return super()._get_wavefunction_from_native_circuit(circuit, initial_state)
        finally:
            _ACTIVE["native"] -= 1

class RecTracker(Spy, MeasurementTrackingBackend):
    pass

def build_runner(spec, log, tmpdir, depth=0):
    """returns (python runner, Coq literal of the model's initial runner)"""
    k = spec["kind"]
    if k == "base":
        return RecBase(spec["over"], log), f"(RBase {cz(spec['over'])} 0%Z 0%Z)"
    if k == "sim":
        if spec["cls"] == "symbolic":
            return RecSym(log, spec["seed"]), "(RSim (fun _ : Z => true) 0%Z 0%Z)"
        if spec["cls"] == "default":      # every GateOperation (incl. user-defined gates), not MultiPhaseOperation
            return RecSimDefault([], log, spec["seed"]), f"(RSim (fun k : Z => negb (Z.eqb k {cz(MPO_KIND)})) 0%Z 0%Z)"
        cn = bool(spec.get("cn", False))
        pred = f"(native_in {clist(spec['native'], cz)})"
        if cn:
            pred = f"(fun k : Z => orb (native_in {clist(spec['native'], cz)} k) (Z.leb 1000%Z k))"
        return RecSimPred(spec["native"], log, spec["seed"], cn), f"(RSim {pred} 0%Z 0%Z)"
    if k == "tracker":
        inner, lit = build_runner(spec["inner"], log, tmpdir, depth + 1)
        return (RecTracker(inner, os.path.join(tmpdir, f"raw_{depth}.json"), spec.get("bits", False)),
                f"(RTrack 0%Z 0%Z [] [] {lit})")
    raise ValueError(k)

def levels(r):
    out = [r]
    while isinstance(out[-1], MeasurementTrackingBackend):
        out.append(out[-1].inner_backend)
    return out

def leaf_spec(spec):
    while spec["kind"] == "tracker":
        spec = spec["inner"]
    return spec

# ------------------------------------------------------------------ observation helpers

def common_len(items):
    ls = {len(x) for x in items}
    return (ls.pop() if len(ls) == 1 else -1) if ls else -2

def meas_shape(m):
    return (len(m.bitstrings), common_len(m.bitstrings))

def read_file(path):
    """records in the tracker's file: abstract ('M', circuit, shots, keylen) / ('D', circuit, shots) and raw"""
    if not os.path.exists(path):
        return [], []
    return read_records(json.load(open(path))["raw-data"])

def read_records(raw):
    raw = json.loads(json.dumps(raw))
    recs = []
    for e in raw:
        a = abstract(circuit_from_dict(e["circuit"]))
        if e["data_type"] == "measurement":
            recs.append(("M", a, int(e["number_of_shots"]), common_len(list(e["counts"].keys()))))
        else:
            recs.append(("D", a, e["number_of_shots"]))
    return recs, raw

def c_record(r):
    if r[0] == "M":
        return f"(RecM {c_circuit(r[1])} ({cz(r[2])}, {cz(r[3])}))"
    return f"(RecD {c_circuit(r[1])} {copt(r[2], cz)})"

def to_segments(log):
    """raw log -> model events; consecutive non-native applications form one segment"""
    ev, cur = [], None
    for e in log:
        if e[0] == "apply":
            if cur is None:
                cur = []
                ev.append(("seg", False, cur))
            cur.append(e[1])
        else:
            cur = None
            ev.append(e)
    return ev

def c_event(e):
    if e[0] == "run":
        return f"(ERun {c_circuit(e[1])} {cz(e[2])})"
    if e[0] == "wf":
        return f"(EWf {c_circuit(e[1])})"
    return f"(ESeg {cbool(e[1])} {clist(e[2], cz)})"

def unitary_of(circuit):
    st, u = outcome(lambda: np.array(circuit.to_unitary().tolist(), dtype=complex), timeout=20)
    return u if st == "ok" else None

def recorded_circuit_diff(entry, circuit):
    """compare the circuit stored in a tracker record (deserialised) with the circuit that was run"""
    st, got = outcome(circuit_from_dict, entry, timeout=20)
    if st != "ok":
        return f"recorded circuit cannot be deserialised ({got})"
    if got != circuit:
        detail = ""
        for i, (o1, o2) in enumerate(zip(got.operations, circuit.operations)):
            if o1 != o2:
                m1, m2 = (getattr(getattr(o, "gate", None), "matrix", None) for o in (o1, o2))
                detail = f" (operation {i}: recorded {o1} with matrix {m1}, run {o2} with matrix {m2})"
                break
        return f"recorded circuit deserialises to a different circuit: {got} instead of {circuit}{detail}"
    if abstract(got) != abstract(circuit):
        return "recorded circuit has a different structure"
    if not circuit.free_symbols and 0 < circuit.n_qubits <= 3:
        u1 = unitary_of(circuit)
        if u1 is not None:
            u2 = unitary_of(got)
            if u2 is None or u1.shape != u2.shape or not np.allclose(u1, u2, atol=1e-9):
                return "recorded circuit has a different unitary"
    return None

def amplitudes_symbol_free(circuit):
    """does the state prepared from |0..0> have numeric amplitudes although the circuit has free symbols?
    (independent computation on a fresh SymbolicSimulator, not logged)"""
    saved, _ACTIVE["log"] = _ACTIVE["log"], None
    try:
        st, wf = outcome(lambda: SymbolicSimulator().get_wavefunction(circuit), timeout=30)
    finally:
        _ACTIVE["log"] = saved
    return st == "ok" and not wf.free_symbols

ERRS = {"ValueError": "ValueError", "TypeError": "TypeErr", "Other:AttributeError": "AttrError"}

# ------------------------------------------------------------------ generator

def add_custom_ops(rng, spec, custom, allow_free):
    """insert 1-2 user-defined gate operations; custom = list of gate names of this history; the variant
    (matrix, arity, parameter list) under a name changes from circuit to circuit"""
    width = spec["nq"] if spec.get("nq") is not None else (max(max(o[1:]) for o in spec["ops"]) + 1 if spec["ops"] else 0)
    if width < 1 or any(o[0] == 7 for o in spec["ops"]):
        return spec
    ops = list(spec["ops"])
    for name in rng.sample(custom, rng.randint(1, len(custom))):
        fit = [i for i, v in enumerate(CUSTOM_VARIANTS) if v[0] <= width]
        v = rng.choice(fit)
        arity, parametrised, _ = CUSTOM_VARIANTS[v]
        qubits = rng.sample(range(width), arity)
        param = None
        if parametrised:
            param = "theta" if (allow_free and rng.random() < 0.3) else rng.choice([0.5, 0.25, 1.5])
        ops.insert(rng.randint(0, len(ops)), [8, name, v, qubits, param])
    out = dict(spec, ops=ops)
    out["nq"] = width
    return out

def gen_circuit(rng, allow_mpo, allow_free):
    r = rng.random()
    if r < 0.05:
        return dict(ops=[])                                   # Circuit(): width 0
    if r < 0.15:
        return dict(ops=[], nq=rng.choice([0, 1, 2, 2, 3, 3]))  # empty circuit on a register
    nq = rng.randint(1, 3)
    ops = []
    for _ in range(rng.randint(1, 6)):
        k = rng.choice([0, 1, 2, 3, 4, 5] + ([6] if allow_free and rng.random() < 0.5 else []) + ([7, 7] if allow_mpo else []))
        if k == 4:
            if nq < 2:
                k = 0
            else:
                a, b = rng.sample(range(nq), 2)
                ops.append([4, a, b]); continue
        ops.append([k] if k == 7 else [k, rng.randrange(nq)])
    spec = dict(ops=ops, nq=nq)
    if not any(o[0] == 7 for o in ops) and rng.random() < 0.5:
        # let the width come from the highest index used (idle qubits below it stay idle)
        width = max(max(o[1:]) for o in ops) + 1
        if rng.random() < 0.5:
            spec = dict(ops=ops)
        else:
            spec = dict(ops=ops, nq=width + rng.randint(0, 1))
    return spec

def gen_runner(rng):
    r = rng.random()
    if r < 0.3:
        return dict(kind="base", over=rng.choice([0, 0, 1, 2, 5]))
    if r < 0.65:
        cls = rng.choice(["pred", "pred", "pred", "default", "symbolic"])
        return dict(kind="sim", cls=cls, seed=rng.randint(0, 10 ** 6), cn=rng.random() < 0.5,
                    native=sorted(rng.sample(ALL_KINDS, rng.randint(0, 8))) if cls == "pred" else [])
    inner = gen_runner(rng)
    while inner["kind"] == "tracker" and inner["inner"]["kind"] == "tracker":
        inner = gen_runner(rng)
    return dict(kind="tracker", bits=rng.random() < 0.4, inner=inner)

def gen_call(rng, rspec, custom=None):
    leaf = leaf_spec(rspec)
    tracked = rspec["kind"] == "tracker"
    is_sim = leaf["kind"] == "sim"
    # to_dict cannot serialise MultiPhaseOperation: under a tracker such circuits hit the known finding F28
    def circ(free=None):
        allow_free = rng.random() < 0.2 if free is None else free
        if custom:      # the user-defined-gate stream: no MultiPhaseOperation, most circuits carry a custom gate
            spec = gen_circuit(rng, False, allow_free)
            return add_custom_ops(rng, spec, custom, allow_free) if rng.random() < 0.8 else spec
        return gen_circuit(rng, rng.random() < (0.1 if tracked else 0.6 if is_sim else 0.3), allow_free)
    def numeric_custom(spec):
        # For the EXACT distribution / expectation value the model assumes "free symbols => TypeError" (the final
        # amplitudes are symbolic).  That holds when the symbol enters through a rotation RY(theta); a phase or
        # permutation gate with a symbolic parameter can leave every amplitude numeric (0 * exp(I*theta) == 0), and
        # then the library succeeds.  Those calls get their user-defined gates with numeric parameters only.
        return dict(spec, ops=[(o[:4] + [0.5]) if (o[0] == 8 and o[4] == "theta") else o for o in spec["ops"]])
    bad = rng.random() < 0.4
    r = rng.random()
    if r < 0.3:
        return dict(op="run", c=circ(), n=rng.choice([0, -1, -7]) if bad else rng.randint(1, 9))
    if r < 0.65:
        k = rng.choice([0, 1, 2, 2, 3, 4])
        cs = [circ() if rng.random() < 0.9 else circ(True) for _ in range(k)]
        if rng.random() < 0.4:
            return dict(op="batch", cs=cs, n=rng.choice([0, -2]) if bad else rng.randint(1, 6))
        ns = [rng.randint(1, 9) for _ in range(k)]
        if bad:
            m = rng.random()
            if m < 0.35 and k:
                ns[rng.randrange(k)] = rng.choice([0, -3])
            elif m < 0.7:
                ns = ns[:-1] if (k and rng.random() < 0.5) else ns + [rng.randint(1, 4)]
            elif k:
                ns = ns[:-1] + [0] + [2]                     # both wrong length and a bad entry
            else:
                ns = [0]
        return dict(op="batch", cs=cs, ns=ns)
    if r < 0.85:
        if rng.random() < 0.3:
            return dict(op="dist", c=numeric_custom(circ()), n=None)
        return dict(op="dist", c=circ(), n=rng.choice([0, -4]) if bad else rng.randint(1, 9))
    if not is_sim and rng.random() < 0.7:
        return dict(op="run", c=circ(), n=rng.randint(1, 9))
    if rng.random() < 0.5:
        return dict(op="wf", c=circ())
    return dict(op="exact", c=numeric_custom(circ()), operator=rng.choice(OPERATORS))

def gen(rng, tier):
    n = {"quick": 500, "search": 300}.get(tier, 10000)
    for _ in range(n):
        rspec = gen_runner(rng)
        custom = None
        if rng.random() < 0.3:
            # user-defined gates, mostly behind a tracker; gate names are unique to the history so that a case
            # never depends on what an earlier case serialised
            while rspec["kind"] != "tracker" and rng.random() < 0.85:
                rspec = gen_runner(rng)
            tag = "%05x" % rng.randrange(16 ** 5)
            custom = [f"rot_{tag}"] + ([f"u_{tag}"] if rng.random() < 0.4 else [])
        calls = [gen_call(rng, rspec, custom) for _ in range(rng.randint(3, 10))]
        yield dict(runner=rspec, calls=calls)

# ------------------------------------------------------------------ one case

def runner_label(spec):
    if spec["kind"] == "tracker":
        return "tracker(" + runner_label(spec["inner"]) + ")"
    return spec["kind"] if spec["kind"] == "base" else "sim-" + spec["cls"]

def run_case(inp):
    tmpdir = tempfile.mkdtemp(prefix="c14_", dir="/var/tmp")
    try:
        return _run_case(inp, tmpdir)
    finally:
        _ACTIVE["log"] = None
        shutil.rmtree(tmpdir, ignore_errors=True)

def _run_case(inp, tmpdir):
    log = []
    runner, runner_lit = build_runner(inp["runner"], log, tmpdir)
    lv = levels(runner)
    leaf = lv[-1]
    leaf_is_base = isinstance(leaf, RecBase)
    trackers = [x for x in lv if isinstance(x, MeasurementTrackingBackend)]
    fails = []          # (tag, message); tag "F6" marks the known zero-width observation
    calls_lit, obs_lit = [], []
    unmodelled = None
    outside = None      # the history leaves the domain the model is stated for (see props/C14.json, assumptions)
    n_ok = n_rejected = 0
    f28_seen = [False] * len(trackers)      # a non-gate circuit already made this tracker fail while recording
    _ACTIVE["log"] = log

    def check_width(what, got, circuit):
        if got != circuit.n_qubits:
            tag = "F6" if (circuit.n_qubits == 0 and got == 1) else "width"
            fails.append((tag, f"{what}: bitstrings of length {got} for a register of {circuit.n_qubits} qubits"))

    for idx, call in enumerate(inp["calls"]):
        op = call["op"]
        before_cnt = [(x.n_circuits_executed, x.n_jobs_executed) for x in lv]
        before_files = [read_file(t.raw_data_file_name) for t in trackers]
        before_pending = [read_records(t.raw_data)[1] for t in trackers]
        del log[:]
        produced_before = len(leaf.produced) if leaf_is_base else 0
        for x in lv:
            x.last = None
        invalid = False
        if op == "run":
            c = build_circuit(call["c"]); n = call["n"]
            invalid = n <= 0
            st, out = outcome(runner.run_and_measure, c, n, timeout=30)
            lit = f"(Run {c_circuit(abstract(c))} {cz(n)})"
        elif op == "batch":
            cs = [build_circuit(s) for s in call["cs"]]
            if "n" in call:
                n = call["n"]; invalid = n <= 0
                want = [n] * len(cs)
                st, out = outcome(runner.run_batch_and_measure, cs, n, timeout=60)
                spec_lit = f"(One {cz(n)})"
            else:
                ns = list(call["ns"]); invalid = len(ns) != len(cs) or any(x <= 0 for x in ns)
                want = ns
                st, out = outcome(runner.run_batch_and_measure, cs, ns, timeout=60)
                spec_lit = f"(Many {clist(ns, cz)})"
            lit = f"(Batch {clist([c_circuit(abstract(c)) for c in cs])} {spec_lit})"
        elif op == "dist":
            c = build_circuit(call["c"]); n = call["n"]
            invalid = (n is not None and n <= 0) or (n is None and leaf_is_base)
            st, out = outcome(runner.get_measurement_outcome_distribution, c, n, timeout=30)
            lit = f"(Dist {c_circuit(abstract(c))} {copt(n, cz)})"
        elif op == "wf":
            c = build_circuit(call["c"])
            st, out = outcome(lambda: runner.get_wavefunction(c), timeout=30)
            lit = f"(Wavefn {c_circuit(abstract(c))})"
        elif op == "exact":
            c = build_circuit(call["c"])
            o = call["operator"]
            oper = PauliSum(o) if "+" in o else PauliTerm(o)
            st, out = outcome(lambda: runner.get_exact_expectation_values(c, oper), timeout=30)
            lit = f"(Exact {c_circuit(abstract(c))} {cz(oper.n_qubits)})"
        else:
            raise ValueError(op)
        if (op == "exact" or (op == "dist" and n is None)) and not leaf_is_base and c.free_symbols \
                and amplitudes_symbol_free(c):
            outside = f"call {idx} {op}: free symbols {sorted(map(str, c.free_symbols))} drop out of the amplitudes"
        calls_lit.append(lit)
        events = to_segments(list(log))
        after_cnt = [(x.n_circuits_executed, x.n_jobs_executed) for x in lv]
        after_files = [read_file(t.raw_data_file_name) for t in trackers]
        after_pending = [read_records(t.raw_data) for t in trackers]
        call_circuits = cs if op == "batch" else [c]
        nongate = any(not abstract(ci)[3] for ci in call_circuits)
        where = f"call {idx} {op}"

        # ---- shape of the outcome (for the model comparison)
        if st == "err":
            if out in ERRS:
                out_lit = f"(OErr {ERRS[out]})"
            else:
                out_lit = "OVal"
                unmodelled = f"{where}: raised {out}"
                fails.append(("error", unmodelled))
        elif op == "run" and isinstance(out, Measurements):
            out_lit = f"(OMeas ({cz(meas_shape(out)[0])}, {cz(meas_shape(out)[1])}))"
        elif op == "batch" and isinstance(out, list) and all(isinstance(m, Measurements) for m in out):
            out_lit = "(OBatch " + clist([f"({cz(meas_shape(m)[0])}, {cz(meas_shape(m)[1])})" for m in out]) + ")"
        elif op == "dist" and isinstance(out, MeasurementOutcomeDistribution):
            out_lit = f"(ODist {cz(common_len(list(out.distribution_dict.keys())))})"
        elif op == "wf" and isinstance(out, Wavefunction):
            out_lit = f"(OWf {cz(int(round(math.log2(len(out.amplitudes)))))})"
        elif op == "exact" and (isinstance(out, (int, float)) or hasattr(out, "dtype")):
            out_lit = "OVal"
        else:
            out_lit = "OVal"
            unmodelled = f"{where}: returned {type(out).__name__}"
            fails.append(("type", unmodelled))
        obs_lit.append("(" + ", ".join([out_lit, clist([c_event(e) for e in events]),
                                        clist([f"({cz(a)}, {cz(b)})" for a, b in after_cnt]),
                                        clist([clist([c_record(r) for r in f[0]]) for f in after_files]),
                                        clist([clist([c_record(r) for r in f[0]]) for f in after_pending])]) + ")")

        # ---- oracle: the property text, directly
        # (1) invalid arguments are rejected with ValueError before anything runs
        if invalid:
            n_rejected += 1
            if st != "err" or out != "ValueError":
                fails.append(("reject", f"{where}: invalid arguments {json.dumps(call)[:120]} gave {st} {out if st == 'err' else type(out).__name__}"))
            if log:
                fails.append(("reject", f"{where}: something was executed for invalid arguments: {log[:3]}"))
            if after_cnt[-1] != before_cnt[-1]:
                fails.append(("reject", f"{where}: counters of the base runner changed on a rejected call {before_cnt[-1]} -> {after_cnt[-1]}"))
            if [f[1] for f in after_files] != [f[1] for f in before_files]:
                fails.append(("reject", f"{where}: tracker file changed on a rejected call"))
        # (2) shape of successful results
        if st == "ok":
            n_ok += 1
            if op == "run":
                if len(out.bitstrings) < n:
                    fails.append(("shots", f"{where}: {len(out.bitstrings)} shots for {n} requested"))
                check_width(where, meas_shape(out)[1], c)
            if op == "batch":
                if len(out) != len(cs):
                    fails.append(("batch", f"{where}: {len(out)} results for {len(cs)} circuits"))
                for i, (ci, ni, mi) in enumerate(zip(cs, want, out)):
                    if len(mi.bitstrings) < ni:
                        fails.append(("shots", f"{where}: circuit {i}: {len(mi.bitstrings)} shots for {ni} requested"))
                    check_width(f"{where} circuit {i}", meas_shape(mi)[1], ci)
                if leaf_is_base:
                    got = [(e[1], e[2]) for e in log]
                    exp = [(abstract(ci), ni) for ci, ni in zip(cs, want)]
                    if got != exp:
                        fails.append(("order", f"{where}: executed {got} for requests {exp}"))
                    if len(out) != len(leaf.produced) - produced_before or any(a is not b for a, b in zip(out, leaf.produced[produced_before:])):
                        fails.append(("order", f"{where}: returned objects are not the executed ones, in order"))
            if op == "dist" and n is not None:
                check_width(where, common_len(list(out.distribution_dict.keys())), c)
        # (3) counters: never decrease; base runner / simulator: grow by the work in the trace
        for lev, (b, a) in enumerate(zip(before_cnt, after_cnt)):
            if a[0] < b[0] or a[1] < b[1]:
                fails.append(("counter", f"{where}: counters of level {lev} decreased {b} -> {a}"))
        if leaf_is_base:
            circuits_run = jobs_run = sum(1 for e in events if e[0] == "run")
        else:
            circuits_run = sum(1 for e in events if e[0] == "seg" and e[1])
            jobs_run = sum(1 for e in events if e[0] == "seg")
        d = (after_cnt[-1][0] - before_cnt[-1][0], after_cnt[-1][1] - before_cnt[-1][1])
        if d != (circuits_run, jobs_run):
            fails.append(("counter", f"{where}: counters grew by {d} but {circuits_run} circuits / {jobs_run} jobs were run"))
        # (4) tracker: passes the inner result through and writes a matching record
        for ti, t in enumerate(trackers):
            inner = lv[ti + 1]
            raised_here = (st == "err") if ti == 0 else (lv[ti].last is None)
            res_here = out if ti == 0 else lv[ti].last
            stale = before_pending[ti]
            if op in ("run", "batch", "dist") and raised_here and inner.last is not None:
                fails.append(("F28" if nongate else "tracker",
                              f"{where}: tracker level {ti} raised although the wrapped runner returned a result"))
                f28_seen[ti] = f28_seen[ti] or nongate
                if after_pending[ti][1] != stale:
                    fails.append(("F28" if nongate else "tracker",
                                  f"{where}: tracker level {ti} keeps {len(after_pending[ti][1])} records of the failed call in raw_data"))
            if op in ("run", "batch", "dist") and not raised_here:
                if res_here is not inner.last:
                    fails.append(("tracker", f"{where}: tracker level {ti} did not return the wrapped runner's object"))
                raw = after_files[ti][1]
                if stale:
                    fails.append(("F28" if (f28_seen[ti] and raw[:len(stale)] == stale) else "tracker",
                                  f"{where}: file of tracker level {ti} starts with {len(stale)} records left over from an earlier failed call"))
                    raw = raw[len(stale):]
                if after_pending[ti][1]:
                    fails.append(("tracker", f"{where}: raw_data of tracker level {ti} not cleared after saving"))
                if op == "run":
                    pairs = [(c, res_here)]
                elif op == "batch":
                    pairs = list(zip(cs, res_here))
                else:
                    pairs = None
                if pairs is not None:
                    if len(raw) != len(pairs):
                        fails.append(("tracker", f"{where}: {len(raw)} records for {len(pairs)} results"))
                    for ri, (rec, (ci, mi)) in enumerate(zip(raw, pairs)):
                        exp = dict(data_type="measurement", device=type(inner).__name__,
                                   circuit=rec.get("circuit"), counts=mi.get_counts(),
                                   number_of_gates=len(ci.operations), number_of_shots=len(mi.bitstrings))
                        if t.record_bitstrings:
                            exp["bitstrings"] = [list(map(int, b)) for b in mi.bitstrings]
                        if rec != exp:
                            bad = [k for k in set(rec) | set(exp) if rec.get(k) != exp.get(k)]
                            fails.append(("tracker", f"{where}: record {ri} differs from the returned measurement in {bad}"))
                        diff = recorded_circuit_diff(rec.get("circuit"), ci)
                        if diff:
                            fails.append(("tracker", f"{where}: record {ri}: {diff}"))
                else:
                    exp = dict(data_type="measurement outcome distribution", device=type(inner).__name__,
                               circuit=raw[0].get("circuit") if raw else None, distribution=repr(res_here),
                               number_of_gates=len(c.operations), number_of_shots=n)
                    if raw != [exp]:
                        fails.append(("tracker", f"{where}: distribution record differs from the returned object"))
                    else:
                        diff = recorded_circuit_diff(raw[0].get("circuit"), c)
                        if diff:
                            fails.append(("tracker", f"{where}: distribution record: {diff}"))
            elif raised_here and after_files[ti][1] != before_files[ti][1]:
                fails.append(("tracker", f"{where}: tracker file changed although the call raised"))

    chk = "false" if unmodelled else f"history_eqb {runner_lit} {clist(calls_lit)} {clist(obs_lit)}"
    if outside and not unmodelled:
        chk = None      # oracle only: the model assumes that the exact distribution / expectation of such a circuit raises
    other = [m for t, m in fails if t not in ("F6", "F28")]
    f6 = [m for t, m in fails if t == "F6"]
    f28 = [m for t, m in fails if t == "F28"]
    return dict(chk=chk, oracle_ok=not fails, oracle_msg="; ".join((other or f28 or f6)[:4]),
                sig=None if (other or not fails) else ("F28" if f28 else "F6"),
                kind=("outside-model:" if outside else "") + runner_label(inp["runner"]) + ("+custom" if '"rot_' in json.dumps(inp["calls"]) else "")
                + ("+F6" if f6 else "") + ("+F28" if f28 else ""),
                nontrivial=n_ok >= 2 and n_rejected >= 1)

# ------------------------------------------------------------------ witnesses

def w_f25():
    class R(BaseCircuitRunner):
        def _run_and_measure(self, circuit, n_samples):
            return Measurements([(0,)] * n_samples)
    st1, o1 = outcome(R().run_batch_and_measure, [], -2)
    st2, o2 = outcome(R().run_batch_and_measure, [], 0)
    bad = not (st1 == "err" and o1 == "ValueError" and st2 == "err" and o2 == "ValueError")
    return bad, f"run_batch_and_measure([], -2) -> {st1} {o1}; run_batch_and_measure([], 0) -> {st2} {o2}"

def w_f6():
    bs = SymbolicSimulator(seed=1).run_and_measure(Circuit(), 3).bitstrings
    bad = any(len(b) != 0 for b in bs)
    return bad, f"SymbolicSimulator().run_and_measure(Circuit(), 3).bitstrings = {bs}"

def w_f28():
    d = tempfile.mkdtemp(prefix="c14_w_", dir="/var/tmp")
    try:
        f = os.path.join(d, "raw.json")
        t = MeasurementTrackingBackend(SymbolicSimulator(seed=1), f)
        st1, o1 = outcome(t.run_batch_and_measure, [Circuit([X(0)]), Circuit([MultiPhaseOperation((0.1, 0.2))])], 5)
        ran = t.inner_backend.n_jobs_executed
        st2, o2 = outcome(t.run_and_measure, Circuit([H(0)]), 3)
        n = len(json.load(open(f))["raw-data"]) if os.path.exists(f) else None
        bad = not (st1 == "ok" and st2 == "ok" and n == 1)
        return bad, (f"tracker over SymbolicSimulator: run_batch_and_measure([X(0), MultiPhaseOperation], 5) -> {st1} {o1 if st1 == 'err' else ''} "
                     f"after the wrapped runner executed {ran} jobs; the next run_and_measure(H(0), 3) -> {st2}, file holds {n} records for 1 result")
    finally:
        shutil.rmtree(d, ignore_errors=True)

WITNESSES = {"F25": w_f25, "F6": w_f6, "F28": w_f28}

if __name__ == "__main__":
    HN.main(gen, run_case, WITNESSES)
