#!/usr/bin/env python3
"""Translate the circuit (de)serialiser to Gallina, construct by construct (fail-closed: exit code 3 on anything outside
the grammar below; the output is then overwritten by a stub that does not compile).

  circuits/_serde.py   : serialize_expr, _make_symbols_map, deserialize_expr, builtin_gate_by_name, _matrix_to_json,
                         _matrix_from_json, _map_eager, the functools.singledispatch function to_dict with every
                         registered implementation, circuit_from_dict, _gate_operation_from_dict, _gate_from_dict,
                         _builtin_gate_from_dict, _special_gate_from_dict, custom_gate_def_from_dict,
                         _custom_gate_instance_from_dict, circuitset_from_dict
  circuits/_circuit.py : _innermost_gate, _operation_uses_custom_gate, Circuit.collect_custom_gate_definitions
                         (and the signature of Circuit.__init__)
  circuits/_gates.py   : gate_is_parametric; the field declarations of the gate dataclasses (for attribute access,
                         isinstance and constructor calls on the inductive types of Gen/GateModsGen.v, which
                         tr/tr_gates.py generates from the same declarations)              -> Gen/SerdeGen.v

The translation is syntax directed: each accepted construct becomes one piece of Gallina whose meaning is a definition
of coq/Serde/SerdeTrSupport.v (or a let / match / if).  No function is recognised as a whole.
coq/Serde/SerdeGenProofs.v proves, on every run, that the generated definitions agree with the model
coq/Serde/CircuitSerde.v that the C05 theorems are about.

Typing.  Types are static and come from annotations, from the field declarations of the dataclasses and from the
call sites: a function is translated once per tuple of static argument types it is called with (`f_gen`, `f_gen_2`, ..
in the order in which the calls are met); an argument that is a function (a module-level function, the builtin str) is
part of that tuple and is resolved where it is applied.  Entry points: to_dict(obj: any object), circuit_from_dict /
circuitset_from_dict(dict_: a value returned by json.load).  A value of type json stays dynamic inside translated
functions, whatever their annotations say (every operation on it raises what Python raises on a value of the wrong
kind); where it leaves the translated code - a dataclass field, sympy.Symbol / sympify / re.search, a dict key,
Circuit(..) - it is checked against the annotation there (py_as_*: outside the annotated domain the reading says
nothing).
Types: json, str, int, bool, float (int or float), gate parameter, Symbol, Matrix, matrix factory, Gate, GateOperation,
operation, CustomGateDefinition, Circuit, any-object (argument of to_dict), what builtin_gate_by_name returns,
list / tuple / iterable of T (one type: the list of elements), Optional[T], Dict[str, T], Dict[int, T], Union[A, B],
a dict display with literal str keys and json-writable values (a json object), re.Match of the one accepted pattern.

Accepted grammar
  modules     _serde.py: docstring, imports, function definitions; every name bound once; decorators only
              @singledispatch (on to_dict) and @to_dict.register / @to_dict.register(list).  _circuit.py / _gates.py: the
              names used must be bound exactly once at module level by the expected kind of statement.
  statements  x = e | x: T = e | d[k] = v and d.setdefault(k, {})[i] = v on a dict created as {} in the same function
              and not aliased | return e | raise X(<literals / f-string>) (the parts of the f-string are evaluated for
              their exceptions) | if / elif / else (a test on an Optional name narrows it) | for x in e (no break /
              continue / return inside; the locals it re-binds are carried as a tuple; e may be a local bound to a
              generator expression with one for clause, which is then run inside the loop, element by element, as
              Python does) | while t: .. (same, with the fuel as a bound) | try: <return e> except KeyError: pass
              followed by the statements that run when KeyError was caught | pass.
  expressions names, str / int literals, None, module constants of _gates, a if t else b, not, and, == on str / json,
              != on definitions, in / not in (str in json, key in dict), is None / is not None, attributes of objects
              (fields through generated accessors, Gate.name / params / free_symbols through Gen/GateModsGen.v),
              j["k"], d[k], pair[0], j.get(k[, default]), j.endswith(s), d.values(), m.row(i), m.shape, match.group(i),
              dict displays with ** parts, list displays, list comprehensions with conditions, list / tuple / sorted /
              range / int / str / hasattr / isinstance / next(<generator>, None) / map under list-sorted-tuple,
              sorted(.., key=operator.attrgetter(<field>)), re.search(<the one pattern>, s), sympy.Symbol / sympify /
              Matrix, constructor calls of the gate dataclasses / GateOperation / CustomGateDefinition / Circuit,
              calls of translated functions, of the singledispatch function (dispatch = match on the class of the
              argument), of a CustomGateDefinition and of what builtin_gate_by_name returned.
Recursion goes through one root per cycle (to_dict, _gate_from_dict): the other functions of the cycle take the
recursive call as an argument, the root is a Fixpoint on the fuel.
Left out (see the report in props/C05.json): the file functions (load_* / save_*: json text and files), sympy itself
(str, sympify, Matrix, Symbol), CustomGateDefinition.__eq__ / __post_init__, Circuit.__init__.
"""
OUTPUTS = ['SerdeGen.v']      # generated files (the driver uses this to decide which properties depend on this translator)
import ast, os, re
from trlib import *

FORBIDDEN_TEXT = re.compile(r"Admitted|admit|Axiom|Parameter|Conjecture|bypass_check|Unset|\(\*|\*\)|type-in-type|impredicative")
IDENT = re.compile(r"[A-Za-z_][A-Za-z0-9_]*\Z")
BUILTINS = ["str", "list", "tuple", "sorted", "range", "map", "int", "next", "hasattr", "isinstance", "type", "len",
            "KeyError", "ValueError", "NotImplementedError", "TypeError", "None", "True", "False", "dict", "set", "iter"]
EXNS = ["KeyError", "ValueError", "NotImplementedError", "TypeError"]
PATTERN = r"^(.*)\[([0-9]+)\]$"
# result types of the recursive functions (a recursive call is typed before the body is complete); every return of the
# function is checked against it
ROOT_RET = {"to_dict": ("json",), "_gate_from_dict": ("gate",)}

# ------------------------------------------------------------------ types
JSON, STR, INT, BOOL, NONE, FLOAT = ("json",), ("str",), ("int",), ("bool",), ("none",), ("float",)
PARAM, SYMBOL, MATRIX, FACTORY = ("param",), ("symbol",), ("matrix",), ("factory",)
GATE, GATEOP, OP, DEF, CIRC, OBJ, REF = ("gate",), ("gateop",), ("op",), ("def",), ("circ",), ("obj",), ("ref",)
JDICT, REMATCH, EXPRLIKE, ANYITER = ("jdict",), ("rematch",), ("exprlike",), ("anyiter",)
def LIST(t): return ("list", t)
def OPT(t): return ("opt", t)
def DICT(t): return ("dict", t)
def IDICT(t): return ("idict", t)
def SUM(a, b): return ("sum", a, b)
def PAIR(a, b): return ("pair", a, b)
def FNREF(*k): return ("fnref",) + k

def complete(t):
    return t is not None and all(complete(x) for x in t[1:] if isinstance(x, tuple) or x is None)

def cty(t):
    if not complete(t): raise Reject(f"internal: type {t} is not determined")
    k = t[0]
    if k == "list": return f"(list {cty(t[1])})"
    if k == "opt": return f"(option {cty(t[1])})"
    if k == "dict": return f"(list (string * {cty(t[1])}))"
    if k == "idict": return f"(list (Z * {cty(t[1])}))"
    if k == "sum": return f"({cty(t[1])} + {cty(t[2])})%type"
    if k == "pair": return f"({cty(t[1])} * {cty(t[2])})%type"
    m = {"json": "json", "str": "string", "int": "Z", "bool": "bool", "float": "num", "param": "(s_param S)",
         "symbol": "(s_symbol S)", "matrix": "(s_matrix S)", "factory": "(w_factory (gw S))", "gate": "(pygate (gw S))",
         "gateop": "(GateOperation_obj (gw S))", "op": "(pyop S)", "def": "(pydef S)", "circ": "(pycircuit S)",
         "obj": "(pyobj S)", "ref": "(pyref S)", "jdict": "(list (string * json))", "rematch": "(string * string)%type",
         "none": "unit"}
    if k in m: return m[k]
    raise Reject(f"internal: no Coq type for {t}")

def unify(a, b, node):
    """equal up to undetermined parts; the more determined one"""
    if a is None: return b
    if b is None: return a
    if a[0] != b[0] or len(a) != len(b): reject(node, f"type mismatch: {a} vs {b}")
    return (a[0],) + tuple(unify(x, y, node) if (isinstance(x, tuple) or x is None or isinstance(y, tuple)) else
                           (x if x == y else reject(node, f"type mismatch: {a} vs {b}")) for x, y in zip(a[1:], b[1:]))

def need(cond, node, why):
    if not cond: reject(node, why)

def src(node):
    t = " ".join(ast.unparse(node).split("\n")[0].split()).replace("(*", "( *").replace("*)", "* )")
    return "(source elided)" if FORBIDDEN_TEXT.search(t) or '"' in t else t[:150]

def cstr(s, node):
    need(isinstance(s, str) and all(32 <= ord(ch) < 127 and ch != '"' for ch in s), node, "string literal outside printable ASCII / with a quote")
    return f'"{s}"%string'

# ------------------------------------------------------------------ computations (what a block of statements becomes)
class Ret:                        # the value e
    def __init__(self, text): self.text = text
class Rz:                         # raise
    def __init__(self, exn): self.exn = exn
class Let:                        # let x := e in body          (e can not raise)
    def __init__(self, x, ann, text, body): self.x, self.ann, self.text, self.body = x, ann, text, body
class Bind:                       # evaluate c1, name its value, go on
    def __init__(self, pat, c1, body): self.pat, self.c1, self.body = pat, c1, body
class If:
    def __init__(self, cond, a, b): self.cond, self.a, self.b = cond, a, b
class Match:
    def __init__(self, scrut, cases): self.scrut, self.cases = scrut, cases
class Cmt:
    def __init__(self, text, body): self.text, self.body = text, body
class Eff:                        # a term of type pyres T
    def __init__(self, text): self.text = text
class Comp:                       # py_comp / py_first over xs; inner produces a list
    def __init__(self, fn, xs, pat, inner): self.fn, self.xs, self.pat, self.inner = fn, xs, pat, inner
class For:                        # py_for xs init (fun pat st => body)
    def __init__(self, xs, pat, stpat, init, body): self.xs, self.pat, self.stpat, self.init, self.body = xs, pat, stpat, init, body
class While:                      # py_while fuel (fun st => cond) (fun st => body) init
    def __init__(self, stpat, init, cond, body): self.stpat, self.init, self.cond, self.body = stpat, init, cond, body
class Try:                        # py_try body (fun e => if e is exn then handler else re-raise)
    def __init__(self, body, exn, handler): self.body, self.exn, self.handler = body, exn, handler

def pure(c):
    if isinstance(c, Ret): return True
    if isinstance(c, (Rz, Eff, For, While, Try)): return False
    if isinstance(c, (Let, Cmt)): return pure(c.body)
    if isinstance(c, Bind): return pure(c.c1) and pure(c.body)
    if isinstance(c, If): return pure(c.a) and pure(c.b)
    if isinstance(c, Match): return all(pure(x) for _, x in c.cases)
    if isinstance(c, Comp): return c.fn == "py_comp" and pure(c.inner)
    raise Reject("internal: pure")

def ind(text, n=2):
    return text.replace("\n", "\n" + " " * n)

def emit(c, m):
    """text of computation c: of type pyres T when m (monadic), of type T otherwise (c must be pure)"""
    if isinstance(c, Ret): return f"Val {c.text}" if m else c.text
    if isinstance(c, Rz): return f"Exn {c.exn}"
    if isinstance(c, Eff): return c.text
    if isinstance(c, Cmt): return f"(* {c.text} *)\n{emit(c.body, m)}"
    if isinstance(c, Let):
        return f"let {c.x}{' : ' + c.ann if c.ann else ''} := {c.text} in\n{emit(c.body, m)}"
    if isinstance(c, Bind):
        if pure(c.c1):
            return f"let {c.pat} := ({ind(emit(c.c1, False))}) in\n{emit(c.body, m)}"
        return f"pbind ({ind(emit(c.c1, True))}) (fun {c.pat} =>\n{emit(c.body, m)})"
    if isinstance(c, If):
        return f"if {c.cond} then (\n  {ind(emit(c.a, m))})\nelse (\n  {ind(emit(c.b, m))})"
    if isinstance(c, Match):
        return f"match {c.scrut} with\n" + "\n".join(f"| {p} =>\n  {ind(emit(x, m))}" for p, x in c.cases) + "\nend"
    if isinstance(c, Comp):
        if c.fn == "py_comp" and pure(c.inner):
            t = f"flat_map (fun {c.pat} => {ind(emit(c.inner, False))}) {c.xs}"
            return f"Val ({t})" if m else t
        return f"{c.fn} {c.xs} (fun {c.pat} =>\n  {ind(emit(c.inner, True))})"
    if isinstance(c, For):
        return f"py_for {c.xs} {c.init} (fun {c.pat} {c.stpat} =>\n  {ind(emit(c.body, True))})"
    if isinstance(c, While):
        return (f"py_while fuel (fun {c.stpat} =>\n  {ind(emit(c.cond, True))})\n(fun {c.stpat} =>\n  {ind(emit(c.body, True))})\n{c.init}")
    if isinstance(c, Try):
        return (f"py_try (\n  {ind(emit(c.body, True))})\n(fun exn => if pyx_eqb exn {c.exn} then (\n  {ind(emit(c.handler, True))})\n"
                f"else Exn exn)")
    raise Reject("internal: emit")

def wrap(binds, c):
    for x, c1 in reversed(binds):
        c = Bind(x, c1, c)
    return c

def value(binds, text):
    """the computation: evaluate binds, then the value text"""
    if binds and isinstance(binds[-1][1], (Eff, Comp, If, Match)) and text == binds[-1][0]:
        return wrap(binds[:-1], binds[-1][1])           # pbind e (fun x => Val x)  is  e
    return wrap(binds, Ret(text))

# ------------------------------------------------------------------ modules
class Module:
    def __init__(self, key, path, strict):
        self.key, self.path = key, path
        self.tree = ast.parse(open(path).read())
        self.names = {}          # module-level name -> kind tuple
        self.funcs = {}          # module-level FunctionDef by name
        self.classes = {}
        self.consts = {}         # NAME = "<string literal>"
        self.generic = {}        # singledispatch function -> {"default": FunctionDef, "impls": {slot: FunctionDef}}
        self.binders = {}        # name -> number of module-level statements binding it
        self.scan(strict)

    def bind(self, x, node, kind):
        self.binders[x] = self.binders.get(x, 0) + 1
        self.names[x] = kind

    def scan(self, strict):
        for n in self.tree.body:
            if isinstance(n, ast.Expr) and isinstance(n.value, ast.Constant) and isinstance(n.value.value, str):
                continue
            if isinstance(n, ast.Import):
                for a in n.names:
                    need("." not in (a.asname or a.name), n, "dotted import")
                    self.bind(a.asname or a.name, n, ("import", a.name))
            elif isinstance(n, ast.ImportFrom):
                for a in n.names:
                    need(a.name != "*", n, "star import (may rebind anything)")
                    self.bind(a.asname or a.name, n, ("from", "." * n.level + (n.module or ""), a.name))
            elif isinstance(n, ast.FunctionDef):
                self.bind(n.name, n, ("func", n.name))
                self.funcs[n.name] = n
            elif isinstance(n, ast.ClassDef):
                self.bind(n.name, n, ("class", n.name))
                self.classes[n.name] = n
            elif not strict and isinstance(n, ast.Assign) and len(n.targets) == 1 and isinstance(n.targets[0], ast.Name):
                x = n.targets[0].id
                self.bind(x, n, ("assign", x))
                if isinstance(n.value, ast.Constant) and isinstance(n.value.value, str): self.consts[x] = n.value.value
            elif not strict:
                for m in ast.walk(n):       # anything else at module level: remember what it may bind
                    if isinstance(m, ast.Name) and isinstance(m.ctx, (ast.Store, ast.Del)): self.bind(m.id, n, ("other",))
                    need(not isinstance(m, (ast.Global, ast.Nonlocal)), n, "global / nonlocal at module level")
            else:
                reject(n, "module-level statement not accepted (only imports and function definitions)")
        for x in self.names:
            need(x not in BUILTINS, self.tree, f"the builtin {x} is re-bound at module level of {self.key}")
        if strict:
            for x, k in self.binders.items(): need(k == 1, self.tree, f"{x} is bound {k} times at module level")

    def once(self, x, node):
        need(self.binders.get(x) == 1, node, f"{x} must be bound exactly once at module level of {self.key}.py")

    def is_from(self, x, module, name=None):
        """x is bound by `from <module> import <name>` (and by nothing else)"""
        return self.binders.get(x) == 1 and self.names.get(x) == ("from", module, name or x)

    def is_import(self, x, module):
        return self.binders.get(x) == 1 and self.names.get(x) == ("import", module)

# the classes of _gates.py whose fields are read: name -> does it have a __post_init__ / Coq constructor arity
FAMILY = ["MatrixFactoryGate", "ControlledGate", "Dagger", "Exponential", "Power"]
FIELD_TYPES = {"str": STR, "int": INT, "bool": BOOL, "float": FLOAT, "Gate": GATE, "Tuple[int, ...]": LIST(INT),
               "Tuple[Parameter, ...]": LIST(PARAM), "Callable[..., sympy.Matrix]": FACTORY, "sympy.Matrix": MATRIX,
               "Tuple[sympy.Symbol, ...]": LIST(SYMBOL)}
PROTOCOL_PROPS = {"name": STR, "params": LIST(PARAM), "free_symbols": LIST(SYMBOL)}

class Gates:
    """what is read from circuits/_gates.py"""
    def __init__(self, M):
        self.M = M
        self.fields = {}        # class -> [(field, type)]
        self.post_init = {}
        for c in FAMILY + ["GateOperation", "CustomGateDefinition"]:
            need(c in M.classes, M.tree, f"class {c} not found in _gates.py")
            M.once(c, M.classes[c])
            cd = M.classes[c]
            need([ast.unparse(d) for d in cd.decorator_list] == ["dataclass(frozen=True)"], cd, "a gate class must be decorated exactly @dataclass(frozen=True)")
            fs, meths = [], set()
            for n in strip_docstring(cd.body):
                if isinstance(n, ast.AnnAssign):
                    need(isinstance(n.target, ast.Name), n, "field declaration")
                    t = FIELD_TYPES.get(ast.unparse(n.annotation))
                    need(t is not None, n, f"field annotation {ast.unparse(n.annotation)} not accepted")
                    need(n.value is None or isinstance(n.value, ast.Constant), n, "field default must be a literal")
                    fs.append((n.target.id, t, n.value))
                elif isinstance(n, ast.FunctionDef):
                    need(n.name not in ("__getattr__", "__getattribute__", "__new__", "__init__", "__setattr__"), n, f"{c}.{n.name} changes how fields are read")
                    meths.add(n.name)
                elif isinstance(n, ast.Assign):
                    need(all(isinstance(t, ast.Name) for t in n.targets), n, "class-level statement")
                    meths.update(t.id for t in n.targets)
                else:
                    reject(n, "class-level statement not accepted")
            for f, _, _ in fs: need(f not in meths, cd, f"{c}: {f} is both a field and a method")
            self.fields[c] = fs
            self.post_init[c] = "__post_init__" in meths
        need("Gate" in M.classes, M.tree, "protocol class Gate not found")
        props = {n.name for n in M.classes["Gate"].body if isinstance(n, ast.FunctionDef)
                 and [ast.unparse(d) for d in n.decorator_list] == ["property"]}
        for p in PROTOCOL_PROPS: need(p in props, M.classes["Gate"], f"Gate.{p} is not a property")
        for c in ("CONTROLLED_GATE_NAME", "DAGGER_GATE_NAME", "EXPONENTIAL_GATE_NAME", "POWER_GATE_SYMBOL"):
            M.once(c, M.tree)
            need(c in M.consts, M.tree, f"{c} is not a module-level string constant of _gates.py")

    def pattern(self, c, names):
        """Coq pattern of class c binding the fields listed in names (dict field -> variable)"""
        extra = ["_"] if c == "CustomGateDefinition" else []     # the attribute _n_qubits stored by __post_init__
        return "(" + " ".join([c] + [names.get(f, "_") for f, _, _ in self.fields[c]] + extra) + ")"

    def gate_field(self, f):
        """type of field f over the gate classes that declare it (they must agree), or None"""
        ts = {t for c in FAMILY for g, t, _ in self.fields[c] if g == f}
        need(len(ts) <= 1, self.M.tree, f"field {f} is declared at different types in the gate classes")
        return next(iter(ts)) if ts else None

# ------------------------------------------------------------------ annotations and coercions
def ann(a, M, T):
    """annotation -> type (None when there is no annotation)"""
    if a is None: return None
    text = ast.unparse(a)
    al = lambda x: T.alias(M, x)
    if isinstance(a, ast.Name):
        if a.id in ("str", "int") and a.id not in M.names: return STR if a.id == "str" else INT
        if a.id == "Iterable" and M.is_from("Iterable", "typing"): return ANYITER
        if a.id == "Mapping" and M.is_from("Mapping", "typing"): return JSON
    if isinstance(a, ast.Attribute) and isinstance(a.value, ast.Name):
        m = al(a.value.id)
        if m == "sympy": return {"Expr": EXPRLIKE, "Matrix": MATRIX, "Symbol": SYMBOL}.get(a.attr) or reject(a, "annotation not accepted")
        if m == "_circuit" and a.attr == "Circuit": return CIRC
        if m == "_gates":
            if a.attr in FAMILY or a.attr == "Gate": return GATE
            if a.attr == "GateOperation": return GATEOP
            if a.attr == "CustomGateDefinition": return DEF
        if m == "_builtin_gates" and a.attr == "GateRef": return REF
    if isinstance(a, ast.Subscript) and isinstance(a.value, ast.Name) and M.is_from(a.value.id, "typing"):
        k = a.value.id
        if k in ("Iterable", "List"): return LIST(ann(a.slice, M, T))
        if k == "Dict" and isinstance(a.slice, ast.Tuple) and len(a.slice.elts) == 2:
            kt = ann(a.slice.elts[0], M, T)
            need(kt in (STR, INT), a, "dict keys must be str or int")
            return (DICT if kt == STR else IDICT)(ann(a.slice.elts[1], M, T))
        if k == "Union" and isinstance(a.slice, ast.Tuple) and len(a.slice.elts) == 2:
            x, y = ann(a.slice.elts[0], M, T), ann(a.slice.elts[1], M, T)
            need(x != y, a, "Union of equal types")
            return SUM(x, y)
    reject(a, f"annotation {text} not accepted")

def cast_fn(t, node):
    """Coq function json -> pyres <t>: the annotated domain t of a value that came out of json.load"""
    if t == JSON: return "(fun j => Val j)"
    if t == STR: return "py_as_str"
    if t == INT: return "py_as_int"
    if t == OPT(INT): return "py_as_optint"
    if t == FLOAT: return "py_as_float"
    if t[0] == "list": return f"(py_as_list {cast_fn(t[1], node)})"
    reject(node, f"a value from json.load where a value of type {t} is expected")

def to_json(text, ty, node):
    """a json-writable value as the json tree"""
    if ty == JSON: return text
    if ty == STR: return f"(JStr {text})"
    if ty == INT: return f"(JNum (NInt {text}))"
    if ty == FLOAT: return f"(JNum {text})"
    if ty == JDICT: return f"(JObj {text})"
    if ty == LIST(None) and text == "[]": return "(JArr [])"
    if ty[0] == "list" and complete(ty):
        if ty[1] == JSON: return f"(JArr {text})"
        return f"(JArr (map (fun y => {to_json('y', ty[1], node)}) {text}))"
    reject(node, f"a value of type {ty} is not json-writable")

OBJ_INJ = {CIRC: "Obj_Circuit", LIST(CIRC): "Obj_list", OP: "Obj_Operation", GATE: "Obj_Gate", DEF: "Obj_CustomGateDefinition"}

def coerce(t, ty, pty, F, binds, node):
    """text of a value of static type ty where a value of type pty is expected; checks that can fail are bound"""
    if ty == pty: return t
    if ty is not None and ty[0] == "list" and ty[1] is None and pty[0] == "list": return t            # []
    if ty == JSON and pty == LIST(JSON):
        return F.eff(binds, f"py_iter_json {t}")
    if ty == JSON and pty != OBJ and pty[0] != "sum":
        return F.eff(binds, f"{cast_fn(pty, node)} {t}")
    if ty == LIST(JSON) and pty[0] == "list":
        return F.eff(binds, f"py_each {cast_fn(pty[1], node)} {t}")
    if pty == JSON: return to_json(t, ty, node)
    if pty == OBJ:
        if ty == GATEOP: return f"(Obj_Operation (OpGate {t}))"
        need(ty in OBJ_INJ, node, f"to_dict of a value of type {ty}")
        return f"({OBJ_INJ[ty]} {t})"
    if ty == GATEOP and pty == OP: return f"(OpGate {t})"
    if ty == LIST(GATEOP) and pty == LIST(OP): return f"(map OpGate {t})"
    if ty == REF and pty == GATE: return F.eff(binds, f"py_gate_of_ref {t}")
    if pty[0] == "opt" and ty == pty[1]: return f"(Some {t})"
    if pty[0] == "opt" and ty == NONE: return "None"
    if pty[0] == "sum":
        if ty == pty[1]: return f"(inl {t})"
        if ty == pty[2]: return f"(inr {t})"
    reject(node, f"a value of type {ty} where {pty} is expected")

def param_type(a, aty, node):
    """type of a parameter with annotation type a in the specialisation for an argument of static type aty"""
    if aty is not None and aty[0] == "fnref":
        need(a is None, node, "a function passed for an annotated parameter")
        return aty
    if a is None or aty == JSON:
        # a value from json.load stays dynamic inside translated functions (whatever their annotations say): the
        # annotated domains are checked only where such a value leaves the translated code
        need(aty is not None and complete(aty) and aty not in (NONE, JDICT), node, f"argument type {aty} not determined / not accepted")
        return aty
    if a == EXPRLIKE:
        need(aty in (PARAM, SYMBOL), node, f"a value of type {aty} where a sympy expression is expected")
        return aty
    if a == ANYITER:
        need(aty is not None and aty[0] == "list" and complete(aty), node, f"a value of type {aty} where an iterable is expected")
        return aty
    return a

def cvar(x): return "v_" + x

def vtuple(names):
    if not names: return "tt"
    return "(" + ", ".join(cvar(x) for x in names) + ")" if len(names) > 1 else cvar(names[0])

def vpat(names):
    if not names: return "_"
    return "'(" + ", ".join(cvar(x) for x in names) + ")" if len(names) > 1 else cvar(names[0])

# ------------------------------------------------------------------ one function
class Fn:
    def __init__(self, tr, M, fdef, spec):
        self.tr, self.M, self.fdef, self.spec = tr, M, fdef, spec
        self.fresh = 0
        self.ret = None
        self.gens = {}            # local bound to a generator expression -> (node, env at the binding)
    def tmp(self):
        self.fresh += 1
        return f"x{self.fresh}"
    def eff(self, binds, text):
        x = self.tmp()
        binds.append((x, Eff(text)))
        return x
    def set_ret(self, ty, node):
        self.ret = unify(self.ret, ty, node)

def bind_local(x, ty, env, F, node):
    need(IDENT.match(x) is not None and "__" not in x and x not in BUILTINS, node, f"name {x!r} not accepted as a local")
    need(x not in F.M.names, node, f"local {x} shadows a module-level name")
    return {**env, x: ty}

# ------------------------------------------------------------------ expressions
def truth(e, env, F, binds):
    t, ty = ex(e, env, F, binds)
    if ty == BOOL: return t
    if ty is not None and ty[0] == "list": return f"(py_truth_list {t})"
    if ty == JSON: return f"(py_truth_json {t})"
    reject(e, f"truth value of a value of type {ty} is not modelled")

def narrowing(e, env):
    """a test that narrows an Optional name: -> (name, type in the Some branch, Some-branch-is-true) or None"""
    if isinstance(e, ast.Name) and env.get(e.id) == OPT(REMATCH):        # a Match object is always true
        return e.id, REMATCH, True
    if isinstance(e, ast.Compare) and len(e.ops) == 1 and isinstance(e.ops[0], (ast.Is, ast.IsNot)) and isinstance(e.left, ast.Name) \
            and isinstance(e.comparators[0], ast.Constant) and e.comparators[0].value is None:
        ty = env.get(e.left.id)
        if ty is not None and ty[0] == "opt":
            return e.left.id, ty[1], isinstance(e.ops[0], ast.IsNot)
    if isinstance(e, ast.UnaryOp) and isinstance(e.op, ast.Not):
        n = narrowing(e.operand, env)
        if n is not None: return n[0], n[1], not n[2]
    return None

def branching(test, env, F, binds):
    """-> (mk, env_true, env_false): mk(a, b) is the computation that runs a when the test holds, else b"""
    n = narrowing(test, env)
    if n is not None:
        x, ty, some_is_true = n
        envs = {**env, x: ty}
        if some_is_true:
            return (lambda a, b: Match(cvar(x), [(f"Some {cvar(x)}", a), ("None", b)])), envs, env
        return (lambda a, b: Match(cvar(x), [(f"Some {cvar(x)}", b), ("None", a)])), env, envs
    c = truth(test, env, F, binds)
    return (lambda a, b: If(c, a, b)), env, env

def iterable(e, env, F, binds):
    """an expression that is iterated: -> (text of the list of its elements, element type)"""
    t, ty = ex(e, env, F, binds)
    if ty == JSON: return F.eff(binds, f"py_iter_json {t}"), JSON
    need(ty is not None and ty[0] == "list" and ty[1] is not None, e, f"iteration over a value of type {ty}")
    return t, ty[1]

def clauses(gens, elt, env, F, outer, fn="py_comp"):
    """for clauses with conditions around an element expression -> (computation producing the list, element type)"""
    def clause(k, env, ob):
        if k == len(gens):
            b = []
            t, ty = ex(elt, env, F, b)
            need(ty is not None and ty[0] not in ("none", "fnref", "jdict") and complete(ty), elt, f"comprehension elements of type {ty}")
            return wrap(b, Ret(f"[{t}]")), ty
        g = gens[k]
        need(not g.is_async, g.iter, "async comprehension")
        b = ob if k == 0 else []
        s, ety = iterable(g.iter, env, F, b)
        need(isinstance(g.target, ast.Name), g.target, "comprehension target must be a name")
        env1 = bind_local(g.target.id, ety, env, F, g.target)
        inner, ty = clause(k + 1, env1, None)
        for cnd in reversed(g.ifs):
            cb = []
            c = truth(cnd, env1, F, cb)
            inner = wrap(cb, If(c, inner, Ret("[]")))
        c = Comp(fn if k == 0 else "py_comp", s, cvar(g.target.id), inner)
        return (c if k == 0 else wrap(b, c)), ty
    return clause(0, env, outer)

def comprehension(e, env, F, binds):
    c, ty = clauses(e.generators, e.elt, env, F, binds)
    if pure(c):
        return f"({ind(emit(c, False))})", ty
    x = F.tmp()
    binds.append((x, c))
    return x, ty

def ex(e, env, F, binds, want=None):
    """-> (coq text, type); sub-evaluations that can raise are appended to binds in evaluation order"""
    M, T = F.M, F.tr
    if isinstance(e, ast.Constant):
        if e.value is None: return "tt", NONE
        if isinstance(e.value, str): return cstr(e.value, e), STR
        need(type(e.value) is int and abs(e.value) < 2 ** 62, e, "literal not accepted")
        return f"({e.value})%Z", INT
    if isinstance(e, ast.Name):
        need(isinstance(e.ctx, ast.Load), e, "name in non-load context")
        if e.id in env:
            ty = env[e.id]
            need(ty is not None and ty[0] not in ("dead", "gen"), e, f"{e.id} is not usable here (a stored generator, or bound at different types on the paths that reach this use)")
            return cvar(e.id), ty
        if e.id in M.generic: return None, FNREF("generic", M.key, e.id)
        if e.id in M.funcs:
            M.once(e.id, e)
            return None, FNREF("func", M.key, e.id)
        if e.id == "str" and "str" not in M.names: return None, FNREF("builtin", "str")
        reject(e, "unknown name (or a name that is not a value of the grammar)")
    if isinstance(e, ast.IfExp):
        mk, ea, eb = branching(e.test, env, F, binds)
        ba, bb = [], []
        a, ta = ex(e.body, ea, F, ba, want)
        b, tb = ex(e.orelse, eb, F, bb, want if want is not None else ta)
        ty = unify(ta, tb, e)
        c = mk(value(ba, a), value(bb, b))
        if pure(c): return f"({ind(emit(c, False))})", ty
        x = F.tmp()
        binds.append((x, c))
        return x, ty
    if isinstance(e, ast.UnaryOp):
        need(isinstance(e.op, ast.Not), e, "unary operator not accepted")
        return f"(negb {truth(e.operand, env, F, binds)})", BOOL
    if isinstance(e, ast.BoolOp):
        need(isinstance(e.op, ast.And) and len(e.values) == 2, e, "only `a and b` is accepted")
        a, ta = ex(e.values[0], env, F, binds)
        bb = []
        b, tb = ex(e.values[1], env, F, bb)
        need(ta == BOOL and tb == BOOL, e, "`and` on values that are not bools")
        c = If(a, value(bb, b), Ret("false"))           # b is evaluated only when a is true
        if pure(c): return f"({ind(emit(c, False))})", BOOL
        x = F.tmp()
        binds.append((x, c))
        return x, BOOL
    if isinstance(e, ast.Compare): return compare(e, env, F, binds)
    if isinstance(e, ast.Dict): return dict_display(e, env, F, binds, want)
    if isinstance(e, (ast.List, ast.Tuple)):
        need(isinstance(e.ctx, ast.Load), e, "display in non-load context")
        ty, parts = (want[1] if want is not None and want[0] == "list" else None), []
        for x in e.elts:
            need(not isinstance(x, ast.Starred), x, "starred element in a display")
            t, tx = ex(x, env, F, binds)
            ty = unify(ty, tx, x)
            parts.append(t)
        return "[" + "; ".join(parts) + "]", LIST(ty)
    if isinstance(e, ast.ListComp):
        t, ty = comprehension(e, env, F, binds)
        return t, LIST(ty)
    if isinstance(e, ast.Attribute): return attribute(e, env, F, binds)
    if isinstance(e, ast.Subscript): return subscript(e, env, F, binds)
    if isinstance(e, ast.Call): return call(e, env, F, binds)
    reject(e, "expression not accepted")

def dict_display(e, env, F, binds, want):
    if not e.keys:
        if want is not None and want[0] in ("dict", "idict", "jdict"): return "[]", want
        return "[]", DICT(None)
    acc = "[]"
    for k, v in zip(e.keys, e.values):
        if k is None:
            t, ty = ex(v, env, F, binds, JDICT)
            need(ty == JDICT, v, "** of something that is not a dict display")
            acc = f"(py_dict_update {acc} {t})"
        else:
            need(isinstance(k, ast.Constant) and isinstance(k.value, str), k, "dict display key must be a string literal")
            t, ty = ex(v, env, F, binds)
            acc = f"(py_dict_set {acc} {cstr(k.value, k)} {to_json(t, ty, v)})"
    return acc, JDICT

def compare(e, env, F, binds):
    need(len(e.ops) == 1, e, "chained comparison")
    op = e.ops[0]
    if isinstance(op, (ast.Is, ast.IsNot)):
        need(isinstance(e.comparators[0], ast.Constant) and e.comparators[0].value is None, e, "`is` is accepted against None only")
        a, ta = ex(e.left, env, F, binds)
        if ta == REF: t = F.eff(binds, f"py_ref_is_None {a}")
        elif ta is not None and ta[0] == "opt": t = f"(match {a} with None => true | Some _ => false end)"
        else: reject(e, f"`is None` on a value of type {ta}")
        return (t if isinstance(op, ast.Is) else f"(negb {t})"), BOOL
    a, ta = ex(e.left, env, F, binds)
    b, tb = ex(e.comparators[0], env, F, binds)
    if isinstance(op, (ast.In, ast.NotIn)):
        if ta == STR and tb == JSON: t = F.eff(binds, f"py_in_str_json {a} {b}")
        elif ta == STR and tb is not None and tb[0] == "dict": t = f"(py_dict_has {b} {a})"
        else: reject(e, f"membership of {ta} in {tb} not accepted")
        return (t if isinstance(op, ast.In) else f"(negb {t})"), BOOL
    if isinstance(op, (ast.Eq, ast.NotEq)):
        if ta is None: ta = tb
        if tb is None: tb = ta
        if ta == JSON and tb == STR: t = f"(py_eq_json_str {a} {b})"
        elif ta == STR and tb == JSON: t = f"(py_eq_json_str {b} {a})"
        elif ta == STR and tb == STR: t = f"(String.eqb {a} {b})"
        elif ta == DEF and tb == DEF: t = f"(e_def_eq E {a} {b})"
        else: reject(e, f"comparison of {ta} with {tb} not accepted")
        return (t if isinstance(op, ast.Eq) else f"(negb {t})"), BOOL
    reject(e, "comparison operator not accepted")

def subscript(e, env, F, binds):
    need(isinstance(e.ctx, ast.Load), e, "subscript in non-load context")
    t, ty = ex(e.value, env, F, binds)
    if ty == JSON:
        need(isinstance(e.slice, ast.Constant) and isinstance(e.slice.value, str), e, "a json value is subscripted with string literals only")
        return F.eff(binds, f"py_getitem_str {t} {cstr(e.slice.value, e)}"), JSON
    if ty is not None and ty[0] == "dict":
        k, tk = ex(e.slice, env, F, binds)
        need(tk == STR, e, "dict key must be a str")
        return F.eff(binds, f"py_dict_getitem {t} {k}"), ty[1]          # ty[1] may be undetermined on the first pass over a loop
    if ty is not None and ty[0] == "pair":
        need(isinstance(e.slice, ast.Constant) and e.slice.value in (0, 1), e, "a pair is subscripted with 0 or 1")
        return f"({'fst' if e.slice.value == 0 else 'snd'} {t})", ty[1 + e.slice.value]
    reject(e, f"subscript of a value of type {ty}")

def attribute(e, env, F, binds):
    T, G = F.tr, F.tr.G
    if isinstance(e.value, ast.Name) and e.value.id not in env:
        mod = T.alias(F.M, e.value.id)
        if mod == "_gates":
            if e.attr in ("CONTROLLED_GATE_NAME", "DAGGER_GATE_NAME", "EXPONENTIAL_GATE_NAME", "POWER_GATE_SYMBOL"):
                return f"GateModsGen.{e.attr}", STR
            if e.attr in G.M.funcs:
                G.M.once(e.attr, e)
                return None, FNREF("func", "_gates", e.attr)
        if mod == "_builtin_gates" and e.attr == "builtin_gate_by_name":
            return None, FNREF("support", "builtin_gate_by_name")
        reject(e, "module attribute not accepted")
    t, ty = ex(e.value, env, F, binds)
    a = e.attr
    if ty == CIRC and a in ("n_qubits", "operations"):
        return (f"(pc_n_qubits {t})", INT) if a == "n_qubits" else (f"(pc_operations {t})", LIST(OP))
    if ty == GATE:
        if a in PROTOCOL_PROPS: return f"(Gate_{a}_gen {t})", PROTOCOL_PROPS[a]
        fty = G.gate_field(a)
        need(fty is not None, e, f"no gate class declares a field {a}")
        return F.eff(binds, f"{T.accessor('Gate', a)} {t}"), fty
    if ty in (GATEOP, OP, DEF):
        c = "CustomGateDefinition" if ty == DEF else "GateOperation"
        fty = next((x for f, x, _ in G.fields[c] if f == a), None)
        need(fty is not None, e, f"{c} declares no field {a}")
        if ty == OP: return F.eff(binds, f"{T.accessor('Operation', a)} {t}"), fty
        return f"({T.accessor(c, a)} {t})", fty
    if ty == MATRIX and a == "shape": return f"(s_matrix_shape S {t})", PAIR(INT, INT)
    if ty == FACTORY and a == "gate_definition": return F.eff(binds, f"py_factory_definition {t}"), DEF
    reject(e, f"attribute .{a} of a value of type {ty} not accepted")

# ------------------------------------------------------------------ calls
def plain_args(e, n):
    need(not e.keywords and len(e.args) == n and not any(isinstance(a, ast.Starred) for a in e.args), e, f"{n} plain argument(s) expected")

def star_list(e, env, F, binds, ety):
    """f( *xs ): the one starred argument, a list of ety"""
    need(not e.keywords and len(e.args) == 1 and isinstance(e.args[0], ast.Starred), e, "exactly one starred argument expected")
    t, ty = ex(e.args[0].value, env, F, binds)
    need(ty == LIST(ety), e, f"starred argument of type {ty}")
    return t

def apply_fn(fn, args, F, binds, node):
    """apply the function named by the static reference fn to evaluated arguments [(text, type)]"""
    T = F.tr
    if fn[1] == "builtin" and fn[2] == "str":
        need(len(args) == 1, node, "str of one argument")
        t, ty = args[0]
        if ty == PARAM: return f"(s_str_param S {t})", STR
        if ty == SYMBOL: return f"(s_str_symbol S {t})", STR
        if ty == STR: return t, STR
        reject(node, f"str() of a value of type {ty}")
    if fn[1] == "support" and fn[2] == "builtin_gate_by_name":
        need(len(args) == 1 and args[0][1] == JSON, node, "builtin_gate_by_name of one json value")
        return F.eff(binds, f"py_builtin_gate_by_name S {args[0][0]}"), REF
    if fn[1] in ("func", "generic", "method"):
        return T.call_spec(fn, args, F, binds, node)
    reject(node, f"call of {fn}")

def mapped(e, env, F, binds):
    """map(f, xs) consumed at once -> (text of the list of results, element type)"""
    need(isinstance(e, ast.Call) and isinstance(e.func, ast.Name) and e.func.id == "map" and "map" not in env, e, "internal: mapped")
    plain_args(e, 2)
    _, fn = ex(e.args[0], env, F, binds)
    need(fn is not None and fn[0] == "fnref", e, "map of something that is not a known function")
    xs, ety = iterable(e.args[1], env, F, binds)
    b = []
    r, ty = apply_fn(fn, [("y", ety)], F, b, e)
    c = value(b, r)
    if pure(c): return f"(map (fun y => {ind(emit(c, False))}) {xs})", ty
    return F.eff(binds, f"py_list_map (fun y =>\n  {ind(emit(c, True))}) {xs}"), ty

def is_map_call(a, env):
    return isinstance(a, ast.Call) and isinstance(a.func, ast.Name) and a.func.id == "map" and "map" not in env

def builtin(name, e, env, F, binds):
    T, G = F.tr, F.tr.G
    if name in ("list", "tuple"):
        plain_args(e, 1)
        if is_map_call(e.args[0], env):
            t, ty = mapped(e.args[0], env, F, binds)
            return t, LIST(ty)
        t, ety = iterable(e.args[0], env, F, binds)
        return t, LIST(ety)
    if name == "sorted":
        need(len(e.args) == 1 and not isinstance(e.args[0], ast.Starred) and all(k.arg == "key" for k in e.keywords) and len(e.keywords) <= 1, e, "sorted(xs) / sorted(xs, key=..)")
        if is_map_call(e.args[0], env): t, ety = mapped(e.args[0], env, F, binds)
        else: t, ety = iterable(e.args[0], env, F, binds)
        if not e.keywords:
            need(ety == STR, e, f"sorted() of elements of type {ety} (only strs)")
            return f"(py_sorted_by (fun y => y) {t})", LIST(STR)
        k = e.keywords[0].value
        need(isinstance(k, ast.Call) and isinstance(k.func, ast.Attribute) and isinstance(k.func.value, ast.Name) and k.func.value.id not in env
             and F.M.is_import(k.func.value.id, "operator") and k.func.attr == "attrgetter" and len(k.args) == 1 and not k.keywords
             and isinstance(k.args[0], ast.Constant) and isinstance(k.args[0].value, str), e, "key must be operator.attrgetter(<literal>)")
        need(ety == DEF, e, f"sorted by an attribute of elements of type {ety}")
        fty = next((x for f, x, _ in G.fields["CustomGateDefinition"] if f == k.args[0].value), None)
        need(fty == STR, e, "the sort key must be a str field")
        return f"(py_sorted_by {T.accessor('CustomGateDefinition', k.args[0].value)} {t})", LIST(ety)
    if name == "str":
        plain_args(e, 1)
        return apply_fn(FNREF("builtin", "str"), [ex(e.args[0], env, F, binds)], F, binds, e)
    if name == "range":
        plain_args(e, 1)
        t, ty = ex(e.args[0], env, F, binds)
        need(ty == INT, e, "range() of a non-integer")
        return f"(py_range {t})", LIST(INT)
    if name == "int":
        plain_args(e, 1)
        t, ty = ex(e.args[0], env, F, binds)
        need(ty == STR, e, f"int() of a value of type {ty}")
        return F.eff(binds, f"py_int_of_str {t}"), INT
    if name == "hasattr":
        plain_args(e, 2)
        t, ty = ex(e.args[0], env, F, binds)
        need(ty == GATE and isinstance(e.args[1], ast.Constant) and isinstance(e.args[1].value, str)
             and G.gate_field(e.args[1].value) is not None and e.args[1].value not in PROTOCOL_PROPS, e, "hasattr(<gate>, <name of a dataclass field>)")
        return f"(py_hasattr ({T.accessor('Gate', e.args[1].value)} {t}))", BOOL
    if name == "isinstance":
        plain_args(e, 2)
        t, ty = ex(e.args[0], env, F, binds)
        c = e.args[1]
        need(isinstance(c, ast.Attribute) and isinstance(c.value, ast.Name) and c.value.id not in env and T.alias(F.M, c.value.id) == "_gates", e, "isinstance against a class of _gates")
        if ty == GATE and c.attr in FAMILY:
            return f"(match {t} with {G.pattern(c.attr, {})} => true | _ => false end)", BOOL
        if ty == FACTORY and c.attr == "CustomGateMatrixFactory":
            G.M.once("CustomGateMatrixFactory", e)
            return f"(py_is_custom_factory {t})", BOOL
        reject(e, f"isinstance of a value of type {ty} against {c.attr}")
    if name == "next":
        plain_args(e, 2)
        g = e.args[0]
        need(isinstance(g, ast.GeneratorExp) and len(g.generators) == 1, e, "next(<generator expression with one for clause>, None)")
        need(isinstance(e.args[1], ast.Constant) and e.args[1].value is None, e, "the default of next must be None")
        c, ty = clauses(g.generators, g.elt, env, F, binds, fn="py_first")
        x = F.tmp()
        binds.append((x, c))
        return x, OPT(ty)
    reject(e, f"call of {name} not accepted here")

def construct(cls, e, env, F, binds):
    """C(..) for a dataclass of _gates.py: arguments by position / keyword, in source order"""
    T, G = F.tr, F.tr.G
    fields = G.fields[cls]
    need(not any(isinstance(a, ast.Starred) for a in e.args) and all(k.arg is not None for k in e.keywords) and len(e.args) <= len(fields), e, "constructor arguments")
    slots = {}
    for i, a in enumerate(e.args): slots[fields[i][0]] = (a,) + ex(a, env, F, binds)
    for k in e.keywords:
        need(k.arg in [f for f, _, _ in fields] and k.arg not in slots, e, f"keyword argument {k.arg}")
        slots[k.arg] = (k.value,) + ex(k.value, env, F, binds)
    texts = []
    for f, fty, default in fields:          # checked against the field annotations after all arguments are evaluated
        need(f in slots, e, f"missing constructor argument {f} (defaults are not accepted here)")
        a, t, ty = slots[f]
        texts.append(coerce(t, ty, fty, F, binds, a))
    if cls == "CustomGateDefinition":
        return F.eff(binds, "CustomGateDefinition_new " + " ".join(texts)), DEF
    rty = GATEOP if cls == "GateOperation" else GATE
    if G.post_init[cls]:
        return F.eff(binds, f"of_gates (@{cls}_new (gw S) " + " ".join(texts) + ")"), rty
    return f"(@{cls} (gw S) " + " ".join(texts) + ")", rty

def call(e, env, F, binds):
    M, f, T, G = F.M, e.func, F.tr, F.tr.G
    if isinstance(f, ast.Name) and f.id not in env and f.id not in M.names:
        need(f.id in BUILTINS, e, f"call of the unknown function {f.id}")
        return builtin(f.id, e, env, F, binds)
    if isinstance(f, ast.Attribute) and isinstance(f.value, ast.Name) and f.value.id not in env:
        mod = T.alias(M, f.value.id)
        if mod == "_gates" and f.attr in G.fields: return construct(f.attr, e, env, F, binds)
        if mod == "_circuit" and f.attr == "Circuit":
            need(not e.args and [k.arg for k in e.keywords] == ["operations", "n_qubits"], e, "Circuit(operations=.., n_qubits=..)")
            T.check_circuit_init(e)
            o, to = ex(e.keywords[0].value, env, F, binds)
            n, tn = ex(e.keywords[1].value, env, F, binds)
            o = coerce(o, to, LIST(OP), F, binds, e)
            n = coerce(n, tn, OPT(INT), F, binds, e)
            return F.eff(binds, f"e_Circuit E {o} {n}"), CIRC
        if mod == "sympy":
            if f.attr == "Symbol":
                plain_args(e, 1)
                t, ty = ex(e.args[0], env, F, binds)
                return f"(s_Symbol S {coerce(t, ty, STR, F, binds, e)})", SYMBOL
            if f.attr == "Matrix":
                plain_args(e, 1)
                t, ty = ex(e.args[0], env, F, binds)
                need(ty == LIST(LIST(PARAM)), e, f"sympy.Matrix of a value of type {ty}")
                return F.eff(binds, f"s_Matrix S {t}"), MATRIX
            if f.attr == "sympify":
                need(len(e.args) == 1 and not isinstance(e.args[0], ast.Starred) and [k.arg for k in e.keywords] == ["locals"], e, "sympify(text, locals=map)")
                t, ty = ex(e.args[0], env, F, binds)
                m, tm = ex(e.keywords[0].value, env, F, binds)
                need(tm == DICT(SUM(SYMBOL, IDICT(SYMBOL))), e, f"locals of type {tm}")
                t = coerce(t, ty, STR, F, binds, e)
                return F.eff(binds, f"s_sympify S {t} {m}"), PARAM
        if mod == "re" and f.attr == "search":
            plain_args(e, 2)
            need(isinstance(e.args[0], ast.Constant) and e.args[0].value == PATTERN, e, "re.search with a pattern other than the one the support file gives a meaning to")
            t, ty = ex(e.args[1], env, F, binds)
            if ty == JSON: t, ty = coerce(t, ty, STR, F, binds, e), STR
            need(ty == STR, e, f"re.search in a value of type {ty}")
            return f"(py_re_indexed {t})", OPT(REMATCH)
    if isinstance(f, ast.Attribute) and not (isinstance(f.value, ast.Name) and f.value.id not in env):
        t, ty = ex(f.value, env, F, binds)          # a method call on a value
        if ty == JSON and f.attr == "get":
            need(len(e.args) in (1, 2) and not e.keywords and isinstance(e.args[0], ast.Constant) and isinstance(e.args[0].value, str), e, "j.get(<string literal>[, default])")
            d = "JNull"
            if len(e.args) == 2:
                dt, dty = ex(e.args[1], env, F, binds)
                d = to_json(dt, dty, e)
            return F.eff(binds, f"py_get {t} {cstr(e.args[0].value, e)} {d}"), JSON
        if ty == JSON and f.attr == "endswith":
            plain_args(e, 1)
            a, ta = ex(e.args[0], env, F, binds)
            need(ta == STR, e, "endswith of a non-str")
            return F.eff(binds, f"py_endswith_json {t} {a}"), BOOL
        if ty is not None and ty[0] == "dict" and f.attr == "values":
            plain_args(e, 0)
            need(complete(ty), e, "values() of a dict of unknown type")
            return f"(py_dict_values {t})", LIST(ty[1])
        if ty == MATRIX and f.attr == "row":
            plain_args(e, 1)
            a, ta = ex(e.args[0], env, F, binds)
            need(ta == INT, e, "row of a non-integer")
            return F.eff(binds, f"s_matrix_row S {t} {a}"), LIST(PARAM)
        if ty == REMATCH and f.attr == "group":
            plain_args(e, 1)
            need(isinstance(e.args[0], ast.Constant) and e.args[0].value in (1, 2), e, "group(1) / group(2)")
            return f"({'fst' if e.args[0].value == 1 else 'snd'} {t})", STR
        if ty == CIRC and f.attr == "collect_custom_gate_definitions":
            plain_args(e, 0)
            return T.call_spec(FNREF("method", "_circuit", "Circuit.collect_custom_gate_definitions"), [(t, CIRC)], F, binds, e)
        reject(e, f"method .{f.attr} of a value of type {ty} not accepted")
    t, ty = ex(f, env, F, binds)
    if ty is not None and ty[0] == "fnref":
        need(not any(isinstance(a, ast.Starred) for a in e.args) and all(k.arg is not None for k in e.keywords), e, "starred arguments in a call of a translated function")
        fdef = T.fdef_of(ty, e) if ty[1] != "builtin" and ty[1] != "support" else None
        args = [ex(a, env, F, binds) for a in e.args]
        if e.keywords:
            need(fdef is not None, e, "keyword arguments")
            names = [p.arg for p in fdef.args.args]
            need(len(args) + len(e.keywords) == len(names), e, "wrong number of arguments")
            slots = {}
            for k in e.keywords:
                need(k.arg in names[len(args):] and k.arg not in slots, e, f"keyword argument {k.arg}")
                slots[k.arg] = ex(k.value, env, F, binds)
            args += [slots[n] for n in names[len(args):]]
        return apply_fn(ty, args, F, binds, e)
    if ty == DEF:
        ps = star_list(e, env, F, binds, PARAM)
        return f"(CustomGateDefinition_call_gen py_custom_factory {t} {ps})", GATE
    if ty == REF:
        ps = star_list(e, env, F, binds, PARAM)
        return F.eff(binds, f"py_call_ref {t} {ps}"), GATE
    reject(e, f"call of a value of type {ty}")

# ------------------------------------------------------------------ statements
def store_target(s):
    """(kind, dict name) of a statement that updates a local dict in place: d[k] = v / d.setdefault(k, {})[i] = v"""
    if isinstance(s, ast.Assign) and len(s.targets) == 1 and isinstance(s.targets[0], ast.Subscript):
        b = s.targets[0].value
        if isinstance(b, ast.Name): return "set", b.id
        if isinstance(b, ast.Call) and isinstance(b.func, ast.Attribute) and b.func.attr == "setdefault" and isinstance(b.func.value, ast.Name):
            return "setdefault", b.func.value.id
    return None

def assigned(stmts):
    """locals re-bound or updated in place in the statements (nested blocks included), in source order"""
    out = []
    def add(x):
        if x not in out: out.append(x)
    def visit(s):
        if isinstance(s, (ast.Assign, ast.AugAssign, ast.AnnAssign)):
            for t in (s.targets if isinstance(s, ast.Assign) else [s.target]):
                if isinstance(t, ast.Name): add(t.id)
        st = store_target(s)
        if st is not None: add(st[1])
        for fld in ("body", "orelse", "handlers", "finalbody"):
            for c in getattr(s, fld, []) or []: visit(c)
    for s in stmts: visit(s)
    return out

def always_exits(stmts):
    if not stmts: return False
    s = stmts[-1]
    if isinstance(s, (ast.Return, ast.Raise)): return True
    return isinstance(s, ast.If) and bool(s.orelse) and always_exits(s.body) and always_exits(s.orelse)

def exn_raise(x, env, F, binds, node):
    """raise X(<string literals / f-string>): the parts of the message are evaluated (they may raise), then X is raised"""
    need(isinstance(x, ast.Call) and isinstance(x.func, ast.Name) and x.func.id in EXNS and x.func.id not in env and x.func.id not in F.M.names
         and not x.keywords and len(x.args) <= 1, node, "only `raise <ExceptionClass>(<message>)` is accepted")
    for a in x.args:
        if isinstance(a, ast.Constant) and isinstance(a.value, str): continue
        need(isinstance(a, ast.JoinedStr), node, "the message must be a string literal or an f-string")
        for part in a.values:
            if isinstance(part, ast.Constant): continue
            need(isinstance(part, ast.FormattedValue) and part.format_spec is None and part.conversion == -1, node, "f-string part")
            v = part.value
            if isinstance(v, ast.Call) and isinstance(v.func, ast.Name) and v.func.id == "type" and "type" not in env and "type" not in F.M.names \
                    and len(v.args) == 1 and isinstance(v.args[0], ast.Name) and v.args[0].id in env and not v.keywords:
                continue                                  # type(x) of a local: no effect
            _, ty = ex(v, env, F, binds)                  # formatting a str / json value / number cannot raise
            need(ty in (STR, JSON, INT), node, f"an f-string part of type {ty}")
    return x.func.id

def block(stmts, env, F, k, can_return):
    """statements -> computation; k(env) is what follows the block (None: the block must end in return / raise)"""
    if not stmts:
        need(k is not None, F.fdef, "control can reach the end of a block that must end in return / raise")
        return k(env)
    s, rest = stmts[0], stmts[1:]
    cont = lambda env2: block(rest, env2, F, k, can_return)
    cm = lambda c: Cmt(src(s), c)
    if isinstance(s, ast.Pass):
        return cont(env)
    if isinstance(s, ast.Return):
        need(can_return and not rest and s.value is not None, s, "return inside a loop / a joined branch, followed by statements, or without a value")
        binds = []
        t, ty = ex(s.value, env, F, binds)
        need(ty is not None and ty[0] not in ("fnref", "none", "gen"), s, f"a function returning a value of type {ty}")
        if ty == JDICT: t, ty = to_json(t, ty, s), JSON
        if F.ret is not None and ty != F.ret: t, ty = coerce(t, ty, F.ret, F, binds, s), F.ret
        need(complete(ty), s, "the type of the returned value is not determined")
        F.set_ret(ty, s)
        return cm(value(binds, t))
    if isinstance(s, ast.Raise):
        need(not rest and s.exc is not None and s.cause is None, s, "raise followed by statements / bare raise / raise from")
        binds = []
        x = exn_raise(s.exc, env, F, binds, s)
        return cm(wrap(binds, Rz(x)))
    st = store_target(s)
    if st is not None:
        kind, d = st
        dty = env.get(d)
        need(dty is not None and dty[0] == "dict", s, f"{d} is not a local dict")
        binds = []
        v, tv = ex(s.value, env, F, binds)            # the right-hand side is evaluated first
        tgt = s.targets[0]
        if kind == "set":
            kx, tk = ex(tgt.slice, env, F, binds)
            if tk == JSON: kx, tk = coerce(kx, tk, STR, F, binds, s), STR
            need(tk == STR, s, "dict key must be a str")
            if dty[1] is not None and tv != dty[1]: v, tv = coerce(v, tv, dty[1], F, binds, s), dty[1]
            ty = DICT(unify(dty[1], tv, s))
            return cm(wrap(binds, Let(cvar(d), cty(ty) if complete(ty) else None, f"(py_dict_set {cvar(d)} {kx} {v})", cont({**env, d: ty}))))
        c = tgt.value
        need(len(c.args) == 2 and not c.keywords and isinstance(c.args[1], ast.Dict) and not c.args[1].keys, s, "only d.setdefault(k, {})[i] = v is accepted")
        need(dty[1] is not None and dty[1][0] == "sum" and dty[1][2] == IDICT(tv), s, f"setdefault(..)[..] = .. on a dict of type {dty}")
        kx, tk = ex(c.args[0], env, F, binds)
        ix, ti = ex(tgt.slice, env, F, binds)
        need(tk == STR and ti == INT, s, "setdefault key must be a str, the inner key an int")
        x = F.eff(binds, f"py_setdefault_setitem {cvar(d)} {kx} {ix} {v}")
        return cm(wrap(binds, Let(cvar(d), cty(dty), x, cont(env))))
    if isinstance(s, (ast.Assign, ast.AnnAssign)):
        tgt = s.targets[0] if isinstance(s, ast.Assign) else s.target
        need((isinstance(s, ast.AnnAssign) or len(s.targets) == 1) and isinstance(tgt, ast.Name) and s.value is not None, s, "assignment target not accepted")
        x = tgt.id
        want = ann(s.annotation, F.M, F.tr) if isinstance(s, ast.AnnAssign) else None
        if isinstance(s.value, ast.GeneratorExp):
            need(want is None and len(s.value.generators) == 1 and x not in env, s, "a stored generator expression must have one for clause and a new name")
            binds = []
            it, ety = iterable(s.value.generators[0].iter, env, F, binds)      # the outermost iterable is evaluated now
            F.gens[x] = (s.value, dict(env), it, ety)
            return cm(wrap(binds, cont(bind_local(x, ("gen",), env, F, s))))
        binds = []
        t, ty = ex(s.value, env, F, binds, want)
        need(ty is not None and ty[0] not in ("fnref", "none"), s, f"binding a local to a value of type {ty}")
        if ty == JDICT: t, ty = to_json(t, ty, s), JSON
        if want is not None and ty != want: t, ty = coerce(t, ty, want, F, binds, s), want
        if x in env and env[x] is not None and env[x][0] == "gen": reject(s, f"{x} is a stored generator")
        return cm(wrap(binds, Let(cvar(x), cty(ty) if complete(ty) else None, t, cont(bind_local(x, ty, env, F, s)))))
    if isinstance(s, ast.If):
        return if_stmt(s, rest, env, F, k, can_return)
    if isinstance(s, ast.For):
        return for_stmt(s, env, F, cont)
    if isinstance(s, ast.While):
        return while_stmt(s, env, F, cont)
    if isinstance(s, ast.Try):
        need(not s.orelse and not s.finalbody and len(s.handlers) == 1, s, "only try / one except clause is accepted")
        h = s.handlers[0]
        need(isinstance(h.type, ast.Name) and h.type.id == "KeyError" and "KeyError" not in env and "KeyError" not in F.M.names and h.name is None,
             s, "the except clause must be `except KeyError:`")
        need(len(h.body) == 1 and isinstance(h.body[0], ast.Pass), s, "the handler must be `pass`")
        need(len(s.body) == 1 and isinstance(s.body[0], ast.Return) and can_return, s, "the try body must be one return statement")
        body = block(s.body, env, F, None, True)
        need(bool(rest), s, "statements must follow the try statement")
        return Cmt("try", Try(body, "KeyError", Cmt("KeyError was caught", block(rest, env, F, k, can_return))))
    reject(s, "statement not accepted")

def if_stmt(s, rest, env, F, k, can_return):
    binds = []
    mk, ea, eb = branching(s.test, env, F, binds)
    head = lambda c: Cmt("if " + src(s.test), wrap(binds, c))
    if not rest:
        return head(mk(block(s.body, ea, F, k, can_return), block(s.orelse, eb, F, k, can_return)))
    if always_exits(s.body) and not s.orelse:
        return head(mk(block(s.body, ea, F, None, can_return), block(rest, eb, F, k, can_return)))
    A = [x for x in assigned(list(s.body) + list(s.orelse)) if x in env]
    ends = []
    def kk(e):
        r = Ret(None)
        ends.append((r, e))
        return r
    a = block(s.body, ea, F, kk, False)
    b = block(s.orelse, eb, F, kk, False)
    need(ends, s, "no path falls out of this if statement, yet statements follow")
    kept, env2 = [], dict(env)
    for x in A:
        try:
            t = None
            for _, e in ends: t = unify(t, e[x], s)
            need(complete(t), s, f"the type of {x} is not determined after the branches")
            kept.append(x)
            env2[x] = t
        except Reject:
            env2[x] = ("dead",)
    for r, _ in ends: r.text = vtuple(kept)
    return head(Bind(vpat(kept), mk(a, b), block(rest, env2, F, k, can_return)))

def carried(body, env, F, s, run):
    """the locals bound before a loop that its body re-binds, with types that are stable under the body"""
    for n in ast.walk(s):
        need(not isinstance(n, (ast.Break, ast.Continue, ast.Return, ast.Try)), n, "break / continue / return / try inside a loop")
    need(not s.orelse, s, "loop ... else not accepted")
    C = [x for x in assigned(body) if x in env]
    tys = {x: env[x] for x in C}
    for attempt in range(4):
        saved = F.fresh
        ends = []
        def kk(e):
            ends.append(e)
            return Ret(vtuple(C))
        out = run({**env, **tys}, kk, vtuple(C))
        new = dict(tys)
        for x in C:
            for e in ends: new[x] = unify(new[x], e[x], s)
        if new == tys:
            for x in C: need(complete(tys[x]), s, f"the type of {x} is not determined by the loop")
            return C, tys, out
        tys = new
        F.fresh = saved
    reject(s, "the types of the locals carried by the loop do not stabilise")

def for_stmt(s, env, F, cont):
    need(isinstance(s.target, ast.Name) and s.target.id not in env, s, "the loop target must be a new name")
    binds = []
    gen = None
    if isinstance(s.iter, ast.Name) and env.get(s.iter.id) == ("gen",):
        gnode, genv, it, ety = F.gens[s.iter.id]
        gen = gnode
        y = gnode.generators[0].target
        need(isinstance(y, ast.Name) and y.id not in env, s, "the generator's target must be a new name")
    else:
        it, ety = iterable(s.iter, env, F, binds)
    def run(envl, kk, same):
        if gen is None:
            return block(s.body, bind_local(s.target.id, ety, envl, F, s), F, kk, False)
        # the generator is advanced inside the loop: for y in <source>: if conditions: target = element; body
        env1 = bind_local(y.id, ety, envl, F, s)
        b = []
        t, ty = ex(gen.elt, env1, F, b)
        inner = wrap(b, Let(cvar(s.target.id), None, t, block(s.body, bind_local(s.target.id, ty, env1, F, s), F, kk, False)))
        for cnd in reversed(gen.generators[0].ifs):
            cb = []
            c = truth(cnd, env1, F, cb)
            inner = wrap(cb, If(c, inner, Ret(same)))
        return inner
    C, tys, body = carried(s.body, env, F, s, run)
    pat = cvar(s.target.id) if gen is None else cvar(y.id)
    return Cmt(f"for {src(s.target)} in {src(s.iter)}" + ("" if gen is None else f" = {src(gen)}"),
               wrap(binds, Bind(vpat(C), For(it, pat, vpat(C), vtuple(C), body), cont({**env, **tys}))))

def while_stmt(s, env, F, cont):
    F.spec.needs_fuel = True
    def run(envl, kk, same):
        cb = []
        c = truth(s.test, envl, F, cb)
        return value(cb, c), block(s.body, envl, F, kk, False)
    C, tys, (cond, body) = carried(s.body, env, F, s, run)
    return Cmt(f"while {src(s.test)}", Bind(vpat(C), While(vpat(C), vtuple(C), cond, body), cont({**env, **tys})))

# ------------------------------------------------------------------ checks on a whole function
def check_function(fdef, F):
    par = {}
    for n in ast.walk(fdef):
        for c in ast.iter_child_nodes(n): par[id(c)] = n
    params = {a.arg for a in fdef.args.args}
    pos = lambda n: (n.lineno, n.col_offset)
    rebound = set(assigned(fdef.body))
    for n in ast.walk(fdef):
        need(not isinstance(n, (ast.Lambda, ast.FunctionDef, ast.ClassDef, ast.Global, ast.Nonlocal, ast.NamedExpr, ast.Yield, ast.YieldFrom,
                                ast.Await, ast.With, ast.Delete, ast.AugAssign)) or n is fdef, n, "construct not accepted")
    # (1) a stored generator expression: consumed exactly once, by a for statement; the names it reads are never re-bound
    for x, (g, _, _, _) in F.gens.items():
        uses = [n for n in ast.walk(fdef) if isinstance(n, ast.Name) and n.id == x and isinstance(n.ctx, ast.Load)]
        need(len(uses) == 1 and isinstance(par[id(uses[0])], ast.For) and par[id(uses[0])].iter is uses[0], g,
             f"the stored generator {x} must be consumed exactly once, as the iterable of a for statement")
        need(x not in params and sum(1 for n in ast.walk(fdef) if isinstance(n, ast.Name) and n.id == x and isinstance(n.ctx, ast.Store)) == 1, g, f"{x} is bound more than once")
        own = {t.id for c in g.generators for t in ast.walk(c.target) if isinstance(t, ast.Name)}
        for n in ast.walk(g):
            if isinstance(n, ast.Name) and isinstance(n.ctx, ast.Load) and n.id not in own:
                need(n.id not in rebound, n, f"a stored generator expression reads {n.id}, which is re-bound in this function")
    # (2) dicts updated in place: created as {} in this function, never aliased
    muts, loops_of = {}, {}
    def visit(stmts, loops):
        for s in stmts:
            loops_of[id(s)] = list(loops)
            st = store_target(s)
            if st is not None: muts.setdefault(st[1], []).append(s)
            inner = loops + [s] if isinstance(s, (ast.For, ast.While)) else loops
            for fld in ("body", "orelse", "handlers", "finalbody"):
                visit([c for c in (getattr(s, fld, []) or []) if isinstance(c, ast.stmt)], inner)
    visit(fdef.body, [])
    for x, ms in muts.items():
        need(x not in params, ms[0], f"in-place update of the parameter {x} (the caller's object would change)")
        asg = [n for n in ast.walk(fdef) if isinstance(n, (ast.Assign, ast.AnnAssign, ast.For, ast.comprehension))
               and any(isinstance(t, ast.Name) and t.id == x for tg in (n.targets if isinstance(n, ast.Assign) else [n.target]) for t in ast.walk(tg)
                       if isinstance(t.ctx if isinstance(t, ast.Name) else None, ast.Store))]
        need(len(asg) == 1 and isinstance(asg[0], (ast.Assign, ast.AnnAssign)) and asg[0] in fdef.body and isinstance(asg[0].value, ast.Dict) and not asg[0].value.keys,
             ms[0], f"{x} is updated in place: it must be bound once, at the top level of the function, to {{}}")
        last = max(pos(m) for m in ms)
        mloops = {id(l) for m in ms for l in loops_of[id(m)]}
        for n in ast.walk(fdef):
            if not (isinstance(n, ast.Name) and n.id == x and isinstance(n.ctx, ast.Load)): continue
            p = par[id(n)]
            if isinstance(p, ast.Subscript) and p.value is n: continue                                   # d[k], d[k] = v
            if isinstance(p, ast.Compare) and isinstance(p.ops[0], (ast.In, ast.NotIn)) and p.comparators[0] is n: continue
            if isinstance(p, ast.Attribute) and p.attr == "setdefault" and isinstance(par[id(p)], ast.Call) and isinstance(par[id(par[id(p)])], ast.Subscript) \
                    and isinstance(par[id(par[id(p)])].ctx, ast.Store): continue
            c, inloop = n, False
            while c is not fdef:
                c = par[id(c)]
                if id(c) in mloops: inloop = True
            need(pos(n) > last and not inloop, n, f"{x} is updated in place and may be aliased: this use does not come after its last update")

# ------------------------------------------------------------------ the translation unit
class Spec:
    """one translated function at one tuple of static argument types"""
    def __init__(self, coq, base, key):
        self.coq, self.base, self.key = coq, base, key
        self.params, self.ret, self.pure, self.done = None, None, None, False
        self.needs_fuel, self.uses_rec, self.is_root = False, None, False

IGNORED_FUNCTIONS = ["load_circuit", "load_circuitset", "save_circuit", "save_circuitset"]     # json text and files
# class of the argument of the singledispatch function -> (constructor of pyobj, static type of the implementation's parameter,
# annotation / argument of register that selects it)
SLOTS = [("_circuit.Circuit", CIRC), ("list", LIST(CIRC)), ("_gates.GateOperation", GATEOP)] + \
        [("_gates." + c, GATE) for c in FAMILY] + [("_gates.CustomGateDefinition", DEF)]

class Translator:
    def __init__(self, repo):
        base = os.path.join(repo, "src/orquestra/quantum/circuits")
        self.S = Module("_serde", os.path.join(base, "_serde.py"), True)
        self.C = Module("_circuit", os.path.join(base, "_circuit.py"), False)
        self.G = Gates(Module("_gates", os.path.join(base, "_gates.py"), False))
        self.mods = {"_serde": self.S, "_circuit": self.C, "_gates": self.G.M}
        self.out, self.specs, self.stack, self.accessors, self.counts = [], {}, [], {}, {}
        self.scan_decorators(self.S)
        for M in (self.C, self.G.M):
            for f in M.funcs.values(): pass
        need("Circuit" in self.C.classes, self.C.tree, "class Circuit not found")
        self.C.once("Circuit", self.C.tree)

    def alias(self, M, x):
        for m in ("_gates", "_circuit", "_builtin_gates", "_operations"):
            if x == m and M.is_from(x, ".", x): return m
        for m in ("sympy", "re", "operator"):
            if x == m and M.is_import(x, m): return m
        return None

    def scan_decorators(self, M):
        for f in M.funcs.values():
            d = f.decorator_list
            if not d: continue
            need(len(d) == 1, f, "several decorators")
            if isinstance(d[0], ast.Name) and d[0].id == "singledispatch" and M.is_from("singledispatch", "functools"):
                need(f.name in ROOT_RET and not M.generic, f, "one singledispatch function (to_dict) is accepted")
                M.generic[f.name] = dict(default=f, impls={})
        for f in M.funcs.values():
            d = f.decorator_list
            if not d or f.name in M.generic: continue
            r = d[0].func if isinstance(d[0], ast.Call) else d[0]
            need(isinstance(r, ast.Attribute) and r.attr == "register" and isinstance(r.value, ast.Name) and r.value.id in M.generic, f,
                 "decorated function (a decorator may change what the call returns)")
            a = f.args.args
            need(len(a) == 1, f, "a registered implementation takes one parameter")
            if isinstance(d[0], ast.Call):
                need(len(d[0].args) == 1 and not d[0].keywords, f, "register(<class>)")
                slot = ast.unparse(d[0].args[0])
            else:
                need(a[0].annotation is not None, f, "registered implementation without an annotation on its parameter")
                slot = ast.unparse(a[0].annotation)
            impls = M.generic[r.value.id]["impls"]
            need(slot in [s for s, _ in SLOTS] and slot not in impls, f, f"implementation registered for {slot}: unknown class or registered twice")
            if slot == "list": need("list" not in M.names, f, "list is re-bound")
            else:
                m, c = slot.split(".")
                need(self.alias(M, m) == m, f, f"{m} is not the module of the package")
                if m == "_circuit": self.C.once(c, f)
            impls[slot] = f

    def accessor(self, cls, field):
        name = f"{cls}_attr_{field}"
        if name in self.accessors: return name
        G = self.G
        if cls == "Gate":
            ty = G.gate_field(field)
            rows = [f"  | {G.pattern(c, {field: 'a'})} => " + ("Val a" if any(f == field for f, _, _ in G.fields[c]) else "Exn AttributeError") for c in FAMILY]
            text = (f"(* gate.{field}: the field of the classes that declare it; the other gate classes have no such attribute *)\n"
                    f"Definition {name} (g : pygate (gw S)) : pyres {cty(ty)} :=\n  match g with\n" + "\n".join(rows) + "\n  end.\n")
        elif cls == "Operation":
            inner = self.accessor("GateOperation", field)
            ty = next(t for f, t, _ in G.fields["GateOperation"] if f == field)
            text = (f"(* operation.{field}: the field of a GateOperation; the other operation classes have no such attribute *)\n"
                    f"Definition {name} (o : pyop S) : pyres {cty(ty)} :=\n  match o with OpGate x => Val ({inner} x) | OpOther _ => Exn AttributeError end.\n")
        else:
            ty = next(t for f, t, _ in G.fields[cls] if f == field)
            arg = "pydef S" if cls == "CustomGateDefinition" else "GateOperation_obj (gw S)"
            text = (f"(* field {field} of a {cls} *)\nDefinition {name} (o : {arg}) : {cty(ty)} :=\n"
                    f"  match o with {G.pattern(cls, {field: 'a'})} => a end.\n")
        self.accessors[name] = True
        self.out.append(text)
        return name

    def check_circuit_init(self, node):
        c = self.C.classes["Circuit"]
        inits = [n for n in c.body if isinstance(n, ast.FunctionDef) and n.name == "__init__"]
        need(len(inits) == 1 and not inits[0].decorator_list, node, "Circuit.__init__")
        a = inits[0].args
        need([p.arg for p in a.args] == ["self", "operations", "n_qubits"] and not (a.vararg or a.kwarg or a.kwonlyargs or a.posonlyargs), node, "Circuit.__init__(self, operations, n_qubits)")
        need([ast.unparse(p.annotation) for p in a.args[1:]] == ["Optional[Iterable[_operations.Operation]]", "Optional[int]"], node, "annotations of Circuit.__init__")
        for n in c.body:
            need(not (isinstance(n, ast.FunctionDef) and n.name in ("__new__", "__init_subclass__")), node, "Circuit.__new__")
        need(not c.bases and not c.keywords and not c.decorator_list, c, "class Circuit with bases / decorators")

    def fdef_of(self, fn, node):
        kind, mk, name = fn[1], fn[2], fn[3]
        M = self.mods[mk]
        if kind == "method":
            cname, mname = name.split(".")
            c = M.classes[cname]
            ms = [n for n in c.body if isinstance(n, ast.FunctionDef) and n.name == mname]
            need(len(ms) == 1 and not ms[0].decorator_list, node, f"{name} must be defined once, undecorated")
            for n in c.body:
                need(not (isinstance(n, ast.FunctionDef) and n.name in ("__getattr__", "__getattribute__")), node, "Circuit.__getattr__")
            return M, ms[0]
        if kind == "generic": return M, M.generic[name]["default"]
        need(name in M.funcs, node, f"function {name} not found")
        M.once(name, node)
        f = M.funcs[name]
        if f.decorator_list:
            need(any(f is i for g in M.generic.values() for i in g["impls"].values()), f, "decorated function (a decorator may change what the call returns)")
        return M, f

    def call_spec(self, fn, args, F, binds, node):
        M, fdef = self.fdef_of(fn, node)
        a = fdef.args
        need(not (a.vararg or a.kwarg or a.kwonlyargs or a.posonlyargs or a.kw_defaults or a.defaults), fdef, "only plain positional parameters are accepted")
        need(len(args) == len(a.args), node, f"{fn[3]} called with {len(args)} arguments")
        ptys = []
        for i, (p, (_, aty)) in enumerate(zip(a.args, args)):
            if fn[1] == "generic" and i == 0:
                need(p.annotation is None, p, "the first parameter of a singledispatch function must not be annotated")
                ptys.append(OBJ)
            elif fn[1] == "method" and i == 0:
                need(p.arg == "self" and p.annotation is None, p, "a method's first parameter must be self")
                ptys.append(aty)
            else:
                ptys.append(param_type(ann(p.annotation, M, self), aty, node))
        key = (fn[1:], tuple(ptys))
        spec = self.specs.get(key)
        if spec is None: spec = self.translate(fn, key, M, fdef, ptys, node)
        texts = [coerce(t, ty, pty, F, binds, node) for (t, ty), pty in zip(args, ptys) if pty[0] != "fnref"]
        cur = F.spec
        if not spec.done:                               # a call back into a function that is being translated
            need(fn[3] in ROOT_RET and spec in self.stack, node, f"recursion through {fn[3]} (only {sorted(ROOT_RET)} may be re-entered)")
            spec.is_root = True
            for sp in self.stack[self.stack.index(spec) + 1:]: sp.uses_rec = spec
            return F.eff(binds, " ".join([f"rec_{spec.base}"] + texts)), spec.ret
        prefix = []
        if spec.needs_fuel or spec.is_root:
            prefix.append("fuel")
            cur.needs_fuel = True
        if spec.uses_rec is not None:
            R = spec.uses_rec
            if R.done:
                prefix.append(f"({R.coq} fuel)")
                cur.needs_fuel = True
            else:
                need(R in self.stack, node, "internal: recursion root")
                for sp in self.stack[self.stack.index(R) + 1:]: sp.uses_rec = R
                prefix.append(f"rec_{R.base}")
        term = " ".join([spec.coq] + prefix + texts)
        if spec.pure: return f"({term})", spec.ret
        return F.eff(binds, term), spec.ret

    def translate(self, fn, key, M, fdef, ptys, node):
        base = fdef.name.strip("_")
        if fn[1] == "method": base = "Circuit_" + base
        k = self.counts[base] = self.counts.get(base, 0) + 1
        spec = Spec(base + "_gen" + ("" if k == 1 else f"_{k}"), base, key)
        need(re.fullmatch(r"[A-Za-z][A-Za-z0-9_]*", spec.coq) is not None, fdef, "generated name")
        self.specs[key] = spec
        self.stack.append(spec)
        F = Fn(self, M, fdef, spec)
        env = {}
        spec.params = []
        for p, ty in zip(fdef.args.args, ptys):
            env = bind_local(p.arg, ty, env, F, p) if p.arg != "self" else {**env, "self": ty}
            if ty[0] != "fnref": spec.params.append((p.arg, ty))
        if fdef.name in ROOT_RET:
            spec.ret = F.ret = ROOT_RET[fdef.name]
        body = strip_docstring(fdef.body)
        need(bool(body), fdef, "empty body")
        if fn[1] == "generic": comp = self.dispatch(M, fn[3], fdef, F, env)
        else: comp = block(body, env, F, None, True)
        check_function(fdef, F)
        need(F.ret is not None, fdef, "no return type could be determined (the function never returns a value)")
        spec.ret = F.ret
        self.stack.pop()
        sig = "".join(f" ({cvar(p)} : {cty(t)})" for p, t in spec.params)
        fnargs = ", ".join(f"{p.arg} = {ty[3]}" for p, ty in zip(fdef.args.args, ptys) if ty[0] == "fnref")
        head = f"(* {M.key}.{fn[3]}   [{M.key}.py line {fdef.lineno}]" + (f"   with {fnargs}" if fnargs else "") + " *)\n"
        if spec.is_root:
            need(spec.uses_rec is None, fdef, "nested recursion roots")
            rect = "(" + " -> ".join([cty(t) for _, t in spec.params] + [f"pyres {cty(spec.ret)}"]) + ")"
            fu = " (fuel : nat)" if spec.needs_fuel else ""
            names = "".join(" " + cvar(p) for p, _ in spec.params)
            self.out.append(head + f"Definition {spec.base}_body{fu} (rec_{spec.base} : {rect}){sig} : pyres {cty(spec.ret)} :=\n  {ind(emit(comp, True))}.\n\n"
                            f"(* the recursion: each call of {fdef.name} uses up one unit of the fuel; without fuel, RecursionError *)\n"
                            f"Fixpoint {spec.coq} (fuel : nat){sig} {{struct fuel}} : pyres {cty(spec.ret)} :=\n"
                            f"  match fuel with\n  | O => Exn RecursionError\n"
                            f"  | Datatypes.S fuel' => {spec.base}_body{' fuel' + chr(39) if spec.needs_fuel else ''} ({spec.coq} fuel'){names}\n  end.\n")
            spec.pure, spec.needs_fuel = False, True
        else:
            spec.pure = pure(comp) and spec.uses_rec is None
            pre = " (fuel : nat)" if spec.needs_fuel else ""
            if spec.uses_rec is not None:
                R = spec.uses_rec
                rect = "(" + " -> ".join([cty(t) for _, t in R.params] + [f"pyres {cty(R.ret)}"]) + ")"
                pre += f" (rec_{R.base} : {rect})"
            rty = cty(spec.ret) if spec.pure else f"pyres {cty(spec.ret)}"
            self.out.append(head + f"Definition {spec.coq}{pre}{sig} : {rty} :=\n  {ind(emit(comp, not spec.pure))}.\n")
        spec.done = True
        return spec

    def dispatch(self, M, name, fdef, F, env):
        """functools.singledispatch: the implementation registered for the class of the argument, else the function's own
        body.  The argument is any object (pyobj); its class is the constructor (for a gate: the constructor of pygate)."""
        g = M.generic[name]
        v = fdef.args.args[0].arg
        G = self.G
        def impl(slot, var, ty):
            f = g["impls"].get(slot)
            if f is None:
                return Cmt(f"no implementation registered for {slot}", block(strip_docstring(fdef.body), env, F, None, True))
            if slot != "list":
                need(f.args.args[0].annotation is not None and ast.unparse(f.args.args[0].annotation) == slot, f, "the annotation of a registered implementation must name the class it is registered for")
            else:
                need(ann(f.args.args[0].annotation, M, self) == ty, f, "the implementation registered for list must take List[_circuit.Circuit]")
            b = []
            t, rty = self.call_spec(FNREF("func", M.key, f.name), [(var, ty)], F, b, f)
            if rty != F.ret: t = coerce(t, rty, F.ret, F, b, f)
            return Cmt(f"registered for {slot}: {f.name}", value(b, t))
        default = lambda why: Cmt(why, block(strip_docstring(fdef.body), env, F, None, True))
        gate_rows = [(G.pattern(c, {}), impl("_gates." + c, "x", GATE)) for c in FAMILY]
        cases = [("Obj_Circuit x", impl("_circuit.Circuit", "x", CIRC)),
                 ("Obj_list x", impl("list", "x", LIST(CIRC))),
                 ("Obj_Operation (OpGate x)", impl("_gates.GateOperation", "x", GATEOP)),
                 ("Obj_Operation (OpOther _)", default("an operation of another class")),
                 ("Obj_Gate x", Match("x", gate_rows)),
                 ("Obj_CustomGateDefinition x", impl("_gates.CustomGateDefinition", "x", DEF)),
                 ("Obj_other", default("an object of any other class"))]
        return Cmt("functools.singledispatch on the class of the argument", Match(cvar(v), cases))

HEADER = """(* GENERATED by tr/tr_serde.py from circuits/_serde.py, circuits/_circuit.py and circuits/_gates.py - do not edit.
   Every definition is the construct-by-construct translation of the Python definition named in the comment above it
   (one definition per tuple of static argument types); the meaning of the building blocks is fixed in
   Serde/SerdeTrSupport.v; agreement with the model (Serde/CircuitSerde.v) is proved in Serde/SerdeGenProofs.v. *)
Require Import Coq.ZArith.ZArith Coq.Lists.List Coq.Strings.String Coq.Bool.Bool.
Require Import OQ.Serde.Json OQ.Circ.GatesTrSupport OQ.Gen.GateModsGen OQ.Serde.SerdeTrSupport.
Import ListNotations.

Section Gen.
Variable S : sworld.
Variable E : senv S.

"""

def generate(repo):
    tr = Translator(repo)
    S = tr.S
    need(list(S.generic) == ["to_dict"], S.tree, "the singledispatch function to_dict not found")
    root = Spec("entry", "entry", None)
    root.done = True
    F = Fn(tr, S, S.tree, root)
    tr.call_spec(FNREF("generic", "_serde", "to_dict"), [("x", OBJ)], F, [], S.tree)
    for f in ("circuit_from_dict", "circuitset_from_dict"):
        need(f in S.funcs, S.tree, f"{f} not found")
        tr.call_spec(FNREF("func", "_serde", f), [("x", JSON)], F, [], S.funcs[f])
    reached = {k[0][2] for k in tr.specs if k[0][1] == "_serde"}
    for f in S.funcs:
        need(f in reached or f in IGNORED_FUNCTIONS, S.funcs[f], f"function {f} of _serde.py is not reached from to_dict / circuit_from_dict / circuitset_from_dict and is not one of the file functions")
    for slot, f in S.generic["to_dict"]["impls"].items():
        need(f.name in reached, f, "registered implementation not reached")
    return HEADER + "\n".join(tr.out) + "\nEnd Gen.\n"

def run(repo, out):
    target = os.path.join(out, OUTPUTS[0])
    try:
        text = generate(repo)
        if FORBIDDEN_TEXT.search(re.sub(r"\(\*.*?\*\)", "", text, flags=re.S)):
            raise Reject("generated text contains a forbidden word")
    except Reject as e:
        # fail closed: no stale definitions from an earlier source may survive a rejection; the file below does not
        # compile, so everything that depends on the generated definitions stops building until the source is accepted
        why = re.sub(r"[^A-Za-z0-9 _.,:=()\[\]'-]", " ", str(e))[:300].replace("(*", "( *").replace("*)", "* )")
        why = FORBIDDEN_TEXT.sub("...", why)
        write_if_changed(target, "(* GENERATED by tr/tr_serde.py - THE TRANSLATOR REJECTED THE SOURCE:\n   " + why
                         + " *)\nDefinition translator_rejected_the_source : False := I.\n")
        raise
    write_if_changed(target, text)
    print("tr_serde: ok")

if __name__ == "__main__":
    main_wrapper(run)
