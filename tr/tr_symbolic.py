#!/usr/bin/env python3
"""Translate the symbolic-expression functions of circuits/symbolic/ to Gallina (fail-closed, property C19).

  expressions.py        : class Symbol / FunctionCall / ExpressionDialect (NamedTuple), reduction
  _sorting.py           : _convert_string_to_int_if_possible, natural_key, natural_key_revlex
  translations.py       : translate_expression (singledispatch) with translate_number / translate_symbol /
                          translate_function_call, translate_tuple
  sympy_expressions.py  : is_multiplication_by_reciprocal, is_addition_of_negation, _negate_sympy_expr,
                          expression_from_sympy (singledispatch) with its ten registered implementations,
                          SYMPY_DIALECT                                            -> Gen/SymbolicGen.v

The translation is syntax directed: every accepted Python construct is mapped to one piece of Gallina whose meaning
is a definition of coq/Serde/SymbolicTrSupport.v.  No function is recognised "as a whole"; a function is accepted iff
each of its statements and expressions is in the grammar below.  coq/Serde/SymbolicGenProofs.v proves on every run
that the generated definitions equal the hand-written models Serde/SymTranslate.v and Serde/NatKey.v.

Values and types (static, inferred bottom-up; the Coq type is in brackets)
  int [Z]  float [Q, exact value]  str [string]  bool  num [num: a Python number]  expr [nexpr: Expression]
  key [kelem: Union[int, str]]  sobj [sexpr: a sympy object as the library observes it]  sclass [a sympy class, by
  its str]  named [py_named: object with a str attribute .name]  list t [tuples, lists, generators]
  instances of the NamedTuple classes of expressions.py [generated Records]  T [the dialect's value type]
  fn / fn1 / fn2 [Coq functions]  varargs [py_varargs T: a callable called as f(*args)]  dict t [py_dict t].
  Where Python puts a value of one type into a union (int -> num -> expr, Symbol -> expr, int|str -> key, a sympy
  Number object -> expr, binary function -> varargs ...) the translation inserts the injection, chosen by the
  static types only.
Parameter types: the annotation when there is one (sympy.Add, sympy.Mul, ... Number -> sobj; tuple -> list sobj;
  Symbol / FunctionCall / ExpressionDialect -> the class; Iterable[Expression] -> list expr; bool), otherwise the entry
  of PARAMS below by position.  Every use is type checked, so a wrong entry rejects.
Effects: every generated function returns [res T]; an operation that can raise (indexing, int(), str(), calls ..) is
  bound with [bind] in Python's evaluation order (left to right) before the pure remainder of the statement.
Statements: docstring; `x = e`; `if c: <block ending in return/raise>` followed by the rest or by an else block that
  ends in return/raise; `return e`; `raise NotImplementedError(msg)` / `raise ValueError(msg)` (msg a literal or an
  f-string over locals, their attributes and type(local)); a body that is only `pass`.
Expressions: int / float / str literals, 1j, unary minus on a numeric literal; locals; x.args, x.func, x.name and the
  fields of the NamedTuple classes; l[<int literal>], d[k]; (a, b, ..) ; a == k / a != k (ints; strings; sympy
  object against a numeric literal), k in d / k not in d; `and` / `or` / `not` on bools (short circuit); e * k for a
  sympy object e and a numeric literal k; a if c else b; [e for x in xs], tuple(e for x in xs), list(..), tuple(..),
  reversed(..), len(..), isinstance(e, sympy.<Class>), int(..), float(..), str(..), text.isdigit(),
  re.split(r"(\\d+)", s) (exactly this pattern), reduce(f, xs), Symbol(..) / FunctionCall(.., ..) /
  ExpressionDialect(field=..), calls of translated functions, f(x) for a function-valued field, f(*xs) for a
  varargs value; in SYMPY_DIALECT also lambda, {str: value} and operator.add/mul/sub/truediv/pow, sympy.Symbol,
  sympy.sqrt, sympy.<elementary function>.
Dispatch: `@singledispatch def root(..)` and `@root.register def impl(x: Class, ..)` (bare form; the class comes from
  the annotation of the first parameter, as functools does).  The root becomes `root_step self ..` = the support's
  dispatch over the registered implementations with the root's own body as default; a call of the root inside the
  module is a call of `self`; `root_fuel` ties the knot by recursion on a fuel argument and `root_gen` starts it with
  the depth of the argument (out of fuel = error value EStuck).  On a value whose static type is a tuple the root is the
  implementation registered for `tuple`.
Module level: only the expected imports (no aliases except the try/except import of sympy.core.numbers as
  sympy_numbers), NamedTuple classes, `Expression = Any`, `SYMPY_DIALECT = ...`, function definitions; every name is
  bound once; no builtin used by the grammar is rebound; decorators other than the two above are rejected; locals may
  not shadow module-level names or builtins.  natural_key_fixed_names_order (a closure factory without model) is
  checked for these module-level conditions only and not translated.
"""
OUTPUTS = ['SymbolicGen.v']      # generated files (the driver uses this to decide which properties depend on this translator)
import ast, os, re
from fractions import Fraction
from trlib import *

SUBDIR = "src/orquestra/quantum/circuits/symbolic"
BUILTINS = {"len", "isinstance", "int", "float", "str", "tuple", "list", "reversed", "type", "bool",
            "NotImplementedError", "ValueError", "ImportError"}
EXC = {"NotImplementedError": "ENotImpl", "ValueError": "EValue"}
SYMPY_CLASSES = {"numbers.Number": "numbers.Number", "sympy.Symbol": "sympy.Symbol", "sympy.Integer": "sympy.Integer",
                 "sympy.Float": "sympy.Float", "sympy.Rational": "sympy.Rational",
                 "sympy.core.numbers.ImaginaryUnit": "sympy.ImaginaryUnit", "sympy.Add": "sympy.Add",
                 "sympy.Mul": "sympy.Mul", "sympy.Pow": "sympy.Pow", "sympy.Function": "sympy.Function"}
SYMPY_FUNCTION_CLASSES = {"cos", "sin", "tan", "exp", "log", "cosh", "sinh", "tanh", "acos", "asin", "atan"}
OPERATOR_FUNCS = {"add", "mul", "sub", "truediv", "pow"}
UNION_MEMBERS = {"Symbol": ["name"], "FunctionCall": ["name", "args"]}       # argument order of expr_of_<Class>
# types of parameters without annotation, by position
PARAMS = {"_convert_string_to_int_if_possible": ["str"], "natural_key": ["named"], "natural_key_revlex": ["named"],
          "_negate_sympy_expr": ["sobj"], "reduction": [("fn2", "T")]}
# the dispatch roots: domain of the first argument, result type, depth function used as fuel
ROOTS = {"expression_from_sympy": dict(domain="sympy", ret="expr", depth="sympy_depth", implicit=["rnd"]),
         "translate_expression": dict(domain="expr", ret="T", depth="expr_depth", implicit=[])}
IMPLICIT_BINDER = {"rnd": "(rnd : Q -> Q)"}
COQ_IDENT = re.compile(r"[A-Za-z_][A-Za-z0-9_]*\Z")
FORBIDDEN_TEXT = re.compile(r"Admitted|admit|Axiom|Parameter|Conjecture|bypass_check|Unset|\(\*|\*\)|type-in-type|impredicative")

def need(cond, node, why):
    if not cond:
        reject(node, why)

def src(node):
    t = " ".join(ast.unparse(node).split("\n")[0].split())
    return "(source elided)" if FORBIDDEN_TEXT.search(t) or '"' in t else t

# ----------------------------------------------------------------------------- types
def mentions_T(t, C):
    if t in ("T", "varargs"):
        return True
    if isinstance(t, tuple):
        if t[0] == "fn":
            return any(mentions_T(a, C) for a in t[1]) or mentions_T(t[2], C)
        if t[0] == "cls":
            return C[t[1]]["poly"]
        return any(mentions_T(x, C) for x in t[1:])
    return False

def cty(t, C, tv="T"):
    """Coq text of a type; C = class table; tv = text for the dialect's value type"""
    if t == "int": return "Z"
    if t == "float": return "Q"
    if t == "str": return "string"
    if t == "bool": return "bool"
    if t == "num": return "num"
    if t == "expr": return "nexpr"
    if t == "key": return "kelem"
    if t == "sobj": return "sexpr"
    if t == "sclass": return "sympy_class"
    if t == "named": return "py_named"
    if t == "T": return tv
    if t == "varargs": return f"(py_varargs {tv})"
    if isinstance(t, tuple):
        if t[0] == "list": return f"(list {cty(t[1], C, tv)})"
        if t[0] == "dict": return f"(py_dict {cty(t[1], C, tv)})"
        if t[0] == "fn1": return f"({cty(t[1], C, tv)} -> {cty(t[1], C, tv)})"
        if t[0] == "fn2": return f"({cty(t[1], C, tv)} -> {cty(t[1], C, tv)} -> {cty(t[1], C, tv)})"
        if t[0] == "fn": return "(" + " -> ".join([cty(a, C, tv) for a in t[1]] + [cty(t[2], C, tv)]) + ")"
        if t[0] == "cls":
            return f"({t[1]}_obj {tv})" if C[t[1]]["poly"] else f"{t[1]}_obj"
    raise Reject(f"internal: type {t}")

# ----------------------------------------------------------------------------- modules
class Module:
    """one source file: its imports, classes, functions, dispatch roots; the text generated for it"""
    def __init__(self, name, path, W):
        self.name, self.W = name, W
        try:
            self.tree = ast.parse(open(path).read())
        except (OSError, SyntaxError) as e:
            raise Reject(f"{name}.py cannot be read or parsed: {type(e).__name__}")
        self.alias = {}       # local name -> qualified module / object it denotes
        self.funcs = {}       # name -> FunctionDef (plain functions and registered implementations)
        self.roots = {}       # root name -> dict(default=FunctionDef, impls=[(class key, FunctionDef)])
        self.classes = []     # ClassDef nodes
        self.assigns = []     # module-level assignments
        self.bound = {}       # every module-level name -> node
        self.out = []         # generated definitions, in dependency order
        self.G = {}           # translated functions: name -> dict(coq, params, ret, extra)
        self.busy = set()
        self.scan()

    def bind_name(self, x, node):
        need(x not in self.bound, node, f"module-level name {x} is bound twice")
        need(x not in BUILTINS, node, f"builtin {x} is rebound at module level")
        self.bound[x] = node

    def scan(self):
        for i, n in enumerate(self.tree.body):
            if isinstance(n, ast.Expr) and isinstance(n.value, ast.Constant) and isinstance(n.value.value, str) and i == 0:
                continue
            if isinstance(n, ast.Import):
                for a in n.names:
                    need(a.asname is None and a.name in ("re", "operator", "sympy", "sympy.core"), n, "import not accepted")
                    top = a.name.split(".")[0]
                    if top in self.bound and isinstance(self.bound[top], ast.Import):
                        continue                       # import sympy; import sympy.core bind the same name to the same module
                    self.bind_name(top, n)
                    self.alias[top] = top
            elif isinstance(n, ast.ImportFrom):
                ok = {("functools", 0): {"singledispatch", "reduce"}, ("numbers", 0): {"Number"},
                      ("typing", 0): {"Any", "Callable", "Dict", "Iterable", "NamedTuple", "Tuple", "Union"},
                      ("expressions", 1): {"Expression", "ExpressionDialect", "FunctionCall", "Symbol", "reduction"}}
                need((n.module, n.level) in ok, n, "import not accepted")
                for a in n.names:
                    need(a.asname is None and a.name in ok[(n.module, n.level)], n, "imported name not accepted")
                    self.bind_name(a.name, n)
                    self.alias[a.name] = f"{n.module}.{a.name}"
            elif isinstance(n, ast.Try):
                # try: import sympy.core.numbers as X / except ImportError: X = sympy.numbers  (both bind X to that module)
                ok = len(n.body) == 1 and isinstance(n.body[0], ast.Import) and len(n.body[0].names) == 1 \
                    and n.body[0].names[0].name == "sympy.core.numbers" and n.body[0].names[0].asname \
                    and len(n.handlers) == 1 and not n.orelse and not n.finalbody \
                    and isinstance(n.handlers[0].type, ast.Name) and n.handlers[0].type.id == "ImportError" \
                    and n.handlers[0].name is None and len(n.handlers[0].body) == 1 \
                    and isinstance(n.handlers[0].body[0], ast.Assign) \
                    and ast.unparse(n.handlers[0].body[0]) == f"{n.body[0].names[0].asname} = sympy.numbers"
                need(ok, n, "try statement not accepted")
                x = n.body[0].names[0].asname
                self.bind_name(x, n)
                self.alias[x] = "sympy.core.numbers"
            elif isinstance(n, ast.ClassDef):
                self.bind_name(n.name, n)
                self.classes.append(n)
            elif isinstance(n, ast.FunctionDef):
                self.bind_name(n.name, n)
                for m in ast.walk(n):
                    need(not isinstance(m, (ast.Global, ast.Nonlocal)), m, "global / nonlocal statement")
                self.scan_function(n)
            elif isinstance(n, ast.Assign):
                need(len(n.targets) == 1 and isinstance(n.targets[0], ast.Name), n, "module-level assignment not accepted")
                self.bind_name(n.targets[0].id, n)
                self.assigns.append(n)
            else:
                reject(n, "module-level statement not accepted")

    def scan_function(self, n):
        decs = n.decorator_list
        if not decs:
            self.funcs[n.name] = n
            return
        need(len(decs) == 1, n, "more than one decorator")
        d = decs[0]
        if isinstance(d, ast.Name) and self.alias.get(d.id) == "functools.singledispatch":
            need(n.name in ROOTS, n, "singledispatch function that is not a configured root")
            self.roots[n.name] = dict(default=n, impls=[])
        elif isinstance(d, ast.Attribute) and d.attr == "register" and isinstance(d.value, ast.Name) and d.value.id in self.roots:
            self.roots[d.value.id]["impls"].append(n)
            self.funcs[n.name] = n
        else:
            reject(n, "decorated function (a decorator may change what the call returns)")

    def qual(self, e, local_names=()):
        """dotted name -> qualified name through the module's imports, None when it is not such a name"""
        parts = []
        while isinstance(e, ast.Attribute):
            parts.append(e.attr)
            e = e.value
        if not isinstance(e, ast.Name) or e.id in local_names:
            return None
        if e.id in self.alias:
            return ".".join([self.alias[e.id]] + parts[::-1])
        if e.id in BUILTINS and e.id not in self.bound and not parts:
            return "builtins." + e.id
        return None

class World:
    """all modules; the class table"""
    def __init__(self, repo):
        self.C = {}           # class name -> dict(fields=[(name, type)], poly)
        d = os.path.join(repo, SUBDIR)
        self.mods = {m: Module(m, os.path.join(d, m + ".py"), self) for m in ("expressions", "_sorting", "translations", "sympy_expressions")}

# ----------------------------------------------------------------------------- annotations
def field_type(a, M):
    """annotation of a NamedTuple field"""
    u = ast.unparse(a)
    table = {"str": "str", "Iterable['Expression']": ("list", "expr"),
             "Callable[[Symbol], Any]": ("fn", (("cls", "Symbol"),), "T"),
             "Callable[[Number], Any]": ("fn", ("num",), "T"),
             "Dict[str, Callable[..., Any]]": ("dict", "varargs")}
    need(u in table, a, "field annotation not accepted")
    for x in re.findall(r"[A-Za-z_]+", u):
        if x not in ("str", "Expression"):
            need(x in M.alias or x in M.bound, a, f"{x} is not imported")
    return table[u]

def param_type(fn, k, M, domain=None):
    """type of the k-th parameter of a plain function / implementation; for k = 0 of an implementation also the class key"""
    p = fn.args.args[k]
    a = p.annotation
    if a is None:
        need(fn.name in PARAMS and k < len(PARAMS[fn.name]), p, "parameter without annotation and without entry in PARAMS")
        return PARAMS[fn.name][k], None
    q = M.qual(a)
    if M.name == "sympy_expressions":
        if q in SYMPY_CLASSES:
            return "sobj", SYMPY_CLASSES[q]
        if q == "builtins.tuple":
            return ("list", "sobj"), "tuple"
    if M.name == "translations":
        if q == "numbers.Number":
            return "num", "Number"
        if q in ("expressions.Symbol", "expressions.FunctionCall"):
            return ("cls", q.split(".")[1]), q.split(".")[1]
        if q == "expressions.ExpressionDialect":
            return ("cls", "ExpressionDialect"), None
        if ast.unparse(a) == "Iterable[Expression]" and M.alias.get("Expression") == "expressions.Expression" and "Iterable" in M.alias:
            return ("list", "expr"), None
    reject(p, "parameter annotation not accepted")

def return_annotation(fn, M):
    if fn.returns is None:
        return None
    need(M.qual(fn.returns) == "builtins.bool", fn.returns, "return annotation not accepted")
    return "bool"

# ----------------------------------------------------------------------------- function context
class Cx:
    def __init__(self, M, fn, env, ret, root=None, values=None):
        self.M, self.fn, self.env, self.ret, self.root, self.values = M, fn, dict(env), ret, root, values
        self.n = [0]              # shared counter for bound temporaries
        self.uses = set()         # implicit arguments used: "rnd", "self"
    def tmp(self):
        self.n[0] += 1
        return f"x{self.n[0]}"
    def sub(self, extra_env):
        c = Cx(self.M, self.fn, {**self.env, **extra_env}, self.ret, self.root, self.values)
        c.n, c.uses = self.n, self.uses
        return c
    def locals(self):
        return set(self.env)

def new_local(name, cx, node):
    need(COQ_IDENT.match(name) and "__" not in name, node, f"name {name!r} not accepted")
    need(name not in cx.M.bound and name not in BUILTINS, node, f"local {name} shadows a module-level name or a builtin")
    return name

def with_binds(B, text):
    """bind e1 (fun x1 => bind e2 (fun x2 => text)); `bind e (fun x => Ok x)` is written `e`"""
    if B and text == f"Ok {B[-1][0]}":
        B, text = B[:-1], B[-1][1]
    for x, t in reversed(B):
        text = f"bind ({t}) (fun {x} =>\n    {text})"
    return text

def numlit(e):
    """numeric literal, possibly with a unary minus -> (Fraction, 'int'|'float') or None"""
    sign = 1
    if isinstance(e, ast.UnaryOp) and isinstance(e.op, ast.USub):
        sign, e = -1, e.operand
    if isinstance(e, ast.Constant) and not isinstance(e.value, bool):
        if isinstance(e.value, int):
            return Fraction(sign * e.value), "int"
        if isinstance(e.value, float) and e.value == e.value and abs(e.value) != float("inf"):
            return sign * Fraction(repr(e.value)), "float"        # the decimal value of the literal
    return None

def qtext(fr):
    return f"({fr.numerator} # {fr.denominator})%Q"

def coerce(t, frm, to, cx, B, node):
    """injection of a value of static type frm where a value of type to is needed"""
    if frm == to:
        return t
    C = cx.M.W.C
    if (frm, to) == ("int", "num"): return f"(num_of_int {t})"
    if (frm, to) == ("float", "num"): return f"(num_of_float {t})"
    if (frm, to) == ("num", "expr"): return f"(expr_of_num {t})"
    if frm in ("int", "float") and to == "expr":
        return coerce(coerce(t, frm, "num", cx, B, node), "num", "expr", cx, B, node)
    if isinstance(frm, tuple) and frm[0] == "cls" and frm[1] in UNION_MEMBERS and to == "expr":
        return f"({frm[1]}_as_expression {t})"
    if (frm, to) == ("sobj", "expr"):
        x = cx.tmp()
        B.append((x, f"sympy_number_leaf {t}"))
        return x
    if (frm, to) == ("int", "key"):
        x = cx.tmp()
        B.append((x, f"key_of_int {t}"))
        return x
    if (frm, to) == ("str", "key"): return f"(key_of_str {t})"
    if (frm, to) == ("num", "T") and cx.values == "ops": return f"(sympy_of_num O {t})"
    if (frm, to) == (("fn1", "T"), "varargs"): return f"(py_fn1 {t})"
    if (frm, to) == (("fn2", "T"), "varargs"): return f"(py_fn2 {t})"
    reject(node, f"a value of type {frm} where {to} is expected")

def unify(a, b, node):
    if a == b:
        return a
    if {a, b} == {"int", "str"}:
        return "key"
    reject(node, f"branches of types {a} and {b}")

def closed(e, cx, want=None):
    """self-contained term of type res <type>"""
    B = []
    t, ty = ex(e, cx, B, want)
    return with_binds(B, f"Ok {t}"), ty

def strlit(s, node):
    need(re.fullmatch(r"[A-Za-z0-9_ .,:-]*", s) is not None, node, "string literal with characters outside [A-Za-z0-9_ .,:-]")
    return f'"{s}"'

# ----------------------------------------------------------------------------- expressions
def ex(e, cx, B, want=None):
    t, ty = ex0(e, cx, B, want)
    if want is not None and ty != want:
        t, ty = coerce(t, ty, want, cx, B, e), want
    return t, ty

def ex0(e, cx, B, want):
    M, C = cx.M, cx.M.W.C
    nl = numlit(e)
    if nl is not None:
        fr, k = nl
        if k == "int":
            return f"({fr.numerator})%Z", "int"
        return qtext(fr), "float"
    if isinstance(e, ast.Constant):
        if isinstance(e.value, str):
            return strlit(e.value, e), "str"
        if isinstance(e.value, complex) and e.value == 1j:
            return "py_1j", "num"
        reject(e, "literal not accepted")
    if isinstance(e, ast.Name):
        need(isinstance(e.ctx, ast.Load) and e.id in cx.env, e, "unknown name")
        return f"v_{e.id}", cx.env[e.id]
    if isinstance(e, ast.Attribute):
        q = M.qual(e, cx.locals())
        if q is not None:
            return qualified_value(q, e, cx)
        t, ty = ex(e.value, cx, B)
        if ty == "sobj" and e.attr == "args":
            return f"(sympy_args {t})", ("list", "sobj")
        if ty == "sobj" and e.attr == "func":
            x = cx.tmp()
            B.append((x, f"sympy_func {t}"))
            return x, "sclass"
        if ty == "named" and e.attr == "name":
            return f"(attr_name {t})", "str"
        if isinstance(ty, tuple) and ty[0] == "cls":
            for f, fty in C[ty[1]]["fields"]:
                if f == e.attr:
                    return f"({ty[1]}_{f} {t})", fty
        reject(e, f"attribute .{e.attr} of a value of type {ty} not accepted")
    if isinstance(e, ast.Subscript):
        t, ty = ex(e.value, cx, B)
        if isinstance(ty, tuple) and ty[0] == "list":
            k = numlit(e.slice)
            need(k is not None and k[1] == "int", e, "list index must be an integer literal")
            x = cx.tmp()
            B.append((x, f"py_index {t} ({k[0].numerator})%Z"))
            return x, ty[1]
        if isinstance(ty, tuple) and ty[0] == "dict":
            i, _ = ex(e.slice, cx, B, "str")
            x = cx.tmp()
            B.append((x, f"py_dict_getitem {t} {i}"))
            return x, ty[1]
        reject(e, f"subscript of a value of type {ty} not accepted")
    if isinstance(e, ast.Tuple):
        need(isinstance(want, tuple) and want[0] == "list" or want is None, e, "tuple where no tuple is expected")
        parts = [ex(x, cx, B, want[1] if want else None) for x in e.elts]
        tys = set(ty for _, ty in parts)
        need(len(tys) <= 1 and (tys or want), e, "tuple elements of different types")
        return "[" + "; ".join(t for t, _ in parts) + "]", ("list", want[1] if want else tys.pop())
    if isinstance(e, ast.Compare):
        need(len(e.ops) == 1, e, "chained comparison")
        op, l, r = type(e.ops[0]), e.left, e.comparators[0]
        if op in (ast.Eq, ast.NotEq):
            a, ta = ex(l, cx, B)
            if ta == "sobj":
                k = numlit(r)
                need(k is not None, e, "a sympy object is compared with something that is not a numeric literal")
                t = f"(sympy_eq_num {a} {qtext(k[0])})"
            else:
                b, tb = ex(r, cx, B)
                eqb = {"int": "Z.eqb", "str": "String.eqb"}
                need(ta == tb and ta in eqb, e, f"comparison of {ta} and {tb} not accepted")
                t = f"({eqb[ta]} {a} {b})"
            return (t if op is ast.Eq else f"(negb {t})"), "bool"
        if op in (ast.In, ast.NotIn):
            a, _ = ex(l, cx, B, "str")
            d, td = ex(r, cx, B)
            need(isinstance(td, tuple) and td[0] == "dict", e, "membership test on a non-dict")
            t = f"(py_dict_contains {d} {a})"
            return (t if op is ast.In else f"(negb {t})"), "bool"
        reject(e, "comparison not accepted")
    if isinstance(e, ast.BoolOp):
        t, _ = ex(e.values[0], cx, B, "bool")
        for v in e.values[1:]:
            ct, _ = closed(v, cx, "bool")
            x = cx.tmp()
            if isinstance(e.op, ast.And):
                B.append((x, f"if {t} then ({ct}) else Ok false"))
            else:
                B.append((x, f"if {t} then Ok true else ({ct})"))
            t = x
        return t, "bool"
    if isinstance(e, ast.UnaryOp):
        need(isinstance(e.op, ast.Not), e, "unary operator not accepted")
        t, _ = ex(e.operand, cx, B, "bool")
        return f"(negb {t})", "bool"
    if isinstance(e, ast.BinOp):
        a, ta = ex(e.left, cx, B)
        k = numlit(e.right)
        need(isinstance(e.op, ast.Mult) and ta == "sobj" and k is not None, e, "binary operation not accepted")
        x = cx.tmp()
        B.append((x, f"sympy_mul_num {a} {qtext(k[0])}"))
        return x, "sobj"
    if isinstance(e, ast.IfExp):
        c, _ = ex(e.test, cx, B, "bool")
        B1, B2 = [], []
        a, ta = ex(e.body, cx, B1)
        b, tb = ex(e.orelse, cx, B2)
        ty = unify(ta, tb, e)
        a, b = coerce(a, ta, ty, cx, B1, e), coerce(b, tb, ty, cx, B2, e)
        x = cx.tmp()
        B.append((x, f"if {c} then ({with_binds(B1, 'Ok ' + a)}) else ({with_binds(B2, 'Ok ' + b)})"))
        return x, ty
    if isinstance(e, (ast.ListComp, ast.GeneratorExp)):
        return comprehension(e, cx, B)
    if isinstance(e, ast.Lambda):
        need(isinstance(want, tuple) and want[0] == "fn", e, "lambda where no function type is known")
        a = e.args
        need(not (a.vararg or a.kwarg or a.kwonlyargs or a.defaults or a.posonlyargs) and len(a.args) == len(want[1]), e, "lambda parameters")
        env = {}
        for p, pt in zip(a.args, want[1]):
            env[new_local(p.arg, cx, e)] = pt
        B1 = []
        t, _ = ex(e.body, cx.sub(env), B1, want[2])
        need(not B1, e, "the body of a lambda must not be able to raise")
        return "(fun " + " ".join(f"v_{p.arg}" for p in a.args) + f" => {t})", want
    if isinstance(e, ast.Dict):
        need(isinstance(want, tuple) and want[0] == "dict", e, "dict literal where no dict type is known")
        items = []
        for k, v in zip(e.keys, e.values):
            need(isinstance(k, ast.Constant) and isinstance(k.value, str), e, "dict key must be a string literal")
            t, _ = ex(v, cx, B, want[1])
            items.append(f"({strlit(k.value, k)}, {t})")
        return "(py_dict_literal [" + ";\n     ".join(items) + "])", want
    if isinstance(e, ast.Call):
        return call(e, cx, B, want)
    reject(e, "expression not accepted")

def qualified_value(q, e, cx):
    """an imported function used as a value"""
    if cx.values == "ops":
        m, _, x = q.rpartition(".")
        if m == "operator" and x in OPERATOR_FUNCS:
            return f"(operator_{x} O)", ("fn2", "T")
        if q == "sympy.sqrt":
            return "(sympy_sqrt O)", ("fn1", "T")
        if m == "sympy" and x in SYMPY_FUNCTION_CLASSES:
            return f'(sympy_function O "{x}")', ("fn1", "T")
    reject(e, f"{q} used as a value is not accepted here")

def comprehension(e, cx, B):
    need(len(e.generators) == 1, e, "one for clause")
    g = e.generators[0]
    need(not g.ifs and not g.is_async and isinstance(g.target, ast.Name), e, "comprehension conditions / targets not accepted")
    it, ity = ex(g.iter, cx, B)
    need(isinstance(ity, tuple) and ity[0] == "list", e, "comprehension over a non-sequence")
    x = new_local(g.target.id, cx, e)
    need(x not in cx.env, e, "comprehension target rebinds a local")
    body, ty = closed(e.elt, cx.sub({x: ity[1]}))
    y = cx.tmp()
    B.append((y, f"py_comp (fun v_{x} => {body}) {it}"))
    return y, ("list", ty)

def plain_args(e, n=None):
    need(not e.keywords and not any(isinstance(a, ast.Starred) for a in e.args), e, "keyword / starred arguments not accepted")
    need(n is None or len(e.args) == n, e, f"{n} argument(s) expected")

def call(e, cx, B, want):
    M, W = cx.M, cx.M.W
    C = W.C
    f = e.func
    q = M.qual(f, cx.locals()) if isinstance(f, (ast.Name, ast.Attribute)) else None
    # ---- builtins and imported functions
    if q == "builtins.len":
        plain_args(e, 1)
        t, ty = ex(e.args[0], cx, B)
        need(isinstance(ty, tuple) and ty[0] == "list", e, "len of a non-sequence")
        return f"(py_len {t})", "int"
    if q == "builtins.isinstance":
        plain_args(e, 2)
        t, ty = ex(e.args[0], cx, B)
        c = M.qual(e.args[1], cx.locals())
        need(ty == "sobj" and c in SYMPY_CLASSES, e, "isinstance(<sympy object>, <sympy class>) expected")
        return f'(sympy_isinstance {t} "{SYMPY_CLASSES[c]}")', "bool"
    if q in ("builtins.int", "builtins.float", "builtins.str"):
        plain_args(e, 1)
        t, ty = ex(e.args[0], cx, B)
        table = {("builtins.int", "str"): ("py_int_str", "int"), ("builtins.int", "sobj"): ("sympy_int", "int"),
                 ("builtins.float", "sobj"): ("sympy_float rnd", "float"), ("builtins.str", "sobj"): ("sympy_str", "str")}
        if (q, ty) == ("builtins.str", "sclass"):
            return f"(sympy_class_str {t})", "str"
        need((q, ty) in table, e, f"{q}() of a value of type {ty} not accepted")
        fn, rty = table[(q, ty)]
        if "rnd" in fn:
            cx.uses.add("rnd")
        x = cx.tmp()
        B.append((x, f"{fn} {t}"))
        return x, rty
    if q in ("builtins.tuple", "builtins.list"):
        plain_args(e, 1)
        t, ty = ex(e.args[0], cx, B)
        need(isinstance(ty, tuple) and ty[0] == "list", e, "tuple / list of a non-iterable")
        return f"(py_list {t})", ty
    if q == "builtins.reversed":
        plain_args(e, 1)
        t, ty = ex(e.args[0], cx, B)
        need(isinstance(ty, tuple) and ty[0] == "list", e, "reversed of a non-sequence")
        return f"(py_reversed {t})", ty
    if q == "re.split":
        plain_args(e, 2)
        p = e.args[0]
        need(isinstance(p, ast.Constant) and p.value == "(\\d+)", e, "re.split is accepted with the pattern r\"(\\d+)\" only")
        t, _ = ex(e.args[1], cx, B, "str")
        return f"(py_re_split_digit_runs {t})", ("list", "str")
    if q == "functools.reduce":
        plain_args(e, 2)
        g, tg = ex(e.args[0], cx, B)
        l, tl = ex(e.args[1], cx, B)
        need(isinstance(tg, tuple) and tg[0] == "fn2" and tl == ("list", tg[1]), e, "reduce(f, xs): types do not fit")
        x = cx.tmp()
        B.append((x, f"py_reduce {g} {l}"))
        return x, tg[1]
    if q == "sympy.Symbol" and cx.values == "ops":
        plain_args(e, 1)
        t, _ = ex(e.args[0], cx, B, "str")
        return f"(sympy_Symbol O env {t})", "T"
    # ---- classes of expressions.py
    if q is not None and q.startswith("expressions.") and q.split(".")[1] in C:
        c = q.split(".")[1]
        fields = C[c]["fields"]
        need(not any(isinstance(a, ast.Starred) for a in e.args) and len(e.args) + len(e.keywords) == len(fields), e,
             "constructor needs one argument per field")
        given = {}
        for (fname, fty), a in zip(fields, e.args):
            given[fname] = a
        for kw in e.keywords:
            need(kw.arg in dict(fields) and kw.arg not in given, e, "constructor keyword not accepted")
            given[kw.arg] = kw.value
        texts = {}
        for fname in list(given):                 # evaluation order: positional, then keywords as written
            texts[fname], _ = ex(given[fname], cx, B, dict(fields)[fname])
        return f"({c}_new " + " ".join(texts[fname] for fname, _ in fields) + ")", ("cls", c)
    # ---- translated functions and dispatch roots
    if isinstance(f, ast.Name) and f.id not in cx.locals():
        target = None
        if f.id in M.roots or f.id in M.funcs:
            target = (M, f.id)
        elif q is not None and q.startswith("expressions.") and q.split(".")[1] in W.mods["expressions"].funcs:
            target = (W.mods["expressions"], q.split(".")[1])
        if target is not None:
            return call_translated(target, e, cx, B)
    # ---- method calls
    if isinstance(f, ast.Attribute) and q is None:
        if f.attr == "isdigit":
            plain_args(e, 0)
            t, ty = ex(f.value, cx, B)
            need(ty == "str", e, ".isdigit() of a non-string")
            return f"(py_str_isdigit {t})", "bool"
    # ---- calls of function values
    if q is None:
        g, tg = ex(f, cx, B)
        if isinstance(tg, tuple) and tg[0] == "fn":
            plain_args(e, len(tg[1]))
            args = [ex(a, cx, B, pt)[0] for a, pt in zip(e.args, tg[1])]
            return "(" + " ".join([g] + args) + ")", tg[2]
        if tg == "varargs":
            need(not e.keywords and len(e.args) == 1 and isinstance(e.args[0], ast.Starred), e, "a varargs value is called as f(*xs)")
            l, _ = ex(e.args[0].value, cx, B, ("list", "T"))
            x = cx.tmp()
            B.append((x, f"py_call_star {g} {l}"))
            return x, "T"
    reject(e, "call not accepted")

def call_translated(target, e, cx, B):
    TM, name = target
    M = cx.M
    if name in TM.roots:
        need(TM is M, e, "a dispatch root may only be called from inside its own module")
        R = ROOTS[name]
        root = TM.roots[name]["default"]
        plain_args(e, len(root.args.args))
        a0, t0 = ex(e.args[0], cx, B)
        rest = []
        for k, a in enumerate(e.args[1:], 1):
            pt, _ = param_type(root, k, TM)
            rest.append(ex(a, cx, B, pt)[0])
        cx.uses.add("self")
        x = cx.tmp()
        if R["domain"] == "sympy" and t0 == ("list", "sobj"):
            h = [fn for fn in TM.roots[name]["impls"] if param_type(fn, 0, TM)[1] == "tuple"]
            need(len(h) >= 1, e, "the root is called on a tuple but no implementation is registered for tuple")
            g = TM.translate(h[-1].name)          # a later registration replaces an earlier one
            B.append((x, " ".join([g["coq"]] + g["extra"] + [a0] + rest)))
            cx.uses.update(g["extra"])
            return x, g["ret"]
        dom = {"sympy": "sobj", "expr": "expr"}[R["domain"]]
        a0 = coerce(a0, t0, dom, cx, B, e)
        B.append((x, " ".join(["self", a0] + rest)))
        return x, R["ret"]
    g = TM.translate(name)
    plain_args(e, len(g["params"]))
    args = [ex(a, cx, B, pt)[0] for a, pt in zip(e.args, g["params"])]
    cx.uses.update(g["extra"])
    if g.get("pure"):
        return "(" + " ".join([g["coq"]] + g["extra"] + args) + ")", g["ret"]
    x = cx.tmp()
    B.append((x, " ".join([g["coq"]] + g["extra"] + args)))
    return x, g["ret"]

# ----------------------------------------------------------------------------- statements
def terminates(stmts):
    if not stmts:
        return False
    s = stmts[-1]
    if isinstance(s, (ast.Return, ast.Raise)):
        return True
    return isinstance(s, ast.If) and terminates(s.body) and terminates(s.orelse)

def check_message(a, cx, node):
    ok = isinstance(a, ast.Constant) and isinstance(a.value, str)
    if isinstance(a, ast.JoinedStr):
        def fine(v):
            if isinstance(v, ast.Constant):
                return isinstance(v.value, str)
            if not isinstance(v, ast.FormattedValue) or v.format_spec is not None or v.conversion != -1:
                return False
            w = v.value
            if isinstance(w, ast.Call) and cx.M.qual(w.func, cx.locals()) == "builtins.type" and len(w.args) == 1 and not w.keywords:
                w = w.args[0]
            while isinstance(w, ast.Attribute):
                w = w.value
            return isinstance(w, ast.Name) and w.id in cx.env
        ok = all(fine(v) for v in a.values)
    need(ok, node, "exception message must be a string literal or an f-string over locals")

def block(stmts, cx):
    """statements -> term of type res <cx.ret>"""
    need(bool(stmts), cx.fn, "a block falls off its end (only a body that is just `pass` may)")
    s, rest = stmts[0], stmts[1:]
    if isinstance(s, ast.Return):
        need(not rest and s.value is not None, s, "return <expr> must be the last statement of its block")
        B = []
        t, ty = ex(s.value, cx, B, cx.ret[0])
        if cx.ret[0] is None:
            cx.ret[0] = ty
        return f"(* {src(s)} *)\n    " + with_binds(B, f"Ok {t}")
    if isinstance(s, ast.Raise):
        x = s.exc
        need(not rest and s.cause is None and isinstance(x, ast.Call) and cx.M.qual(x.func, cx.locals()) in ("builtins." + k for k in EXC), s,
             "only raise NotImplementedError(..) / ValueError(..) as last statement of a block")
        plain_args(x, 1)
        check_message(x.args[0], cx, s)
        return f"(* raise {x.func.id} *)\n    Err {EXC[x.func.id]}"
    if isinstance(s, ast.Pass):
        need(strip_docstring(cx.fn.body) == [s], s, "pass is accepted as a whole body only")
        return "py_returns_None"
    if isinstance(s, ast.Assign):
        need(len(s.targets) == 1 and isinstance(s.targets[0], ast.Name), s, "assignment target must be one name")
        B = []
        t, ty = ex(s.value, cx, B)
        x = new_local(s.targets[0].id, cx, s)
        need(x not in cx.env or cx.env[x] == ty, s, f"{x} is assigned values of different types")
        body = block(rest, cx.sub({x: ty}))
        return f"(* {src(s)} *)\n    " + with_binds(B, f"let v_{x} := {t} in\n    {body}")
    if isinstance(s, ast.If):
        need(terminates(s.body), s, "the body of an if statement must end in return / raise")
        B = []
        c, _ = ex(s.test, cx, B, "bool")
        a = block(s.body, cx.sub({}))
        if s.orelse:
            need(not rest and terminates(s.orelse), s, "an else block must end in return / raise and be the end of its block")
            b = block(s.orelse, cx.sub({}))
        else:
            b = block(rest, cx.sub({}))
        return f"(* if {src(s.test)} *)\n    " + with_binds(B, f"if {c} then ({a})\n    else ({b})")
    reject(s, "statement not accepted")

# ----------------------------------------------------------------------------- functions
def check_params(fn):
    a = fn.args
    need(not (a.vararg or a.kwarg or a.kwonlyargs or a.defaults or a.posonlyargs or a.kw_defaults), fn, "only plain positional parameters are accepted")

def translate_function(M, name):
    """plain function or registered implementation -> its entry in M.G; the definition is appended to M.out"""
    if name in M.G:
        return M.G[name]
    need(name not in M.busy, M.funcs[name], "recursion that does not go through a dispatch root")
    M.busy.add(name)
    fn = M.funcs[name]
    C = M.W.C
    root = None
    for r, d in M.roots.items():
        if fn in d["impls"]:
            root = r
    if any(isinstance(x, ast.FunctionDef) for x in fn.body):
        need(root is None, fn, "nested function in a registered implementation")
        g = translate_closure_factory(M, fn)
    else:
        check_params(fn)
        env, params = {}, []
        cx = Cx(M, fn, {}, [None], root)
        for k, p in enumerate(fn.args.args):
            ty, cls = param_type(fn, k, M)
            need(p.arg not in env, p, "repeated parameter")
            env[new_local(p.arg, cx, p)] = ty
            params.append((p.arg, ty))
        cx.env = env
        if root is not None:
            cls = param_type(fn, 0, M)[1]
            need(cls is not None, fn, "the first parameter of a registered implementation must be annotated with a class")
            cx.ret[0] = ("list", ROOTS[root]["ret"]) if cls == "tuple" else ROOTS[root]["ret"]
            need(fn.returns is None, fn, "return annotation on a registered implementation")
        else:
            cx.ret[0] = return_annotation(fn, M)
        text = block(strip_docstring(fn.body), cx)
        need(cx.ret[0] is not None, fn, "no result type")
        g = finish_function(M, fn, params, cx, text)
    M.G[name] = g
    M.busy.discard(name)
    return g

def implicit_binders(M, uses, poly):
    out, extra = [], []
    if poly:
        out.append("{T : Type}")
    for r, R in ROOTS.items():
        if r in M.roots:
            for i in R["implicit"]:
                if i in uses:
                    out.append(IMPLICIT_BINDER[i])
                    extra.append(i)
            if "self" in uses:
                out.append(self_binder(M, r))
                extra.append("self")
    need("rnd" not in uses or "rnd" in extra, M.tree, "float() of a sympy object outside the module of expression_from_sympy")
    return out, extra

def self_binder(M, r):
    root = M.roots[r]["default"]
    C = M.W.C
    dom = {"sympy": "sexpr", "expr": "nexpr"}[ROOTS[r]["domain"]]
    tys = [dom] + [cty(param_type(root, k, M)[0], C) for k in range(1, len(root.args.args))]
    return "(self : " + " -> ".join(tys + [f"res {cty(ROOTS[r]['ret'], C)}"]) + ")"

def finish_function(M, fn, params, cx, text):
    C = M.W.C
    ret = cx.ret[0]
    poly = any(mentions_T(t, C) for _, t in params) or mentions_T(ret, C)
    binders, extra = implicit_binders(M, cx.uses, poly)
    coq = fn.name.lstrip("_") + "_gen"
    sig = " ".join(binders + [f"(v_{p} : {cty(t, C)})" for p, t in params])
    M.out.append(f"Definition {coq} {sig} : res {cty(ret, C)} :=\n    {text}.\n")
    return dict(coq=coq, params=[t for _, t in params], ret=ret, extra=extra)

def translate_closure_factory(M, fn):
    """def f(p): def g(*args): <block>; return g   ->   f_gen p : py_varargs T := fun args => <block>"""
    check_params(fn)
    body = strip_docstring(fn.body)
    need(len(body) == 2 and isinstance(body[0], ast.FunctionDef) and isinstance(body[1], ast.Return)
         and isinstance(body[1].value, ast.Name) and body[1].value.id == body[0].name, fn, "closure factory: def inner(*args) then return inner")
    inner = body[0]
    a = inner.args
    need(not inner.decorator_list and a.vararg is not None and not (a.args or a.kwarg or a.kwonlyargs or a.defaults or a.posonlyargs)
         and a.vararg.annotation is None and inner.returns is None, inner, "inner function must be def inner(*args)")
    cx = Cx(M, inner, {}, ["T"])
    env, params = {}, []
    for k, p in enumerate(fn.args.args):
        ty, _ = param_type(fn, k, M)
        env[new_local(p.arg, cx, p)] = ty
        params.append((p.arg, ty))
    need(inner.name not in env and a.vararg.arg not in env, inner, "name clash in closure")
    new_local(inner.name, cx, inner)
    env[new_local(a.vararg.arg, cx, inner)] = ("list", "T")
    cx.env = env
    text = block(strip_docstring(inner.body), cx)
    need(not cx.uses, fn, "closure uses a dispatch root")
    C = M.W.C
    coq = fn.name.lstrip("_") + "_gen"
    sig = " ".join(["{T : Type}"] + [f"(v_{p} : {cty(t, C)})" for p, t in params])
    M.out.append(f"Definition {coq} {sig} : py_varargs T :=\n    fun v_{a.vararg.arg} =>\n    {text}.\n")
    return dict(coq=coq, params=[t for _, t in params], ret="varargs", extra=[], pure=True)

Module.translate = lambda self, name: translate_function(self, name)

# ----------------------------------------------------------------------------- classes
def translate_class(M, n):
    C = M.W.C
    need(not n.decorator_list and not n.keywords and len(n.bases) == 1 and M.qual(n.bases[0]) == "typing.NamedTuple", n,
         "only undecorated NamedTuple classes are accepted")
    fields = []
    for s in strip_docstring(n.body):
        need(isinstance(s, ast.AnnAssign) and isinstance(s.target, ast.Name) and s.value is None and s.simple == 1, s,
             "a NamedTuple body may only declare fields without defaults")
        need(COQ_IDENT.match(s.target.id) and s.target.id not in dict(fields), s, "field name not accepted")
        fields.append((s.target.id, field_type(s.annotation, M)))
    need(bool(fields), n, "class without fields")
    poly = any(mentions_T(t, C) for _, t in fields)
    C[n.name] = dict(fields=fields, poly=poly)
    tp = " (T : Type)" if poly else ""
    text = f"(* class {n.name}(NamedTuple): " + "; ".join(f"{f}: {src(s.annotation)}" for (f, _), s in zip(fields, strip_docstring(n.body))) + " *)\n"
    text += f"Record {n.name}_obj{tp} := {n.name}_new {{\n" + ";\n".join(f"  {n.name}_{f} : {cty(t, C)}" for f, t in fields) + "\n}.\n"
    if poly:
        text += f"Arguments {n.name}_new {{T}}.\n" + "".join(f"Arguments {n.name}_{f} {{T}}.\n" for f, _ in fields)
    if n.name in UNION_MEMBERS:
        need(sorted(f for f, _ in fields) == sorted(UNION_MEMBERS[n.name]), n, "the fields of this class are not the ones the Expression union is read with")
        text += f"Definition {n.name}_as_expression (x : {n.name}_obj) : nexpr := expr_of_{n.name} " + \
            " ".join(f"({n.name}_{f} x)" for f in UNION_MEMBERS[n.name]) + ".\n"
    M.out.append(text)

# ----------------------------------------------------------------------------- dispatch roots
def translate_root(M, r):
    R, d, C = ROOTS[r], M.roots[r], M.W.C
    root = d["default"]
    check_params(root)
    need(root.returns is None, root, "return annotation on a dispatch root")
    # the implementations, in source order
    impls = []
    for fn in d["impls"]:
        need(len(fn.args.args) == len(root.args.args), fn, "an implementation must have the parameters of its root")
        g = M.translate(fn.name)
        impls.append((param_type(fn, 0, M)[1], fn, g))
    # the root's own body: the default
    cx = Cx(M, root, {}, [R["ret"]], r)
    params = []
    dom = {"sympy": "sobj", "expr": "expr"}[R["domain"]]
    for k, p in enumerate(root.args.args):
        ty = dom if k == 0 else param_type(root, k, M)[0]
        need(p.arg not in cx.env, p, "repeated parameter")
        cx.env[new_local(p.arg, cx, p)] = ty
        params.append((p.arg, ty))
    text = block(strip_docstring(root.body), cx)
    need(not cx.uses, root, "the body of a dispatch root may not call the root")
    poly = any(mentions_T(t, C) for _, t in params) or mentions_T(R["ret"], C)
    tb = ["{T : Type}"] if poly else []
    sig = " ".join(f"(v_{p} : {cty(t, C)})" for p, t in params)
    M.out.append(f"Definition {r}_default {' '.join(tb)} {sig} : res {cty(R['ret'], C)} :=\n    {text}.\n")
    # one step of the dispatch
    imp = [IMPLICIT_BINDER[i] for i in R["implicit"]]
    others = " ".join(f"v_{p}" for p, _ in params[1:])
    def use(g, first):
        return " ".join([g["coq"]] + g["extra"] + [first] + ([others] if others else []))
    v0 = f"v_{params[0][0]}"
    default = " ".join([f"{r}_default"] + [f"v_{p}" for p, _ in params])
    if R["domain"] == "sympy":
        entries = []
        for cls, fn, g in impls:
            if cls == "tuple":
                continue
            entries.append(f'("{cls}", fun {v0} => {use(g, v0)})')
        body = f"py_singledispatch (sympy_mro {v0})\n      [" + ";\n       ".join(entries) + f"]\n      (fun {v0} => {default}) {v0}"
    else:
        slots = {"Number": "None", "Symbol": "None", "FunctionCall": "None"}
        for cls, fn, g in impls:                       # a later registration replaces an earlier one
            need(cls in slots, fn, "class not in the Expression union")
            if cls == "Number":
                slots[cls] = f"(Some (fun number => {use(g, 'number')}))"
            else:
                fs = UNION_MEMBERS[cls]
                rec = f"({cls}_new " + " ".join(f for f, _ in C[cls]["fields"]) + ")"
                slots[cls] = f"(Some (fun {' '.join(fs)} => {use(g, rec)}))"
        body = f"py_dispatch_expression\n      {slots['Number']}\n      {slots['Symbol']}\n      {slots['FunctionCall']}\n      ({default}) {v0}"
    M.out.append(f"Definition {r}_step {' '.join(tb + imp)} {self_binder(M, r)} {sig} : res {cty(R['ret'], C)} :=\n    {body}.\n")
    iargs = " ".join(R["implicit"])
    pnames = " ".join(f"v_{p}" for p, _ in params)
    M.out.append(f"Fixpoint {r}_fuel {' '.join(tb + imp)} (fuel : nat) {sig} {{struct fuel}} : res {cty(R['ret'], C)} :=\n"
                 f"    match fuel with\n    | O => Err EStuck\n    | S n => {r}_step {iargs} ({r}_fuel {iargs} n) {pnames}\n    end.\n")
    M.out.append(f"Definition {r}_gen {' '.join(tb + imp)} {sig} : res {cty(R['ret'], C)} :=\n"
                 f"    {r}_fuel {iargs} ({R['depth']} {v0}) {pnames}.\n")

# ----------------------------------------------------------------------------- module-level values
def translate_dialect(M, n):
    """SYMPY_DIALECT = ExpressionDialect(...) read in the abstract structure O of sympy values"""
    cx = Cx(M, n, {}, [None], None, values="ops")
    B = []
    t, ty = ex(n.value, cx, B, ("cls", "ExpressionDialect"))
    need(not B and not cx.uses, n, "the dialect must be a value (nothing that can raise)")
    M.out.append(f"Definition {n.targets[0].id}_gen (O : Ops) (env : string -> V O) : ExpressionDialect_obj (V O) :=\n    {t}.\n")

# ----------------------------------------------------------------------------- driver
HEADER = """(* GENERATED by tr/tr_symbolic.py from src/orquestra/quantum/circuits/symbolic/{expressions,_sorting,translations,
   sympy_expressions}.py - do not edit.  Every definition is the construct-by-construct translation of the Python
   definition of the same name; the meaning of the building blocks is fixed in Serde/SymbolicTrSupport.v; agreement
   with the models Serde/SymTranslate.v and Serde/NatKey.v is proved in Serde/SymbolicGenProofs.v. *)
Require Import Coq.ZArith.ZArith Coq.QArith.QArith Coq.NArith.NArith Coq.Lists.List Coq.Strings.String Coq.Bool.Bool.
Require Import OQ.Serde.SymTranslate OQ.Serde.NatKey OQ.Serde.SymbolicTrSupport.
Import ListNotations.
Open Scope string_scope.

"""

def generate(repo):
    W = World(repo)
    E, S, T, X = (W.mods[m] for m in ("expressions", "_sorting", "translations", "sympy_expressions"))
    # expressions.py
    for n in E.assigns:
        need(ast.unparse(n) == "Expression = Any" and E.alias.get("Any") == "typing.Any", n, "module-level assignment not accepted")
    need(not E.roots, E.tree, "dispatch root in expressions.py")
    for c in E.classes:
        translate_class(E, c)
    for c in ("Symbol", "FunctionCall", "ExpressionDialect"):
        need(c in W.C, E.tree, f"class {c} not found")
    E.translate("reduction") if "reduction" in E.funcs else reject(E.tree, "reduction not found")
    # _sorting.py
    need(not S.classes and not S.assigns and not S.roots, S.tree, "_sorting.py: only functions are expected")
    for f in ("_convert_string_to_int_if_possible", "natural_key", "natural_key_revlex"):
        need(f in S.funcs, S.tree, f"{f} not found")
        S.translate(f)
    # translations.py
    need(not T.classes and not T.assigns and list(T.roots) == ["translate_expression"], T.tree, "translations.py: functions and one dispatch root are expected")
    translate_root(T, "translate_expression")
    for f in T.funcs:
        T.translate(f)
    # sympy_expressions.py
    need(not X.classes and list(X.roots) == ["expression_from_sympy"], X.tree, "sympy_expressions.py: one dispatch root is expected")
    translate_root(X, "expression_from_sympy")
    for f in X.funcs:
        X.translate(f)
    need(len(X.assigns) == 1 and X.assigns[0].targets[0].id == "SYMPY_DIALECT", X.tree, "SYMPY_DIALECT expected as the only module-level assignment")
    translate_dialect(X, X.assigns[0])
    text = HEADER
    for M in (E, S, T, X):
        text += f"(* ------------------------------------------------------------------ {M.name}.py *)\n" + "\n".join(M.out) + "\n"
    return text

def run(repo, out):
    target = os.path.join(out, "SymbolicGen.v")
    try:
        text = generate(repo)
    except Reject as e:
        # fail closed: no stale definitions from an earlier source may survive a rejection; the file below does not
        # compile, so everything that depends on the generated definitions stops building until the source is accepted
        why = re.sub(r"[^A-Za-z0-9 _.,:=()\[\]'-]", " ", str(e))[:300].replace("(*", "( *").replace("*)", "* )")
        write_if_changed(target, "(* GENERATED by tr/tr_symbolic.py - THE TRANSLATOR REJECTED THE SOURCE:\n   " + why
                         + " *)\nDefinition translator_rejected_the_source : False := I.\n")
        raise
    write_if_changed(target, text)
    print("tr_symbolic: ok")

if __name__ == "__main__":
    main_wrapper(run)
