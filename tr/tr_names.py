#!/usr/bin/env python3
"""Names the circuit (de)serialiser dispatches on -> Gen/NamesGen.v  (fail-closed).

  circuits/_gates.py         : DAGGER_GATE_NAME, CONTROLLED_GATE_NAME, EXPONENTIAL_GATE_NAME,
                               POWER_GATE_SYMBOL            (module-level string constants)
  circuits/_builtin_gates.py : every name bound at module level, i.e. the keys of the dictionary
                               that `builtin_gate_by_name(name) = globals()[name]` looks the name up in,
                               each with what the name is bound to:
                                 GConst nq herm   Name = _gates.MatrixFactoryGate("Name", f, (), nq[, is_hermitian=b])
                                 GProto nq herm   Name = make_parametric_gate_prototype("Name", f, nq[, is_hermitian=b])
                                 GOther           imports, type aliases, functions, module attributes (__name__ ...)

Accepted module grammar for _builtin_gates.py: docstring, `import`/`from ... import a, b` (no star),
`def`, and single-target `Name = expr` assignments.  The string literal given as gate name must equal
the bound name (the serialiser writes gate.name, the deserialiser looks the global up).  The bodies of
`make_parametric_gate_prototype` and `builtin_gate_by_name` must be the recognised ones.  A name bound
twice, control flow at module level, `del`, annotated or augmented assignments are rejected.
"""
OUTPUTS = ['NamesGen.v']      # generated files (the driver uses this to decide which properties depend on this translator)
import ast, os
from trlib import *

MODULE_ATTRS = ["__name__", "__doc__", "__package__", "__loader__", "__spec__", "__file__", "__cached__",
                "__builtins__"]
CONSTS = ["DAGGER_GATE_NAME", "CONTROLLED_GATE_NAME", "EXPONENTIAL_GATE_NAME", "POWER_GATE_SYMBOL"]


def coq_string(s, node=None):
    if not s or any(not (32 <= ord(ch) < 127) or ch == '"' for ch in s):
        reject(node or s, "string constant is empty or has characters outside printable ASCII")
    return '"' + s + '"'


def gate_constants(tree):
    vals = {}
    for st in tree.body:
        if isinstance(st, ast.Assign) and len(st.targets) == 1 and isinstance(st.targets[0], ast.Name) \
                and st.targets[0].id in CONSTS:
            n = st.targets[0].id
            if n in vals:
                reject(st, "constant assigned twice")
            if not (isinstance(st.value, ast.Constant) and isinstance(st.value.value, str)):
                reject(st, "wrapper-name constant is not a string literal")
            vals[n] = st.value.value
    for n in CONSTS:
        if n not in vals:
            reject(n, "constant not found at module level of _gates.py")
    return vals


def const_bool(e):
    if isinstance(e, ast.Constant) and isinstance(e.value, bool):
        return e.value
    reject(e, "is_hermitian is not a literal bool")


def const_nat(e):
    if isinstance(e, ast.Constant) and isinstance(e.value, int) and not isinstance(e.value, bool) and 0 <= e.value <= 64:
        return e.value
    reject(e, "number of qubits is not a small literal int")


def herm_kw(call, npos):
    herm = False
    for kw in call.keywords:
        if kw.arg != "is_hermitian":
            reject(call, "unexpected keyword")
        herm = const_bool(kw.value)
    if len(call.args) == npos + 1:
        if call.keywords:
            reject(call, "is_hermitian given twice")
        herm = const_bool(call.args[npos])
    elif len(call.args) != npos:
        reject(call, "unexpected number of positional arguments")
    return herm


def classify(target, value):
    """what `target = value` binds"""
    if isinstance(value, ast.Call):
        f = ast.unparse(value.func)
        if f == "_gates.MatrixFactoryGate":
            herm = herm_kw(value, 4)
            a = value.args
            if not (isinstance(a[0], ast.Constant) and a[0].value == target):
                reject(value, "gate name literal differs from the global it is bound to")
            if not (isinstance(a[2], ast.Tuple) and not a[2].elts):
                reject(value, "built-in constant gate with non-empty params")
            return f"GConst {const_nat(a[3])}%Z {'true' if herm else 'false'}"
        if f == "make_parametric_gate_prototype":
            herm = herm_kw(value, 3)
            a = value.args
            if not (isinstance(a[0], ast.Constant) and a[0].value == target):
                reject(value, "gate name literal differs from the global it is bound to")
            return f"GProto {const_nat(a[2])}%Z {'true' if herm else 'false'}"
        reject(value, "module-level call not recognised")
    if isinstance(value, (ast.Subscript, ast.Name, ast.Attribute)):
        return "GOther"        # type aliases
    reject(value, "module-level assignment not recognised")


PROTO_BODY = ("def _factory(*gate_parameters: _gates.Parameter):\n"
              "    return _gates.MatrixFactoryGate(name, matrix_factory, gate_parameters, num_qubits, is_hermitian)\n"
              "return _factory")
LOOKUP_BODY = "return globals()[name]"


def body_text(fn):
    return "\n".join(ast.unparse(s) for s in strip_docstring(fn.body))


def module_globals(tree):
    names = {}

    def bind(n, what, node):
        if n in names:
            reject(node, f"name {n} bound twice at module level")
        names[n] = what

    for st in strip_docstring(tree.body):
        if isinstance(st, ast.Import):
            for al in st.names:
                bind((al.asname or al.name).split(".")[0], "GOther", st)
        elif isinstance(st, ast.ImportFrom):
            for al in st.names:
                if al.name == "*":
                    reject(st, "star import")
                bind(al.asname or al.name, "GOther", st)
        elif isinstance(st, ast.FunctionDef):
            if st.decorator_list:
                reject(st, "decorated module-level function")
            if st.name == "make_parametric_gate_prototype":
                if [a.arg for a in st.args.args] != ["name", "matrix_factory", "num_qubits", "is_hermitian"] \
                        or [ast.unparse(d) for d in st.args.defaults] != ["False"] or body_text(st) != PROTO_BODY:
                    reject(st, "make_parametric_gate_prototype is not in the recognised form")
            if st.name == "builtin_gate_by_name":
                if [a.arg for a in st.args.args] != ["name"] or body_text(st) != LOOKUP_BODY:
                    reject(st, "builtin_gate_by_name is not `return globals()[name]`")
            bind(st.name, "GOther", st)
        elif isinstance(st, ast.Assign):
            if len(st.targets) != 1 or not isinstance(st.targets[0], ast.Name):
                reject(st, "only single-name assignment targets accepted")
            bind(st.targets[0].id, classify(st.targets[0].id, st.value), st)
        else:
            reject(st, "module-level statement not accepted")
    for need in ("make_parametric_gate_prototype", "builtin_gate_by_name"):
        if need not in names:
            reject(need, "function not found")
    for n in MODULE_ATTRS:
        bind(n, "GOther", n)
    return names


def run(repo, out):
    base = os.path.join(repo, "src/orquestra/quantum/circuits")
    consts = gate_constants(ast.parse(open(os.path.join(base, "_gates.py")).read()))
    names = module_globals(ast.parse(open(os.path.join(base, "_builtin_gates.py")).read()))
    text = "(* GENERATED by tr/tr_names.py from circuits/_gates.py and circuits/_builtin_gates.py - do not edit *)\n"
    text += "Require Import Coq.ZArith.ZArith Coq.Lists.List Coq.Strings.String.\nImport ListNotations.\nOpen Scope string_scope.\n\n"
    for n in CONSTS:
        text += f"Definition {n} : string := {coq_string(consts[n])}.\n"
    text += "\n(* what a module-level name of _builtin_gates.py is bound to *)\n"
    text += "Inductive gref := GConst (num_qubits : Z) (is_hermitian : bool) | GProto (num_qubits : Z) (is_hermitian : bool) | GOther.\n\n"
    text += "(* keys of _builtin_gates.globals(), sorted *)\nDefinition builtin_globals : list (string * gref) :=\n  [ "
    text += ";\n    ".join(f"({coq_string(n)}, {names[n]})" for n in sorted(names)) + " ].\n"
    write_if_changed(os.path.join(out, "NamesGen.v"), text)
    print("tr_names: ok")


if __name__ == "__main__":
    main_wrapper(run)
