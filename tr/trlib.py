"""Shared helpers for the fail-closed Python-ast -> Coq translators."""
import ast, os, sys

class Reject(Exception):
    pass

def reject(node, why):
    raise Reject(f"line {getattr(node, 'lineno', '?')}: {why}: {ast.dump(node)[:200] if isinstance(node, ast.AST) else node}")

def find_function(tree, name):
    for n in tree.body:
        if isinstance(n, ast.FunctionDef) and n.name == name:
            return n
    raise Reject(f"function {name} not found at module level")

def strip_docstring(body):
    if body and isinstance(body[0], ast.Expr) and isinstance(getattr(body[0], "value", None), ast.Constant) \
            and isinstance(body[0].value.value, str):
        return body[1:]
    return body

def write_if_changed(path, text):
    old = open(path).read() if os.path.exists(path) else None
    if old != text:
        with open(path, "w") as f:
            f.write(text)
        # the sandbox clock is coarse: make sure a stale object file can never look newer than the new text,
        # neither the file's own nor those of the files that import it (their dependents are then rebuilt by make)
        def drop(v):
            for ext in (".vo", ".vok", ".vos", ".glob"):
                try:
                    os.unlink(v[:-2] + ext)
                except OSError:
                    pass
        drop(path)
        mod = os.path.basename(path)[:-2]
        root = os.path.dirname(os.path.dirname(os.path.abspath(path)))      # .../coq
        for d, _, names in os.walk(root):
            for n in names:
                if n.endswith(".v"):
                    f = os.path.join(d, n)
                    try:
                        if mod in open(f, errors="replace").read() and os.path.abspath(f) != os.path.abspath(path):
                            drop(f)
                    except OSError:
                        pass
        return True
    return False

def main_wrapper(fn):
    import argparse
    ap = argparse.ArgumentParser()
    ap.add_argument("--repo", default="/repo")
    ap.add_argument("--out", required=True)
    a = ap.parse_args()
    try:
        fn(a.repo, a.out)
    except Reject as e:
        print(f"TRANSLATOR REJECTS SOURCE: {e}")
        sys.exit(3)
