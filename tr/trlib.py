"""Shared helpers for the fail-closed Python-ast -> Coq translators."""
import ast, os, sys

class Reject(Exception):
    pass

def reject(node, why):
    raise Reject(f"line {getattr(node, 'lineno', '?')}: {why}: {ast.dump(node)[:200] if isinstance(node, ast.AST) else node}")

def find_function(tree, name):
    for n in tree.body:
        if isinstance(n, ast.FunctionDef) and n.name == name:
            return n
    raise Reject(f"function {name} not found at module level")

def strip_docstring(body):
    if body and isinstance(body[0], ast.Expr) and isinstance(getattr(body[0], "value", None), ast.Constant) \
            and isinstance(body[0].value.value, str):
        return body[1:]
    return body

def write_if_changed(path, text):
    old = open(path).read() if os.path.exists(path) else None
    if old != text:
        with open(path, "w") as f:
            f.write(text)
        # the sandbox clock is coarse: make sure a stale object file can never look newer than the new text
        for ext in (".vo", ".vok", ".vos", ".glob"):
            try:
                os.unlink(path[:-2] + ext)
            except OSError:
                pass
        return True
    return False

def main_wrapper(fn):
    import argparse
    ap = argparse.ArgumentParser()
    ap.add_argument("--repo", default="/repo")
    ap.add_argument("--out", required=True)
    a = ap.parse_args()
    try:
        fn(a.repo, a.out)
    except Reject as e:
        print(f"TRANSLATOR REJECTS SOURCE: {e}")
        sys.exit(3)
