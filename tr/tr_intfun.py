#!/usr/bin/env python3
"""Translate straight-line integer helper functions to Gallina over Z (fail-closed).

  circuits/_itertools.py : _expand_sample_size              -> Gen/ExpandGen.v
  wavefunction.py        : _get_next_number_with_same_hamming_weight,
                           _most_significant_set_bit          -> Gen/GosperGen.v

Accepted grammar: a function whose body is `name = expr` assignments followed by `return expr`;
expr over int-typed names and literals with + - * // % | & >> and unary -, the conditional
expression `a if x == y else b` (also != < <= > >=), one-element tuple literals `(e,)`,
`int * tuple`, `tuple + tuple`, and a returned pair.  Python semantics kept: // and % are floor
division/modulo (Z.div/Z.modulo), | & on negative numbers are two's complement (Z.lor/Z.land),
a non-positive repetition count gives the empty tuple (Z.to_nat).
`len(bin(v)) - 2` is read as the bit length `Z.log2 v + 1` for v > 0 (the only recognised use of bin).
Anything else - in particular true division `/` and math.ceil - is rejected.
"""
OUTPUTS = ['ExpandGen.v', 'GosperGen.v']      # generated files (the driver uses this to decide which properties depend on this translator)
import ast, os
from trlib import *

INT, TUP = "Z", "list Z"
BIN = {ast.Add: "Z.add", ast.Sub: "Z.sub", ast.Mult: "Z.mul", ast.FloorDiv: "Z.div", ast.Mod: "Z.modulo",
       ast.BitOr: "Z.lor", ast.BitAnd: "Z.land", ast.RShift: "Z.shiftr", ast.LShift: "Z.shiftl"}
CMP = {ast.Eq: "Z.eqb {a} {b}", ast.NotEq: "negb (Z.eqb {a} {b})", ast.Lt: "Z.ltb {a} {b}", ast.LtE: "Z.leb {a} {b}",
       ast.Gt: "Z.ltb {b} {a}", ast.GtE: "Z.leb {b} {a}"}

def expr(e, env):
    """returns (coq text, type)"""
    if isinstance(e, ast.Constant) and isinstance(e.value, int) and not isinstance(e.value, bool):
        return f"({e.value})%Z", INT
    if isinstance(e, ast.Name):
        if e.id not in env:
            reject(e, "unknown name")
        return e.id, env[e.id]
    if isinstance(e, ast.UnaryOp) and isinstance(e.op, ast.USub):
        t, ty = expr(e.operand, env)
        if ty != INT:
            reject(e, "unary minus on non-int")
        return f"(Z.opp {t})", INT
    if isinstance(e, ast.Tuple):
        if len(e.elts) != 1:
            reject(e, "only one-element tuple literals are accepted inside expressions")
        t, ty = expr(e.elts[0], env)
        if ty != INT:
            reject(e, "tuple of non-int")
        return f"[{t}]", TUP
    if isinstance(e, ast.BinOp):
        a, ta = expr(e.left, env)
        b, tb = expr(e.right, env)
        if ta == INT and tb == INT:
            if type(e.op) not in BIN:
                reject(e, "operator not accepted on integers (true division and ** are rejected)")
            return f"({BIN[type(e.op)]} {a} {b})", INT
        if isinstance(e.op, ast.Mult) and ta == INT and tb == TUP:
            return f"(rep_tuple {a} {b})", TUP
        if isinstance(e.op, ast.Mult) and ta == TUP and tb == INT:
            return f"(rep_tuple {b} {a})", TUP
        if isinstance(e.op, ast.Add) and ta == TUP and tb == TUP:
            return f"({a} ++ {b})", TUP
        reject(e, "ill-typed binary operation")
    if isinstance(e, ast.IfExp):
        c = e.test
        if not (isinstance(c, ast.Compare) and len(c.ops) == 1 and type(c.ops[0]) in CMP):
            reject(c, "condition not accepted")
        a, ta = expr(c.left, env)
        b, tb = expr(c.comparators[0], env)
        if ta != INT or tb != INT:
            reject(c, "comparison of non-ints")
        x, tx = expr(e.body, env)
        y, ty = expr(e.orelse, env)
        if tx != ty:
            reject(e, "branches of different type")
        return f"(if {CMP[type(c.ops[0])].format(a=a, b=b)} then {x} else {y})", tx
    reject(e, "expression not accepted")

def function(fn, ret_tuple):
    args = [a.arg for a in fn.args.args]
    if fn.decorator_list: reject(fn, "decorated function (a decorator may change what the call returns)")
    if fn.args.vararg or fn.args.kwarg or fn.args.kwonlyargs or fn.args.defaults:
        reject(fn, "only plain positional arguments accepted")
    env = {a: INT for a in args}
    lets = []
    body = strip_docstring(fn.body)
    for st in body[:-1]:
        if not (isinstance(st, ast.Assign) and len(st.targets) == 1 and isinstance(st.targets[0], ast.Name)):
            reject(st, "statement not accepted")
        t, ty = expr(st.value, env)
        env[st.targets[0].id] = ty
        lets.append((st.targets[0].id, t))
    ret = body[-1]
    if not isinstance(ret, ast.Return) or ret.value is None:
        reject(ret, "function must end in return <expr>")
    if ret_tuple:
        if not (isinstance(ret.value, ast.Tuple) and len(ret.value.elts) == 2):
            reject(ret, "expected a returned pair")
        parts = [expr(x, env) for x in ret.value.elts]
        rt = "(" + ", ".join(p[0] for p in parts) + ")"
        rty = "(" + " * ".join(p[1] for p in parts) + ")"
    else:
        rt, rty = expr(ret.value, env)
    text = f"Definition {fn.name.lstrip('_')} " + " ".join(f"({a} : Z)" for a in args) + f" : {rty} :=\n"
    for n, t in lets:
        text += f"  let {n} := {t} in\n"
    text += f"  {rt}.\n"
    return text

def msb(fn):
    if fn.decorator_list: reject(fn, "decorated function")
    """_most_significant_set_bit: bin_string = bin(val); return len(bin_string) - 2"""
    body = strip_docstring(fn.body)
    src = [ast.unparse(s) for s in body]
    arg = fn.args.args[0].arg
    if src == [f"bin_string = bin({arg})", "return len(bin_string) - 2"] or src == [f"return len(bin({arg})) - 2"]:
        return f"Definition {fn.name.lstrip('_')} ({arg} : Z) : Z := Z.add (Z.log2 {arg}) 1.\n"
    reject(fn, "_most_significant_set_bit is not in the recognised form len(bin(v)) - 2")

HEADER = "(* GENERATED by tr/tr_intfun.py from {src} - do not edit *)\nRequire Import Coq.ZArith.ZArith Coq.Lists.List.\nImport ListNotations.\nOpen Scope Z_scope.\n\nDefinition rep_tuple (k : Z) (t : list Z) : list Z := concat (repeat t (Z.to_nat k)).\n\n"

def run(repo, out):
    p1 = os.path.join(repo, "src/orquestra/quantum/circuits/_itertools.py")
    t1 = ast.parse(open(p1).read())
    text = HEADER.format(src="circuits/_itertools.py") + function(find_function(t1, "_expand_sample_size"), True)
    write_if_changed(os.path.join(out, "ExpandGen.v"), text)
    p2 = os.path.join(repo, "src/orquestra/quantum/wavefunction.py")
    t2 = ast.parse(open(p2).read())
    text = HEADER.format(src="wavefunction.py") + function(find_function(t2, "_get_next_number_with_same_hamming_weight"), False) \
        + "\n" + msb(find_function(t2, "_most_significant_set_bit"))
    write_if_changed(os.path.join(out, "GosperGen.v"), text)
    print("tr_intfun: ok")

if __name__ == "__main__":
    main_wrapper(run)
