#!/usr/bin/env python3
"""Translate the Circuit class and the circuit generators to Gallina (fail-closed: exit code 3 on anything outside the
grammar below; the output is then overwritten by a stub that does not compile).

  circuits/_circuit.py     : _circuit_size_by_operations, class Circuit (__init__, operations, n_qubits, free_symbols,
                             __add__, bind, inverse, controlled), the functools.singledispatch function
                             _append_to_circuit with its registered implementations _append_operation, _append_circuit
  circuits/_generators.py  : create_layer_of_gates, apply_gate_to_qubits, add_ancilla_register
  circuits/_builtin_gates.py : the binding of the gate constant I (used by add_ancilla_register)
                                                                                      -> Gen/CircuitGen.v

The translation is syntax directed: each accepted construct becomes one piece of Gallina whose meaning is a definition of
coq/Circ/CircuitTrSupport.v (or a plain let / match / if / list display).  No function is recognised as a whole.
coq/Circ/CircuitGenProofs.v proves, on every run, that the generated definitions agree with the model of
Circ/Constructions.v that the C08 theorems are about.  Everything below circuits (operations, gates and their methods,
parameters, symbols, CPython's set iteration order) is a field of the record `pyenv` the generated section abstracts over.

Accepted grammar
  modules     docstring, imports, function and class definitions only; every name bound once; the names the grammar gives
              a meaning to must be imported from the expected module; the builtins of BUILTINS are never re-bound.
              Decorators: @property on methods; @singledispatch on a function whose first parameter has no annotation and
              @<that function>.register on functions whose first parameter is annotated Circuit or _gates.GateOperation;
              every other decorator is rejected.  Class Circuit: no bases, docstring + methods, every method name listed
              in TRANSLATED_METHODS or IGNORED_METHODS (so __iadd__, __radd__, __getattr__ .. can not appear unnoticed).
  types       from annotations: int, Circuit / "Circuit", _operations.Operation and _gates.GateOperation (an operation),
              Gate, GatePrototype (a callable from parameters to a gate), sympy.Symbol, Dict[sympy.Symbol, Any],
              np.ndarray (rows of gate parameters), Optional[T] (option), Union[A, B] (sum), Iterable[T] (one-shot),
              Collection[T] / List[T] (re-iterable); a function without annotations is typed at its first call.
              Inferred: bool, gate parameter, tuples of ints (lists), pairs (zip), sets.
  statements  x = e | x += e (ints; a Circuit: x = Circuit.__add__(x, e), the class defines no __iadd__) |
              self.f = e (in __init__ only; read back as self.f) | x.append(e) / x.add(e) on a local created as [] /
              set() in the same function and not aliased | warn(<literal>) (no effect on values) | assert e |
              if / else (a test `x` / `x is None` / `x is not None` on an Optional name narrows it in the branches; a
              branch may end in return / raise; branches that fall through are joined on the locals they re-bind) |
              for x in e / for a, b in zip(..) (no break / continue / return / else; the locals it re-binds are carried
              as a tuple and must be bound before; its targets must be new names; they and its other locals are not
              visible after) |
              try: <block ending in return> except <ExceptionClass> as e: raise <ExceptionClass>(<literal>) from e |
              return e | raise <ExceptionClass>(<literal>).
  expressions names, int literals, None (where an Optional is expected), a if t else b, not, == != < <= > >= on ints,
              x in s / x not in s, + - on ints, circuit + x, [e, *xs, ..] and (e, *xs, ..) displays of one element type,
              list / generator comprehensions (any number of for clauses, no conditions),
              attributes: self.f, circuit.<field or property>, operation.qubit_indices / .gate / .free_symbols,
              gate.dagger; calls: len list set reversed range zip max all int isinstance(x, _gates.GateOperation)
              cast(T, x) type(x)(..) Circuit(..), translated functions / methods (positional and keyword arguments,
              defaults None), operation.bind(m), gate.controlled(k), gate(q) / gate( *qs) (GateOperation),
              prototype( *row) (a gate; may raise), the singledispatch function (dispatch on the static type of the
              first argument: a sum is matched, an operation is tested with isinstance).
Evaluation order is Python's: sub-expressions that can raise are bound left to right before the pure remainder.
Not translated: Circuit.__eq__, __repr__, collect_custom_gate_definitions, to_unitary, _innermost_gate,
_operation_uses_custom_gate, split_circuit (they are not inspected and can not be referenced by translated code).
"""
OUTPUTS = ['CircuitGen.v']      # generated files (the driver uses this to decide which properties depend on this translator)
import ast, os, re
from trlib import *

FORBIDDEN_TEXT = re.compile(r"Admitted|admit|Axiom|Parameter|Conjecture|bypass_check|Unset|\(\*|\*\)|type-in-type|impredicative")
BUILTINS = ["len", "list", "set", "reversed", "range", "zip", "max", "all", "int", "isinstance", "type", "ValueError",
            "AttributeError", "AssertionError", "NotImplementedError", "TypeError", "property", "hasattr", "sorted", "map",
            "str", "self", "None", "True", "False"]
EXNS = ["ValueError", "AttributeError", "AssertionError", "NotImplementedError", "TypeError"]
TRANSLATED_METHODS = ["__init__", "operations", "n_qubits", "free_symbols", "__add__", "bind", "inverse", "controlled"]
IGNORED_METHODS = ["__eq__", "__repr__", "collect_custom_gate_definitions", "to_unitary"]
PROPERTIES = ["operations", "n_qubits", "free_symbols"]

# ------------------------------------------------------------------ types
INT, BOOL, OP, GATE, SYM, SYMMAP, PARAM, PROTO, CIRC, NONE, EXN = (("int",), ("bool",), ("op",), ("gate",), ("sym",), ("symmap",),
                                                                    ("param",), ("proto",), ("circ",), ("none",), ("exn",))
def SEQ(t): return ("seq", t)        # list / tuple / Collection: re-iterable, has len
def ITER(t): return ("iter", t)      # one-shot iterator
def SET(t): return ("set", t)        # a set built from an iterable: the list of its elements in CPython's iteration order
def MSET(t): return ("mset", t)      # a set built by set() and .add only: membership is all that is observed
def OPT(t): return ("opt", t)
def UNION(a, b): return ("union", a, b)
def TUP(a, b): return ("tup", a, b)

def complete(t):
    return t is not None and all(complete(x) for x in t[1:])

def cty(t):
    if not complete(t): raise Reject(f"internal: type {t} is not determined")
    k = t[0]
    if k in ("seq", "iter", "set", "mset"): return f"(list {cty(t[1])})"
    if k == "opt": return f"(option {cty(t[1])})"
    if k == "union": return f"({cty(t[1])} + {cty(t[2])})%type"
    if k == "tup": return f"({cty(t[1])} * {cty(t[2])})%type"
    return {"int": "Z", "bool": "bool", "op": "(Op E)", "gate": "(Gate E)", "sym": "(Sym E)", "symmap": "(SymMap E)",
            "param": "(Param E)", "proto": "(pyproto E)", "circ": "Circuit_obj", "none": "unit"}[k]

def unify(a, b, node):
    """equal up to undetermined element types; the more determined one"""
    if a is None: return b
    if b is None: return a
    if a[0] != b[0] or len(a) != len(b): reject(node, f"type mismatch: {a} vs {b}")
    return (a[0],) + tuple(unify(x, y, node) for x, y in zip(a[1:], b[1:]))

def need(cond, node, why):
    if not cond: reject(node, why)

def src(node):
    t = " ".join(ast.unparse(node).split("\n")[0].split()).replace("(*", "( *").replace("*)", "* )")
    return "(source elided)" if FORBIDDEN_TEXT.search(t) or '"' in t else t[:160]

IDENT = re.compile(r"[A-Za-z_][A-Za-z0-9_]*\Z")

# ------------------------------------------------------------------ computations (what a block of statements becomes)
class Ret:                        # the value e
    def __init__(self, text): self.text = text
class Rz:                         # raise
    def __init__(self, exn): self.exn = exn
class Let:                        # let x [: T] := e in body          (e can not raise)
    def __init__(self, x, ann, text, body): self.x, self.ann, self.text, self.body = x, ann, text, body
class Bind:                       # evaluate c1, name its value, go on
    def __init__(self, pat, c1, body): self.pat, self.c1, self.body = pat, c1, body
class If:
    def __init__(self, cond, a, b): self.cond, self.a, self.b = cond, a, b
class Match:                      # match on an option / a sum
    def __init__(self, scrut, cases): self.scrut, self.cases = scrut, cases
class Cmt:
    def __init__(self, text, body): self.text, self.body = text, body
class Eff:                        # a term of type result T
    def __init__(self, text): self.text = text
class Comp:                       # one `for v in xs` clause of a comprehension; inner produces a list
    def __init__(self, xs, pat, inner): self.xs, self.pat, self.inner = xs, pat, inner
class For:                        # py_for xs init (fun pat st => body)
    def __init__(self, xs, pat, stpat, init, body): self.xs, self.pat, self.stpat, self.init, self.body = xs, pat, stpat, init, body
class Try:
    def __init__(self, body, var, exn, handler): self.body, self.var, self.exn, self.handler = body, var, exn, handler

def pure(c):
    if isinstance(c, Ret): return True
    if isinstance(c, (Rz, Eff, For, Try)): return False
    if isinstance(c, (Let, Cmt)): return pure(c.body)
    if isinstance(c, Bind): return pure(c.c1) and pure(c.body)
    if isinstance(c, If): return pure(c.a) and pure(c.b)
    if isinstance(c, Match): return all(pure(x) for _, x in c.cases)
    if isinstance(c, Comp): return pure(c.inner)
    raise Reject("internal: pure")

def ind(text, n=2):
    return text.replace("\n", "\n" + " " * n)

def emit(c, m):
    """text of computation c: of type result T when m (monadic), of type T otherwise (c must be pure)"""
    if isinstance(c, Ret): return f"Ok {c.text}" if m else c.text
    if isinstance(c, Rz): return f"Raise {c.exn}"
    if isinstance(c, Eff): return c.text
    if isinstance(c, Cmt): return f"(* {c.text} *)\n{emit(c.body, m)}"
    if isinstance(c, Let):
        return f"let {c.x}{' : ' + c.ann if c.ann else ''} := {c.text} in\n{emit(c.body, m)}"
    if isinstance(c, Bind):
        if pure(c.c1):
            return f"let {c.pat} := ({ind(emit(c.c1, False))}) in\n{emit(c.body, m)}"
        return f"bind ({ind(emit(c.c1, True))}) (fun {c.pat} =>\n{emit(c.body, m)})"
    if isinstance(c, If):
        return f"if {c.cond} then (\n  {ind(emit(c.a, m))})\nelse (\n  {ind(emit(c.b, m))})"
    if isinstance(c, Match):
        return f"match {c.scrut} with\n" + "\n".join(f"| {p} =>\n  {ind(emit(x, m))}" for p, x in c.cases) + "\nend"
    if isinstance(c, Comp):
        if pure(c.inner):
            t = f"flat_map (fun {c.pat} => {ind(emit(c.inner, False))}) {c.xs}"
            return f"Ok ({t})" if m else t
        return f"py_comp {c.xs} (fun {c.pat} =>\n  {ind(emit(c.inner, True))})"
    if isinstance(c, For):
        return f"py_for {c.xs} {c.init} (fun {c.pat} {c.stpat} =>\n  {ind(emit(c.body, True))})"
    if isinstance(c, Try):
        return (f"py_try (\n  {ind(emit(c.body, True))})\n(fun {c.var} => if pyexn_eqb {c.var} {c.exn} then (\n  {ind(emit(c.handler, True))})\n"
                f"else Raise {c.var})")
    raise Reject("internal: emit")

def wrap(binds, c):
    for x, c1 in reversed(binds):
        c = Bind(x, c1, c)
    return c

def value(binds, text):
    """the computation: evaluate binds, then the value text"""
    if binds and isinstance(binds[-1][1], (Eff, Comp, If, Match)) and text == binds[-1][0]:
        return wrap(binds[:-1], binds[-1][1])           # bind e (fun x => Ok x)  is  e
    return wrap(binds, Ret(text))

# ------------------------------------------------------------------ modules
class Sig:
    """a translated function / method: its Coq name, parameters [(name, type, default node or None)], return type,
    whether it can raise"""
    def __init__(self, coq): self.coq, self.params, self.ret, self.pure, self.done = coq, None, None, None, False

class Module:
    def __init__(self, path, tree, tr):
        self.path, self.tree, self.tr = path, tree, tr
        self.names = {}        # name -> kind tuple
        self.funcs = {}        # module-level FunctionDef by name
        self.classes = {}
        self.sigs = {}         # qualified name -> Sig
        self.generic = {}      # singledispatch function name -> {"default": FunctionDef, "impls": [(class key, FunctionDef)]}

    def bind(self, x, node, kind):
        need(IDENT.match(x) is not None, node, f"name {x!r}")
        need(x not in self.names, node, f"{x} is bound twice at module level")
        need(x not in BUILTINS, node, f"the builtin {x} is re-bound at module level")
        self.names[x] = kind

def scan_module(M, expected):
    """expected: {(module, name) or ('import', module): kind} for the imports the grammar gives a meaning to; other
    imports bind names without meaning (a use of such a name is rejected where it occurs)."""
    for n in M.tree.body:
        if isinstance(n, ast.Expr) and isinstance(n.value, ast.Constant) and isinstance(n.value.value, str):
            continue
        if isinstance(n, ast.Import):
            for a in n.names:
                x = a.asname or a.name
                need("." not in x, n, "dotted import")
                M.bind(x, n, expected.get(("import", a.name, a.asname), ("opaque",)))
        elif isinstance(n, ast.ImportFrom):
            for a in n.names:
                need(a.name != "*", n, "star import (may rebind anything)")
                key = ("." * n.level + (n.module or ""), a.name)
                kind = expected.get(key, ("opaque",))
                if a.asname is not None and kind != ("opaque",): reject(n, "import alias of a name of the grammar")
                M.bind(a.asname or a.name, n, kind)
        elif isinstance(n, ast.FunctionDef):
            M.bind(n.name, n, ("func", n.name))
            M.funcs[n.name] = n
        elif isinstance(n, ast.ClassDef):
            M.bind(n.name, n, ("class", n.name))
            M.classes[n.name] = n
        else:
            reject(n, "module-level statement not accepted (only imports, function and class definitions)")
    # decorators of module-level functions
    for f in M.funcs.values():
        d = f.decorator_list
        if not d: continue
        need(len(d) == 1, f, "several decorators")
        if isinstance(d[0], ast.Name) and d[0].id == "singledispatch" and M.names.get("singledispatch") == ("functools", "singledispatch"):
            need(f.name not in M.generic, f, "generic function defined twice")
            M.generic[f.name] = dict(default=f, impls=[])
            M.names[f.name] = ("generic", f.name)
        elif isinstance(d[0], ast.Attribute) and d[0].attr == "register" and isinstance(d[0].value, ast.Name) and d[0].value.id in M.generic:
            a = f.args.args
            need(a and a[0].annotation is not None, f, "registered implementation without an annotation on its first parameter")
            M.generic[d[0].value.id]["impls"].append((ast.unparse(a[0].annotation), f))
            M.names[f.name] = ("impl", f.name)
        else:
            reject(f, "decorated function (a decorator may change what the call returns)")

def check_class(M, c):
    need(not c.bases and not c.keywords and not c.decorator_list, c, "class with bases, keywords or decorators")
    methods = {}
    for n in strip_docstring(c.body):
        need(isinstance(n, ast.FunctionDef), n, "class-level statement that is not a method definition")
        need(n.name not in methods, n, f"method {n.name} defined twice")
        need(n.name in TRANSLATED_METHODS + IGNORED_METHODS, n, f"method {n.name} is not known to the grammar (it may change how the translated methods are reached)")
        d = n.decorator_list
        isprop = len(d) == 1 and isinstance(d[0], ast.Name) and d[0].id == "property"
        need(not d or isprop, n, "decorated method (only exactly @property is accepted)")
        if n.name in TRANSLATED_METHODS:
            need(isprop == (n.name in PROPERTIES), n, f"{n.name} must{'' if n.name in PROPERTIES else ' not'} be a property")
        methods[n.name] = (n, isprop)
    for m in TRANSLATED_METHODS:
        need(m in methods, c, f"method {m} is missing")
    return methods

def ann(a, M):
    """annotation -> type"""
    need(a is not None, M.tree, "missing annotation")
    N = M.names
    if isinstance(a, ast.Constant) and a.value == "Circuit" and N.get("Circuit", ("",))[0] in ("class", "circuitclass"): return CIRC
    if isinstance(a, ast.Name):
        if a.id == "int" and "int" not in N: return INT
        k = N.get(a.id)
        if k is not None and k[0] in ("class", "circuitclass") and a.id == "Circuit": return CIRC
        if k == ("gates", "Gate"): return GATE
        if k == ("builtin_gates", "GatePrototype"): return PROTO
    if isinstance(a, ast.Attribute) and isinstance(a.value, ast.Name):
        k = N.get(a.value.id)
        if k == ("pkgmod", "_gates") and a.attr == "GateOperation": return OP
        if k == ("pkgmod", "_operations") and a.attr == "Operation": return OP
        if k == ("mod", "sympy") and a.attr == "Symbol": return SYM
        if k == ("mod", "numpy") and a.attr == "ndarray": return SEQ(SEQ(PARAM))
    if isinstance(a, ast.Subscript) and isinstance(a.value, ast.Name):
        k = N.get(a.value.id)
        if k == ("typing", "Optional"): return OPT(ann(a.slice, M))
        if k == ("typing", "Iterable"): return ITER(ann(a.slice, M))
        if k in (("typing", "Collection"), ("typing", "List")): return SEQ(ann(a.slice, M))
        if k == ("typing", "Union") and isinstance(a.slice, ast.Tuple) and len(a.slice.elts) == 2:
            x, y = ann(a.slice.elts[0], M), ann(a.slice.elts[1], M)
            need(x != y and x[0] != "union" and y[0] != "union", a, "Union of equal or nested types")
            return UNION(x, y)
        if k == ("typing", "Dict") and ast.unparse(a.slice) == "(sympy.Symbol, Any)" and N.get("sympy") == ("mod", "sympy") \
                and N.get("Any") == ("typing", "Any"): return SYMMAP
    reject(a, "annotation not accepted")

# ------------------------------------------------------------------ coercions at call sites
def coerce(t, ty, pty, node):
    """text of a value of static type ty where a parameter of type pty is expected"""
    if pty[0] == "opt":
        if ty == NONE: return "None"
        if ty[0] == "opt":
            need(ty == pty, node, f"a value of type {ty} where {pty} is expected")
            return t
        return f"(Some {coerce(t, ty, pty[1], node)})"
    if pty[0] == "union":
        if ty[0] == "union":
            need(ty == pty, node, f"a value of type {ty} where {pty} is expected")
            return t
        for side, k in (("inl", 1), ("inr", 2)):
            if compatible(ty, pty[k]): return f"({side} {coerce(t, ty, pty[k], node)})"
        reject(node, f"a value of type {ty} where {pty} is expected")
    if ty == NONE: reject(node, f"None where {pty} is expected")
    if pty[0] == "iter" and ty[0] in ("seq", "iter", "set"):
        unify(ty[1], pty[1], node)
        return t
    if pty[0] == "seq" and ty[0] == "seq":
        unify(ty[1], pty[1], node)
        return t
    need(ty == pty, node, f"a value of type {ty} where {pty} is expected")
    return t

def compatible(ty, pty):
    try:
        coerce("", ty, pty, None)
        return True
    except Reject:
        return False

def cvar(x):
    return "f_" + x[5:] if x.startswith("self.") else "v_" + x

def vtuple(names):
    if not names: return "tt"
    return "(" + ", ".join(cvar(x) for x in names) + ")" if len(names) > 1 else cvar(names[0])

def vpat(names):
    if not names: return "_"
    return "'(" + ", ".join(cvar(x) for x in names) + ")" if len(names) > 1 else cvar(names[0])

# ------------------------------------------------------------------ one function
def mutation_target(s):
    """name of the local that statement s updates in place (x.append(e) / x.add(e)), or None"""
    if isinstance(s, ast.Expr) and isinstance(s.value, ast.Call) and isinstance(s.value.func, ast.Attribute) \
            and s.value.func.attr in ("append", "add") and isinstance(s.value.func.value, ast.Name):
        return s.value.func.value.id
    return None

def field_target(s):
    if isinstance(s, ast.Assign) and len(s.targets) == 1:
        t = s.targets[0]
        if isinstance(t, ast.Attribute) and isinstance(t.value, ast.Name) and t.value.id == "self": return t.attr
    return None

def assigned(stmts):
    """locals (and self.f) re-bound or updated in place in the statements (nested blocks included), in source order"""
    out = []
    def add(x):
        if x not in out: out.append(x)
    def visit(s):
        if isinstance(s, (ast.Assign, ast.AugAssign, ast.AnnAssign)):
            for t in (s.targets if isinstance(s, ast.Assign) else [s.target]):
                if isinstance(t, ast.Name): add(t.id)
        f = field_target(s)
        if f is not None: add("self." + f)
        x = mutation_target(s)
        if x is not None: add(x)
        for fld in ("body", "orelse", "handlers", "finalbody"):
            for c in getattr(s, fld, []) or []: visit(c)
    for s in stmts: visit(s)
    return out

def always_exits(stmts):
    if not stmts: return False
    s = stmts[-1]
    if isinstance(s, (ast.Return, ast.Raise)): return True
    if isinstance(s, ast.Try): return always_exits(s.body) and all(always_exits(h.body) for h in s.handlers)
    return isinstance(s, ast.If) and bool(s.orelse) and always_exits(s.body) and always_exits(s.orelse)

class Fn:
    def __init__(self, tr, M, fdef, cls):
        self.tr, self.M, self.fdef, self.cls = tr, M, fdef, cls
        self.fresh = 0
        self.ret = None
        self.is_init = cls is not None and fdef.name == "__init__"
        self.iters = {}           # names that were bound to a one-shot iterator -> binding node
        self.lazy = []            # generator expressions stored in a local
    def tmp(self):
        self.fresh += 1
        return f"x{self.fresh}"
    def set_ret(self, ty, node):
        if ty[0] in ("iter", "set", "mset") or ty in (NONE, EXN): reject(node, f"a function returning a value of type {ty}")
        self.ret = unify(self.ret, ty, node)

def bind_local(x, ty, env, F, node):
    need(IDENT.match(x) is not None and "__" not in x and x not in BUILTINS, node, f"name {x!r} not accepted as a local")
    need(x not in F.M.names, node, f"local {x} shadows a module-level name")
    if ty[0] == "iter": F.iters.setdefault(x, node)
    elif x in F.iters: reject(node, f"{x} is bound to a one-shot iterator elsewhere")
    return {**env, x: ty}

# ------------------------------------------------------------------ expressions
def elem_eqb(ty, node):
    if ty == INT: return "Z.eqb"
    if ty == SYM: return "(sym_eqb E)"
    reject(node, f"equality on elements of type {ty} is not modelled")

def truth(e, env, F, binds):
    t, ty = ex(e, env, F, binds)
    if ty == BOOL: return t
    if ty[0] == "seq": return f"(py_truth_seq {t})"
    reject(e, f"truth value of a value of type {ty} is not modelled")

def narrowing(e, env):
    """a test that narrows an Optional name: -> (name, scrutinee text, type in the Some branch, Some-branch-is-true) or None"""
    if isinstance(e, ast.Name) and env.get(e.id) == OPT(INT):
        return e.id, f"(py_truthy_optint v_{e.id})", INT, True
    if isinstance(e, ast.Compare) and len(e.ops) == 1 and isinstance(e.ops[0], (ast.Is, ast.IsNot)) and isinstance(e.left, ast.Name) \
            and isinstance(e.comparators[0], ast.Constant) and e.comparators[0].value is None:
        ty = env.get(e.left.id)
        need(ty is not None and ty[0] == "opt", e, "`is None` on something that is not an Optional name")
        return e.left.id, f"v_{e.left.id}", ty[1], isinstance(e.ops[0], ast.IsNot)
    if isinstance(e, ast.UnaryOp) and isinstance(e.op, ast.Not):
        n = narrowing(e.operand, env)
        if n is not None: return n[0], n[1], n[2], not n[3]
    return None

def branching(test, env, F, binds):
    """-> (mk, env_true, env_false): mk(a, b) is the computation that runs a when the test holds, else b"""
    n = narrowing(test, env)
    if n is not None:
        x, scrut, ty, some_is_true = n
        envs = {**env, x: ty}
        if ty[0] == "iter": F.iters.setdefault(x, test)
        if some_is_true:
            return (lambda a, b: Match(scrut, [(f"Some v_{x}", a), ("None", b)])), envs, env
        return (lambda a, b: Match(scrut, [(f"Some v_{x}", b), ("None", a)])), env, envs
    c = truth(test, env, F, binds)
    return (lambda a, b: If(c, a, b)), env, env

def seq_display(elts, env, F, binds, node, want=None):
    """[e, *xs, ..]: -> (text of the list, element type)"""
    parts, ty = [], want
    for x in elts:
        if isinstance(x, ast.Starred):
            t, tx = ex(x.value, env, F, binds)
            need(tx[0] in ("seq", "iter", "set"), x, f"unpacking of a value of type {tx}")
            ty = unify(ty, tx[1], x)
            parts.append(("s", t))
        else:
            t, tx = ex(x, env, F, binds)
            need(tx[0] not in ("iter", "none", "exn"), x, f"a sequence element of type {tx}")
            ty = unify(ty, tx, x)
            parts.append(("e", t))
    groups = []
    for k, t in parts:
        if k == "e" and groups and groups[-1][0] == "e": groups[-1][1].append(t)
        else: groups.append((k, [t]))
    texts = ["[" + "; ".join(ts) + "]" if k == "e" else ts[0] for k, ts in groups]
    if not texts: return "[]", ty
    return (texts[0] if len(texts) == 1 else "(" + " ++ ".join(texts) + ")"), ty

def comprehension(e, env, F, binds):
    for g in e.generators:
        need(not g.ifs and not g.is_async, e, "comprehension conditions / async not accepted")
    def clause(k, env, outer):
        if k == len(e.generators):
            b = []
            t, ty = ex(e.elt, env, F, b)
            need(ty[0] not in ("iter", "none", "exn"), e, f"comprehension elements of type {ty}")
            return wrap(b, Ret(f"[{t}]")), ty
        g = e.generators[k]
        b = outer if k == 0 else []
        s, sty = ex(g.iter, env, F, b)
        need(sty[0] in ("seq", "iter", "set"), g.iter, f"iteration over a value of type {sty}")
        pat, env1 = pattern(g.target, sty[1], env, F)
        inner, ty = clause(k + 1, env1, None)
        c = Comp(s, pat, inner)
        return (c if k == 0 else wrap(b, c)), ty
    c, ty = clause(0, env, binds)
    if pure(c):
        return f"({emit(c, False)})", ty
    x = F.tmp()
    binds.append((x, c))
    return x, ty

def pattern(t, ty, env, F):
    if isinstance(t, ast.Name):
        return f"v_{t.id}", bind_local(t.id, ty, env, F, t)
    if isinstance(t, ast.Tuple) and len(t.elts) == 2 and all(isinstance(x, ast.Name) for x in t.elts) and t.elts[0].id != t.elts[1].id \
            and ty is not None and ty[0] == "tup":
        env1 = bind_local(t.elts[0].id, ty[1], env, F, t)
        env1 = bind_local(t.elts[1].id, ty[2], env1, F, t)
        return f"'(v_{t.elts[0].id}, v_{t.elts[1].id})", env1
    reject(t, f"target not accepted for elements of type {ty}")

def ex(e, env, F, binds):
    """-> (coq text, type); sub-evaluations that can raise are appended to binds in evaluation order"""
    M = F.M
    if isinstance(e, ast.Constant):
        if e.value is None: return "tt", NONE
        need(type(e.value) is int and abs(e.value) < 2 ** 62, e, "literal not accepted")
        return f"({e.value})%Z", INT
    if isinstance(e, ast.Name):
        need(isinstance(e.ctx, ast.Load), e, "name in non-load context")
        if e.id in env:
            ty = env[e.id]
            need(ty is not None and ty[0] != "dead", e, f"{e.id} has different types on the paths that reach this use")
            need(ty != EXN and not (e.id == "self" and F.is_init), e, f"{e.id} is not a value of the grammar here")
            return f"v_{e.id}", ty
        k = M.names.get(e.id)
        if k is not None and k[0] == "const":
            return F.tr.constant(k[1], e), GATE
        reject(e, "unknown name (or a name that is not a value of the grammar)")
    if isinstance(e, ast.IfExp):
        mk, ea, eb = branching(e.test, env, F, binds)
        ba, bb = [], []
        a, ta = ex(e.body, ea, F, ba)
        b, tb = ex(e.orelse, eb, F, bb)
        ty = unify(ta, tb, e)
        c = mk(value(ba, a), value(bb, b))
        if pure(c):
            return f"({ind(emit(c, False))})", ty
        x = F.tmp()
        binds.append((x, c))
        return x, ty
    if isinstance(e, ast.UnaryOp):
        need(isinstance(e.op, ast.Not), e, "unary operator not accepted")
        return f"(negb {truth(e.operand, env, F, binds)})", BOOL
    if isinstance(e, ast.BinOp):
        a, ta = ex(e.left, env, F, binds)
        b, tb = ex(e.right, env, F, binds)
        if ta == INT and tb == INT and isinstance(e.op, (ast.Add, ast.Sub)):
            return f"({'Z.add' if isinstance(e.op, ast.Add) else 'Z.sub'} {a} {b})", INT
        if ta == CIRC and isinstance(e.op, ast.Add):
            return F.tr.call_method("__add__", a, [(b, tb)], F, binds, e)
        reject(e, f"operator on {ta}, {tb} not accepted")
    if isinstance(e, ast.Compare):
        need(len(e.ops) == 1, e, "chained comparison")
        op = e.ops[0]
        a, ta = ex(e.left, env, F, binds)
        b, tb = ex(e.comparators[0], env, F, binds)
        if isinstance(op, (ast.In, ast.NotIn)):
            need(tb[0] in ("seq", "set", "mset"), e, f"membership in a value of type {tb}")
            ety = unify(tb[1], ta, e)
            if tb[1] is None and isinstance(e.comparators[0], ast.Name): env[e.comparators[0].id] = (tb[0], ety)
            t = f"(py_in {elem_eqb(ety, e)} {a} {b})"
            return (t if isinstance(op, ast.In) else f"(negb {t})"), BOOL
        need(ta == INT and tb == INT, e, f"comparison of {ta}, {tb} not accepted (only ints)")
        t = {ast.Eq: f"(Z.eqb {a} {b})", ast.NotEq: f"(negb (Z.eqb {a} {b}))", ast.Lt: f"(Z.ltb {a} {b})", ast.LtE: f"(Z.leb {a} {b})",
             ast.Gt: f"(Z.ltb {b} {a})", ast.GtE: f"(Z.leb {b} {a})"}.get(type(op))
        need(t is not None, e, "comparison operator not accepted")
        return t, BOOL
    if isinstance(e, (ast.List, ast.Tuple)):
        need(isinstance(e.ctx, ast.Load), e, "display in non-load context")
        t, ty = seq_display(e.elts, env, F, binds, e)
        return t, SEQ(ty)
    if isinstance(e, ast.ListComp):
        t, ty = comprehension(e, env, F, binds)
        return t, SEQ(ty)
    if isinstance(e, ast.GeneratorExp):
        t, ty = comprehension(e, env, F, binds)
        return t, ITER(ty)
    if isinstance(e, ast.Attribute):
        return attribute(e, env, F, binds)
    if isinstance(e, ast.Call):
        return call(e, env, F, binds)
    reject(e, "expression not accepted")

def attribute(e, env, F, binds):
    if isinstance(e.value, ast.Name) and e.value.id == "self" and F.is_init:
        key = "self." + e.attr
        need(key in env, e, f"self.{e.attr} is read before it is assigned")
        return f"f_{e.attr}", env[key]
    t, ty = ex(e.value, env, F, binds)
    if ty == CIRC:
        return F.tr.circuit_attr(e.attr, t, F, binds, e)
    if ty == OP:
        if e.attr == "qubit_indices": return f"(op_qubit_indices E {t})", SEQ(INT)
        if e.attr == "free_symbols": return f"(op_free_symbols E {t})", ITER(SYM)
        if e.attr == "gate":
            x = F.tmp()
            binds.append((x, Eff(f"op_gate E {t}")))
            return x, GATE
    if ty == GATE and e.attr == "dagger":
        x = F.tmp()
        binds.append((x, Eff(f"gate_dagger E {t}")))
        return x, GATE
    reject(e, f"attribute .{e.attr} of a value of type {ty} not accepted")

def plain_args(e, n):
    need(not e.keywords and len(e.args) == n and not any(isinstance(a, ast.Starred) for a in e.args), e, f"{n} plain argument(s) expected")

def call_value(t, ty, e, env, F, binds):
    """a call of a gate (-> GateOperation) or of a gate prototype (-> gate)"""
    need(not e.keywords, e, "keyword arguments in a call of a gate / prototype")
    if ty == GATE:
        q, _ = seq_display(e.args, env, F, binds, e, INT)
        return f"(gate_call E {t} {q})", OP
    if ty == PROTO:
        p, _ = seq_display(e.args, env, F, binds, e, PARAM)
        x = F.tmp()
        binds.append((x, Eff(f"{t} {p}")))
        return x, GATE
    reject(e, f"call of a value of type {ty}")

def call(e, env, F, binds):
    M, f, tr = F.M, e.func, F.tr
    if isinstance(f, ast.Call) and isinstance(f.func, ast.Name) and f.func.id == "type" and "type" not in env:
        plain_args(f, 1)
        need(isinstance(f.args[0], ast.Name) and env.get(f.args[0].id) == CIRC and not (F.is_init and f.args[0].id == "self"), e,
             "type(x)(..) is accepted for x a Circuit (read as the class Circuit: subclasses are not modelled)")
        return tr.call_function(("Circuit", "__init__"), e, env, F, binds)
    if isinstance(f, ast.Name):
        if f.id in env:
            t, ty = ex(f, env, F, binds)
            return call_value(t, ty, e, env, F, binds)
        k = M.names.get(f.id)
        if k is not None:
            if k[0] in ("class", "circuitclass") and f.id == "Circuit": return tr.call_function(("Circuit", "__init__"), e, env, F, binds)
            if k[0] == "func": return tr.call_function((M.key, k[1]), e, env, F, binds)
            if k[0] == "generic": return tr.call_function((M.key, k[1]), e, env, F, binds, generic=True)
            if k == ("typing", "cast"):
                plain_args(e, 2)
                want = ann(e.args[0], M)
                t, ty = ex(e.args[1], env, F, binds)
                if ty == want: return t, ty
                need(ty[0] == "union" and want in ty[1:], e, f"cast to {want} of a value of type {ty}")
                x = F.tmp()
                binds.append((x, Eff(f"{'py_cast_inl' if ty[1] == want else 'py_cast_inr'} {t}")))
                return x, want
            if k[0] == "const":
                t, ty = ex(f, env, F, binds)
                return call_value(t, ty, e, env, F, binds)
            reject(e, f"call of {f.id} not accepted")
        return builtin(f.id, e, env, F, binds)
    if isinstance(f, ast.Attribute) and (f.attr in ("bind", "controlled") or (f.attr in TRANSLATED_METHODS and f.attr not in PROPERTIES)):
        t, ty = ex(f.value, env, F, binds)          # a method call; any other attribute is a value that is then called
        if ty == OP and f.attr == "bind":
            plain_args(e, 1)
            a, ta = ex(e.args[0], env, F, binds)
            need(ta == SYMMAP, e, "operation.bind of something that is not a symbols map")
            x = F.tmp()
            binds.append((x, Eff(f"op_bind E {t} {a}")))
            return x, OP
        if ty == GATE and f.attr == "controlled":
            plain_args(e, 1)
            a, ta = ex(e.args[0], env, F, binds)
            need(ta == INT, e, "gate.controlled of a non-integer")
            x = F.tmp()
            binds.append((x, Eff(f"gate_controlled E {t} {a}")))
            return x, GATE
        if ty == CIRC and f.attr in TRANSLATED_METHODS and f.attr not in PROPERTIES and not f.attr.startswith("__"):
            return tr.call_function(("Circuit", f.attr), e, env, F, binds, selfarg=t)
        reject(e, f"method .{f.attr} of a value of type {ty} not accepted")
    t, ty = ex(f, env, F, binds)
    return call_value(t, ty, e, env, F, binds)

def builtin(name, e, env, F, binds):
    need(name in BUILTINS, e, f"call of the unknown function {name}")
    def one():
        plain_args(e, 1)
        return ex(e.args[0], env, F, binds)
    if name == "len":
        t, ty = one()
        need(ty[0] in ("seq", "set"), e, f"len() of a value of type {ty}")
        return f"(py_len {t})", INT
    if name == "list":
        t, ty = one()
        need(ty[0] in ("seq", "iter", "set"), e, f"list() of a value of type {ty}")
        return f"(py_list {t})", SEQ(ty[1])
    if name == "set":
        if not e.args and not e.keywords: return "[]", MSET(None)
        t, ty = one()
        need(ty[0] in ("seq", "iter") and ty[1] == INT, e, f"set() of a value of type {ty} (only collections of ints)")
        return f"(set_order E {t})", SET(INT)
    if name == "reversed":
        t, ty = one()
        need(ty[0] == "seq", e, f"reversed() of a value of type {ty} (only a list / tuple can be reversed)")
        return f"(py_reversed {t})", ITER(ty[1])
    if name == "range":
        t, ty = one()
        need(ty == INT, e, "range() of a non-integer")
        return f"(py_range {t})", SEQ(INT)
    if name == "zip":
        plain_args(e, 2)
        a, ta = ex(e.args[0], env, F, binds)
        b, tb = ex(e.args[1], env, F, binds)
        need(ta[0] in ("seq", "iter", "set") and tb[0] in ("seq", "iter", "set") and complete(ta) and complete(tb), e, f"zip of {ta}, {tb}")
        return f"(py_zip {a} {b})", ITER(TUP(ta[1], tb[1]))
    if name == "max":
        if len(e.args) == 2:
            plain_args(e, 2)
            a, ta = ex(e.args[0], env, F, binds)
            b, tb = ex(e.args[1], env, F, binds)
            need(ta == INT and tb == INT, e, "max(a, b) on non-integers")
            return f"(Z.max {a} {b})", INT
        t, ty = one()
        need(ty[0] in ("seq", "iter") and ty[1] == INT, e, f"max() of a value of type {ty}")
        x = F.tmp()
        binds.append((x, Eff(f"py_max {t}")))
        return x, INT
    if name == "all":
        t, ty = one()
        need(ty[0] in ("seq", "iter") and ty[1] == BOOL, e, f"all() of a value of type {ty}")
        return f"(py_all {t})", BOOL
    if name == "int":
        t, ty = one()
        need(ty == INT, e, f"int() of a value of type {ty}")
        return f"(py_int {t})", INT
    if name == "isinstance":
        plain_args(e, 2)
        t, ty = ex(e.args[0], env, F, binds)
        c = e.args[1]
        need(ty == OP and isinstance(c, ast.Attribute) and isinstance(c.value, ast.Name) and c.value.id not in env
             and F.M.names.get(c.value.id) == ("pkgmod", "_gates") and c.attr == "GateOperation", e,
             "only isinstance(<operation>, _gates.GateOperation) is accepted")
        return f"(op_is_GateOperation E {t})", BOOL
    reject(e, f"call of {name} not accepted here")

# ------------------------------------------------------------------ statements
def exn_call(x, env, node):
    """X(<string literal>?) for an exception class X -> X"""
    need(isinstance(x, ast.Call) and isinstance(x.func, ast.Name) and x.func.id in EXNS and x.func.id not in env and not x.keywords
         and len(x.args) <= 1 and all(isinstance(a, ast.Constant) and isinstance(a.value, str) for a in x.args), node,
         "only `raise <ExceptionClass>(<string literal>)` is accepted")
    return x.func.id

def block(stmts, env, F, k, can_return):
    """statements -> computation; k(env) is what follows the block (None: the block must end in return / raise)"""
    if not stmts:
        need(k is not None, F.fdef, "control can reach the end of a block that must end in return / raise")
        return k(env)
    s, rest = stmts[0], stmts[1:]
    cont = lambda env2: block(rest, env2, F, k, can_return)
    cm = lambda c: Cmt(src(s), c)
    if isinstance(s, ast.Return):
        need(can_return and not rest, s, "return inside a loop / a joined branch, or followed by statements")
        need(s.value is not None and not F.is_init, s, "return without a value / in __init__")
        binds = []
        t, ty = ex(s.value, env, F, binds)
        need(complete(ty), s, "the type of the returned value is not determined")
        F.set_ret(ty, s)
        return cm(value(binds, t))
    if isinstance(s, ast.Raise):
        need(not rest and s.exc is not None, s, "raise followed by statements / bare raise")
        x = exn_call(s.exc, env, s)
        if s.cause is not None:
            need(isinstance(s.cause, ast.Name) and env.get(s.cause.id) == EXN, s, "`from` must name the caught exception")
        return cm(Rz(x))
    f = field_target(s)
    if f is not None:
        need(F.is_init and IDENT.match(f) is not None, s, "attribute assignment outside __init__")
        binds = []
        t, ty = ex(s.value, env, F, binds)
        need(complete(ty) and ty[0] not in ("iter", "none", "exn", "mset", "set"), s, f"a field of type {ty}")
        old = env.get("self." + f)
        need(old is None or old == ty, s, f"field {f} assigned at two types")
        return cm(wrap(binds, Let(f"f_{f}", cty(ty), t, cont({**env, "self." + f: ty}))))
    if isinstance(s, ast.Assign):
        need(len(s.targets) == 1 and isinstance(s.targets[0], ast.Name), s, "assignment target not accepted")
        x = s.targets[0].id
        binds = []
        t, ty = ex(s.value, env, F, binds)
        need(ty not in (NONE, EXN), s, "binding a local to None")
        if isinstance(s.value, ast.GeneratorExp): F.lazy.append((s, len(binds)))
        return cm(wrap(binds, Let(f"v_{x}", cty(ty) if complete(ty) else None, t, cont(bind_local(x, ty, env, F, s)))))
    if isinstance(s, ast.AugAssign):
        need(isinstance(s.target, ast.Name) and isinstance(s.op, ast.Add) and s.target.id in env, s, "only `name += e` on a bound name is accepted")
        x = s.target.id
        rd = ast.copy_location(ast.Name(id=x, ctx=ast.Load()), s.target)
        binds = []
        t, ty = ex(ast.copy_location(ast.BinOp(left=rd, op=s.op, right=s.value), s), env, F, binds)
        need(ty == env[x], s, f"{x} += e changes the type of {x}")
        return cm(wrap(binds, Let(f"v_{x}", cty(ty), t, cont({**env, x: ty}))))
    x = mutation_target(s)
    if x is not None:
        e = s.value
        plain_args(e, 1)
        need(x in env and env[x] is not None and env[x][0] == ("seq" if e.func.attr == "append" else "mset"), s,
             f".{e.func.attr} on {x}: not a local {'list' if e.func.attr == 'append' else 'set()'}")
        binds = []
        v, tv = ex(e.args[0], env, F, binds)
        need(tv[0] not in ("iter", "none", "exn"), s, f"an element of type {tv}")
        ty = (env[x][0], unify(env[x][1], tv, s))
        t = f"(v_{x} ++ [{v}])" if e.func.attr == "append" else f"(py_mset_add v_{x} {v})"
        return cm(wrap(binds, Let(f"v_{x}", cty(ty), t, cont({**env, x: ty}))))
    if isinstance(s, ast.Expr) and isinstance(s.value, ast.Call) and isinstance(s.value.func, ast.Name) and s.value.func.id not in env \
            and F.M.names.get(s.value.func.id) == ("warnings", "warn"):
        need(all(isinstance(a, ast.Constant) and isinstance(a.value, str) for a in s.value.args) and not s.value.keywords, s, "warn with computed arguments")
        return Cmt("warn(..): no effect on values", cont(env))
    if isinstance(s, ast.Assert):
        need(s.msg is None, s, "assert with a message expression")
        binds = []
        c = truth(s.test, env, F, binds)
        return cm(wrap(binds, If(c, cont(env), Rz("AssertionError"))))
    if isinstance(s, ast.If):
        return if_stmt(s, rest, env, F, k, can_return)
    if isinstance(s, ast.For):
        return for_stmt(s, env, F, cont)
    if isinstance(s, ast.Try):
        need(not rest and not s.orelse and not s.finalbody and len(s.handlers) == 1, s, "only try / one except clause as the last statement is accepted")
        h = s.handlers[0]
        need(isinstance(h.type, ast.Name) and h.type.id in EXNS and h.type.id not in env and h.name is not None and IDENT.match(h.name)
             and h.name not in env and h.name not in BUILTINS and h.name not in F.M.names, s, "except clause must be `except <ExceptionClass> as <new name>`")
        need(always_exits(s.body) and always_exits(h.body), s, "the try body and the handler must end in return / raise")
        body = block(s.body, env, F, None, can_return)
        hb = block(h.body, {**env, h.name: EXN}, F, None, can_return)
        return Cmt("try", Try(body, f"v_{h.name}", h.type.id, hb))
    reject(s, "statement not accepted")

def if_stmt(s, rest, env, F, k, can_return):
    binds = []
    mk, ea, eb = branching(s.test, env, F, binds)
    head = lambda c: Cmt("if " + src(s.test), wrap(binds, c))
    if not rest:
        return head(mk(block(s.body, ea, F, k, can_return), block(s.orelse, eb, F, k, can_return)))
    if always_exits(s.body) and not s.orelse:
        return head(mk(block(s.body, ea, F, None, can_return), block(rest, eb, F, k, can_return)))
    A = [x for x in assigned(list(s.body) + list(s.orelse)) if x in env]
    ends = []
    def kk(e):
        r = Ret(None)
        ends.append((r, e))
        return r
    a = block(s.body, ea, F, kk, False)
    b = block(s.orelse, eb, F, kk, False)
    need(ends, s, "no path falls out of this if statement, yet statements follow")
    kept, env2 = [], dict(env)
    for x in A:
        try:
            t = None
            for _, e in ends: t = unify(t, e[x], s)
            need(complete(t), s, f"the type of {x} is not determined after the branches")
            kept.append(x)
            env2[x] = t
        except Reject:
            env2[x] = ("dead",)           # bound at different types on the two paths: unusable afterwards
    for r, _ in ends: r.text = vtuple(kept)
    return head(Bind(vpat(kept), mk(a, b), block(rest, env2, F, k, can_return)))

def for_stmt(s, env, F, cont):
    need(not s.orelse, s, "for ... else not accepted")
    for n in ast.walk(s):
        need(not isinstance(n, (ast.Break, ast.Continue, ast.Return, ast.Try)), n, "break / continue / return / try inside a loop")
    binds = []
    it, ity = ex(s.iter, env, F, binds)
    need(ity[0] in ("seq", "iter", "set") and ity[1] is not None, s.iter, f"iteration over a value of type {ity}")
    for t in ast.walk(s.target):
        need(not (isinstance(t, ast.Name) and t.id in env), t, f"the loop target {getattr(t, 'id', '')} is bound before the loop (it would keep its last value afterwards)")
    pat, envb = pattern(s.target, ity[1], env, F)
    C = [x for x in assigned(s.body) if x in env]
    tys = {x: env[x] for x in C}
    for attempt in range(4):
        saved = F.fresh
        ends = []
        def kk(e):
            ends.append(e)
            return Ret(vtuple(C))
        body = block(s.body, {**envb, **tys}, F, kk, False)
        new = dict(tys)
        for x in C:
            for e in ends: new[x] = unify(new[x], e[x], s)
        if new == tys: break
        tys = new
        F.fresh = saved
    else:
        reject(s, "the types of the locals carried by the loop do not stabilise")
    return Cmt(f"for {src(s.target)} in {src(s.iter)}",
               wrap(binds, Bind(vpat(C), For(it, pat, vpat(C), vtuple(C), body), cont({**env, **tys}))))

# ------------------------------------------------------------------ checks on a whole function
def parents_of(fdef):
    par = {}
    for n in ast.walk(fdef):
        for c in ast.iter_child_nodes(n): par[id(c)] = n
    return par

def enclosing_loop(n, par, fdef):
    """the innermost construct around n whose part containing n is evaluated repeatedly (a for body, a comprehension
    element or a non-first comprehension clause), or None"""
    c = n
    while c is not fdef:
        p = par[id(c)]
        if isinstance(p, ast.For) and c is not p.iter and c is not p.target: return p
        if isinstance(p, (ast.ListComp, ast.GeneratorExp)) and not (isinstance(c, ast.comprehension) and c is p.generators[0]): return p
        if isinstance(p, ast.comprehension) and c is not p.iter: return p
        c = p
    return None

def check_function(fdef, F):
    par = parents_of(fdef)
    params = {a.arg for a in fdef.args.args}
    pos = lambda n: (n.lineno, n.col_offset)
    # (1) one-shot iterators: read once, in a position evaluated once per binding
    for x, bnode in F.iters.items():
        uses = []
        for n in ast.walk(fdef):
            if isinstance(n, ast.Name) and n.id == x and isinstance(n.ctx, ast.Load):
                p = par[id(n)]
                if isinstance(p, ast.Compare) and isinstance(p.ops[0], (ast.Is, ast.IsNot)): continue
                uses.append(n)
        need(len(uses) <= 1, fdef, f"{x} is a one-shot iterator and is read {len(uses)} times")
        where = None if x in params else enclosing_loop(bnode, par, fdef)
        for u in uses:
            need(enclosing_loop(u, par, fdef) is where, u, f"{x} is a one-shot iterator and is read in a position that is evaluated repeatedly")
    # (2) a generator expression stored in a local is evaluated when consumed: it must be free of effects (checked where it
    #     is translated) and read only names that are never re-bound
    rebound = set(assigned(fdef.body))
    for s, nbinds in F.lazy:
        need(nbinds == 0, s, "a generator expression stored in a local must be free of effects (it runs when consumed)")
        own = {t.id for g in s.value.generators for t in ast.walk(g.target) if isinstance(t, ast.Name)}
        for n in ast.walk(s.value):
            if isinstance(n, ast.Name) and isinstance(n.ctx, ast.Load) and n.id not in own:
                need(n.id not in rebound, n, f"a stored generator expression reads {n.id}, which is re-bound in this function")
    # (3) locals updated in place: created fresh in this function, never aliased
    muts = {}
    loops_of = {}
    def visit(stmts, loops):
        for s in stmts:
            loops_of[id(s)] = list(loops)
            x = mutation_target(s)
            if x is not None: muts.setdefault(x, []).append(s)
            inner = loops + [s] if isinstance(s, ast.For) else loops
            for fld in ("body", "orelse", "handlers", "finalbody"):
                visit([c for c in (getattr(s, fld, []) or []) if isinstance(c, (ast.stmt, ast.ExceptHandler))], inner)
    visit(fdef.body, [])
    for x, ms in muts.items():
        need(x not in params, ms[0], f"in-place update of the parameter {x} (the caller's object would change)")
        asg = [n for n in ast.walk(fdef) if isinstance(n, (ast.Assign, ast.AugAssign, ast.AnnAssign, ast.For, ast.comprehension))
               and any(isinstance(t, ast.Name) and t.id == x for tg in ([n.target] if not isinstance(n, ast.Assign) else n.targets) for t in ast.walk(tg))]
        need(len(asg) == 1 and isinstance(asg[0], ast.Assign) and asg[0] in fdef.body and
             ((isinstance(asg[0].value, ast.List) and not asg[0].value.elts) or
              (isinstance(asg[0].value, ast.Call) and isinstance(asg[0].value.func, ast.Name) and asg[0].value.func.id == "set" and not asg[0].value.args)),
             ms[0], f"{x} is updated in place: it must be bound once, at the top level of the function, to [] or set()")
        last = max(pos(m) for m in ms)
        mloops = {id(l) for m in ms for l in loops_of[id(m)]}
        for n in ast.walk(fdef):
            if not (isinstance(n, ast.Name) and n.id == x and isinstance(n.ctx, ast.Load)): continue
            p = par[id(n)]
            if isinstance(p, ast.Attribute) and p.attr in ("append", "add") and isinstance(par[id(p)], ast.Call) and isinstance(par[id(par[id(p)])], ast.Expr): continue
            if isinstance(p, ast.Compare) and isinstance(p.ops[0], (ast.In, ast.NotIn)) and p.comparators[0] is n: continue
            c, inloop = n, False
            while c is not fdef:
                c = par[id(c)]
                if id(c) in mloops: inloop = True
            need(pos(n) > last and not inloop, n, f"{x} is updated in place and may be aliased: this use does not come after its last update")

# ------------------------------------------------------------------ the translation unit
def coqname(key):
    n = key[1].strip("_")
    return ("Circuit_" if key[0] == "Circuit" else "") + n + "_gen"

class Translator:
    def __init__(self, repo):
        self.base = os.path.join(repo, "src/orquestra/quantum/circuits")
        self.out, self.sigs, self.fields, self.consts, self.mods = [], {}, None, {}, {}
        typing = lambda *xs: {("typing", x): ("typing", x) for x in xs}
        cm = self.load("_circuit", {("functools", "singledispatch"): ("functools", "singledispatch"),
                                    **typing("Any", "Dict", "Iterable", "List", "Optional", "Union"),
                                    ("import", "numpy", "np"): ("mod", "numpy"), ("import", "sympy", None): ("mod", "sympy"),
                                    (".", "_gates"): ("pkgmod", "_gates"), (".", "_operations"): ("pkgmod", "_operations")})
        need("Circuit" in cm.classes, cm.tree, "class Circuit not found")
        self.cm = cm
        self.methods = check_class(cm, cm.classes["Circuit"])
        for c in cm.classes: need(c == "Circuit", cm.classes[c], "a class other than Circuit in _circuit.py")
        self.load("_generators", {**typing("Collection", "Optional", "Union", "cast"), ("warnings", "warn"): ("warnings", "warn"),
                                  ("import", "numpy", "np"): ("mod", "numpy"),
                                  ("._builtin_gates", "GatePrototype"): ("builtin_gates", "GatePrototype"),
                                  ("._builtin_gates", "I"): ("const", "I"), ("._circuit", "Circuit"): ("circuitclass", "Circuit"),
                                  ("._gates", "Gate"): ("gates", "Gate")})
        need(not self.mods["_generators"].classes, self.mods["_generators"].tree, "a class in _generators.py")

    def load(self, key, expected):
        path = os.path.join(self.base, key + ".py")
        M = Module(path, ast.parse(open(path).read()), self)
        M.key = key
        scan_module(M, expected)
        self.mods[key] = M
        return M

    def fdef_of(self, key, node):
        if key[0] == "Circuit":
            need(key[1] in self.methods and key[1] in TRANSLATED_METHODS, node, f"Circuit.{key[1]} is not a translated method")
            return self.cm, self.methods[key[1]][0]
        M = self.mods[key[0]]
        if key[1] in M.generic: return M, M.generic[key[1]]["default"]
        need(key[1] in M.funcs, node, f"function {key[1]} not found")
        return M, M.funcs[key[1]]

    def get_sig(self, key, argtys, node):
        if key in self.sigs:
            need(self.sigs[key].done, node, f"recursion through {key[1]}")
            return self.sigs[key]
        return self.translate(key, argtys, node)

    def translate(self, key, argtys, node):
        M, fdef = self.fdef_of(key, node)
        cls = "Circuit" if key[0] == "Circuit" else None
        generic = cls is None and key[1] in M.generic
        if fdef.decorator_list and not (generic or M.names.get(fdef.name, ("",))[0] == "impl" or (cls and self.methods[key[1]][1])):
            reject(fdef, "decorated function (a decorator may change what the call returns)")
        sg = Sig(coqname(key))
        need(re.fullmatch(r"[A-Za-z][A-Za-z0-9_]*", sg.coq) and sg.coq not in [s.coq for s in self.sigs.values()], fdef, "generated name collides")
        self.sigs[key] = sg
        a = fdef.args
        need(not (a.vararg or a.kwarg or a.kwonlyargs or a.posonlyargs or a.kw_defaults), fdef, "only plain positional parameters are accepted")
        need(all(isinstance(d, ast.Constant) and d.value is None for d in a.defaults), fdef, "default values other than None")
        params = list(a.args)
        F = Fn(self, M, fdef, cls)
        env, coqparams = {}, []
        if cls:
            need(params and params[0].arg == "self" and params[0].annotation is None, fdef, "a method's first parameter must be self")
            params = params[1:]
            env["self"] = CIRC
            if not F.is_init: coqparams.append(("self", CIRC))
        need(len(argtys) == len(params), fdef, f"{key[1]} called with {len(argtys)} arguments")
        ndef = len(a.defaults)
        sg.params = []
        for i, (p, aty) in enumerate(zip(params, argtys)):
            ty = ann(p.annotation, M) if p.annotation is not None else aty
            need(ty is not None and complete(ty) and ty not in (NONE, EXN) and ty[0] not in ("set", "mset", "tup"), p, f"parameter {p.arg}: type {ty} not determined / not accepted")
            env = bind_local(p.arg, ty, env, F, p)
            sg.params.append((p.arg, ty, i >= len(params) - ndef))
            coqparams.append((p.arg, ty))
        if cls and key[1] in PROPERTIES: need(not params, fdef, "a property with parameters")
        declared = ann(fdef.returns, M) if (fdef.returns is not None and not F.is_init) else None
        body = strip_docstring(fdef.body)
        need(bool(body), fdef, "empty body")
        if generic:
            comp = self.dispatch(M, key[1], params[0], sg.params, F, env)
        elif F.is_init:
            F.field_names = []
            for n in ast.walk(fdef):
                if isinstance(n, ast.Attribute) and isinstance(n.ctx, (ast.Store, ast.Del)):
                    need(isinstance(n.value, ast.Name) and n.value.id == "self", n, "attribute assignment on something that is not self")
                    if n.attr not in F.field_names: F.field_names.append(n.attr)
            comp = block(body, env, F, lambda e: self.new_object(F, e), True)
            need(self.fields is not None, fdef, "__init__ never completes")
        else:
            for n in ast.walk(fdef):
                need(not (isinstance(n, ast.Attribute) and isinstance(n.ctx, (ast.Store, ast.Del))), n, "attribute assignment outside __init__")
            comp = block(body, env, F, None, True)
        check_function(fdef, F)
        ret = CIRC if F.is_init else F.ret
        need(ret is not None, fdef, "no return type could be determined (the function never returns a value)")
        if declared is not None:
            need(compatible(ret, declared) and ret[0] == declared[0], fdef, f"returns {ret}, declared {declared}")
        sg.ret, sg.pure, sg.done = ret, pure(comp), True
        head = ""
        if F.is_init:
            head = "Record Circuit_obj : Type := mk_Circuit { " + "; ".join(f"Circuit_{f} : {cty(t)}" for f, t in self.fields) + " }.\n\n"
        sig = "".join(f" (v_{p} : {cty(t)})" for p, t in coqparams)
        rty = cty(ret) if sg.pure else f"result {cty(ret)}"
        self.out.append(head + f"(* {key[0]}.{key[1]}   [{M.key}.py line {fdef.lineno}] *)\n"
                        f"Definition {sg.coq}{sig} : {rty} :=\n  {ind(emit(comp, not sg.pure))}.\n")
        return sg

    def new_object(self, F, env):
        fields = []
        for f in F.field_names:
            need("self." + f in env, F.fdef, f"__init__ can complete without assigning self.{f}")
            fields.append((f, env["self." + f]))
        if self.fields is None: self.fields = fields
        need(self.fields == fields, F.fdef, "__init__ completes with different field types on different paths")
        return Ret("(mk_Circuit " + " ".join(f"f_{f}" for f, _ in fields) + ")")

    def ensure_class(self, node):
        if self.fields is None:
            self.get_sig(("Circuit", "__init__"), [None] * (len(self.methods["__init__"][0].args.args) - 1), node)
        need(self.fields is not None, node, "the fields of Circuit are not known yet (a method is needed by __init__ itself)")

    def circuit_attr(self, attr, t, F, binds, node):
        self.ensure_class(node)
        for f, ty in self.fields:
            if f == attr: return f"(Circuit_{f} {t})", ty
        need(attr in PROPERTIES, node, f"Circuit has no field or translated property {attr}")
        sg = self.get_sig(("Circuit", attr), [], node)
        if sg.pure: return f"({sg.coq} {t})", sg.ret
        x = F.tmp()
        binds.append((x, Eff(f"{sg.coq} {t}")))
        return x, sg.ret

    def finish_call(self, sg, actual, selfarg, F, binds, node):
        need(len(actual) == len(sg.params), node, "wrong number of arguments")
        texts = [coerce(t, ty, pty, node) for (t, ty), (_, pty, _) in zip(actual, sg.params)]
        term = " ".join([sg.coq] + ([selfarg] if selfarg is not None else []) + texts)
        if sg.pure: return f"({term})", sg.ret
        x = F.tmp()
        binds.append((x, Eff(term)))
        return x, sg.ret

    def call_method(self, name, selftext, actual, F, binds, node):
        self.ensure_class(node)
        sg = self.get_sig(("Circuit", name), [ty for _, ty in actual], node)
        return self.finish_call(sg, actual, selftext, F, binds, node)

    def call_function(self, key, e, env, F, binds, selfarg=None, generic=False):
        """a call of a translated function, method or constructor: arguments are evaluated in source order, matched to the
        parameters by position / keyword; missing ones take the default None"""
        if key[0] == "Circuit" and key[1] != "__init__": self.ensure_class(e)
        M, fdef = self.fdef_of(key, e)
        params = fdef.args.args[1:] if key[0] == "Circuit" else fdef.args.args
        names = [p.arg for p in params]
        need(not any(isinstance(a, ast.Starred) for a in e.args) and all(kw.arg is not None for kw in e.keywords), e, "starred arguments in a call of a translated function")
        need(len(e.args) <= len(names), e, "too many arguments")
        slots = {}
        for i, a in enumerate(e.args): slots[names[i]] = ex(a, env, F, binds)
        for kw in e.keywords:
            need(kw.arg in names and kw.arg not in slots, e, f"keyword argument {kw.arg}")
            slots[kw.arg] = ex(kw.value, env, F, binds)
        ndef = len(fdef.args.defaults)
        actual = []
        for i, n in enumerate(names):
            if n in slots: actual.append(slots[n])
            else:
                need(i >= len(names) - ndef, e, f"missing argument {n}")
                actual.append(("tt", NONE))
        sg = self.get_sig(key, [ty for _, ty in actual], e)
        return self.finish_call(sg, actual, selfarg, F, binds, e)

    def dispatch(self, M, name, first, params, F, env):
        """functools.singledispatch: the implementation registered for the class of the first argument, else the function's
        own body.  The classes are told apart from the static type of the argument: a sum is matched, an operation is
        tested with isinstance (the type `operation` covers classes other than GateOperation)."""
        g = M.generic[name]
        need(first.annotation is None, first, "the first parameter of a singledispatch function must not be annotated")
        v, rest = first.arg, [p for p, _, _ in params[1:]]
        impls = {}
        for text, f in g["impls"]:
            ok = (text == "Circuit" and M.names.get("Circuit", ("",))[0] == "class") or \
                 (text == "_gates.GateOperation" and M.names.get("_gates") == ("pkgmod", "_gates"))
            need(ok and text not in impls, f, "implementations may be registered for Circuit and _gates.GateOperation, once each")
            impls[text] = f
        def impl_call(f, ty):
            sg = self.get_sig((M.key, f.name), [ty] + [t for _, t, _ in params[1:]], f)
            need([t for _, t, _ in sg.params] == [ty] + [t for _, t, _ in params[1:]], f, "a registered implementation with other parameter types")
            F.set_ret(sg.ret, f)
            term = " ".join([sg.coq, f"v_{v}"] + [f"v_{p}" for p in rest])
            return Cmt(f"registered for {src(f.args.args[0].annotation)}: {f.name}", Ret(f"({term})") if sg.pure else Eff(term))
        def default(ty):
            return Cmt("no implementation registered for this class", block(strip_docstring(g["default"].body), {**env, v: ty}, F, None, True))
        def go(ty):
            if ty[0] == "union":
                return Match(f"v_{v}", [(f"inl v_{v}", go(ty[1])), (f"inr v_{v}", go(ty[2]))])
            if ty == CIRC and "Circuit" in impls: return impl_call(impls["Circuit"], CIRC)
            if ty == OP and "_gates.GateOperation" in impls:
                return If(f"(op_is_GateOperation E v_{v})", impl_call(impls["_gates.GateOperation"], OP), default(OP))
            return default(ty)
        return Cmt("functools.singledispatch on the class of the first argument", go(env[v]))

    def constant(self, name, node):
        """a gate constant of _builtin_gates.py:  NAME = _gates.MatrixFactoryGate(<str>, _matrices.<f>, (), <int>[, is_hermitian=<bool>])"""
        if name in self.consts: return self.consts[name]
        tree = ast.parse(open(os.path.join(self.base, "_builtin_gates.py")).read())
        binders = {}
        for n in tree.body:
            need(isinstance(n, (ast.FunctionDef, ast.Assign, ast.ImportFrom, ast.Import, ast.Expr)), n, "_builtin_gates: module-level statement not accepted")
            for m in ([n] if isinstance(n, ast.FunctionDef) else ast.walk(n)):
                xs = []
                if isinstance(m, ast.FunctionDef): xs = [m.name]
                elif isinstance(m, ast.Name) and isinstance(m.ctx, (ast.Store, ast.Del)): xs = [m.id]
                elif isinstance(m, ast.alias):
                    need(m.name != "*", n, "star import in _builtin_gates")
                    xs = [(m.asname or m.name).split(".")[0]]
                for x in xs: binders.setdefault(x, []).append(n)
        for mod in ("_gates", "_matrices"):
            b = binders.get(mod, [])
            need(len(b) == 1 and isinstance(b[0], ast.ImportFrom) and b[0].level == 1 and b[0].module is None, tree, f"{mod} must be bound by `from . import {mod}`")
        b = binders.get(name, [])
        need(len(b) == 1 and isinstance(b[0], ast.Assign) and len(b[0].targets) == 1 and isinstance(b[0].targets[0], ast.Name), tree,
             f"_builtin_gates: {name} must be bound exactly once, by a plain assignment")
        c = b[0].value
        need(isinstance(c, ast.Call) and ast.unparse(c.func) == "_gates.MatrixFactoryGate" and len(c.args) in (4, 5)
             and not any(isinstance(x, ast.Starred) for x in c.args) and all(k.arg == "is_hermitian" for k in c.keywords)
             and len(c.args) + len(c.keywords) <= 5, c, f"{name} is not made by _gates.MatrixFactoryGate(name, factory, params, num_qubits[, is_hermitian])")
        nm, fac, ps, nq = c.args[:4]
        herm = c.args[4] if len(c.args) == 5 else (c.keywords[0].value if c.keywords else ast.Constant(value=False))
        need(isinstance(nm, ast.Constant) and isinstance(nm.value, str) and re.fullmatch(r"[A-Za-z0-9_]+", nm.value), c, "gate name")
        need(isinstance(fac, ast.Attribute) and isinstance(fac.value, ast.Name) and fac.value.id == "_matrices" and IDENT.match(fac.attr), c, "matrix factory must be _matrices.<function>")
        need(isinstance(ps, ast.Tuple) and not ps.elts, c, "only a gate without parameters is accepted as a constant")
        need(isinstance(nq, ast.Constant) and type(nq.value) is int and 0 <= nq.value <= 64, c, "num_qubits")
        need(isinstance(herm, ast.Constant) and type(herm.value) is bool, c, "is_hermitian")
        coq = f"{name}_gen"
        self.out.append(f"(* {src(b[0])}   [_builtin_gates.py line {b[0].lineno}] *)\nDefinition {coq} : Gate E :=\n"
                        f"  new_MatrixFactoryGate E \"{nm.value}\"%string \"{fac.attr}\"%string [] ({nq.value})%Z {'true' if herm.value else 'false'}.\n")
        self.consts[name] = coq
        return coq

HEADER = """(* GENERATED by tr/tr_circuit.py from circuits/_circuit.py, circuits/_generators.py and circuits/_builtin_gates.py - do
   not edit.  Every definition is the construct-by-construct translation of the Python definition named in the comment
   above it; the meaning of the building blocks is fixed in Circ/CircuitTrSupport.v; agreement with the model
   (Circ/Constructions.v) is proved in Circ/CircuitGenProofs.v. *)
Require Import Coq.ZArith.ZArith Coq.Lists.List Coq.Strings.String Coq.Bool.Bool.
Require Import OQ.Circ.CircuitTrSupport.
Import ListNotations.

Section Gen.
Variable E : pyenv.

"""

def generate(repo):
    tr = Translator(repo)
    tr.ensure_class(tr.cm.tree)
    for m in TRANSLATED_METHODS:
        fd = tr.methods[m][0]
        tr.get_sig(("Circuit", m), [None] * (len(fd.args.args) - 1), fd)
    G = tr.mods["_generators"]
    need(bool(G.funcs), G.tree, "no function in _generators.py")
    for f, fd in G.funcs.items():
        tr.get_sig(("_generators", f), [None] * len(fd.args.args), fd)
    for g in tr.cm.generic:
        need(("_circuit", g) in tr.sigs, tr.cm.generic[g]["default"], f"the singledispatch function {g} is never reached")
        for _, f in tr.cm.generic[g]["impls"]:
            need(("_circuit", f.name) in tr.sigs, f, f"the registered implementation {f.name} is never reached")
    return HEADER + "\n".join(tr.out) + "\nEnd Gen.\n"

def run(repo, out):
    target = os.path.join(out, OUTPUTS[0])
    try:
        text = generate(repo)
    except Reject as e:
        # fail closed: no stale definitions from an earlier source may survive a rejection; the file below does not
        # compile, so everything that depends on the generated definitions stops building until the source is accepted
        why = re.sub(r"[^A-Za-z0-9 _.,:=()\[\]'-]", " ", str(e))[:300].replace("(*", "( *").replace("*)", "* )")
        why = FORBIDDEN_TEXT.sub("...", why)
        write_if_changed(target, "(* GENERATED by tr/tr_circuit.py - THE TRANSLATOR REJECTED THE SOURCE:\n   " + why
                         + " *)\nDefinition translator_rejected_the_source : False := I.\n")
        raise
    if FORBIDDEN_TEXT.search(re.sub(r"\(\*.*?\*\)", "", text, flags=re.S)):
        raise Reject("generated text contains a forbidden word")
    write_if_changed(target, text)
    print("tr_circuit: ok")

if __name__ == "__main__":
    main_wrapper(run)
