#!/usr/bin/env python3
"""Translate the decomposition machinery and the U3 rule to Gallina (fail-closed: exit code 3 on anything outside the
grammar below; the output is then overwritten by a stub that does not compile).

  decompositions/_decomposition.py            : class DecompositionRule (the Protocol: a record of its methods),
                                                decompose_operation, decompose_operations
  decompositions/_orquestra_decompositions.py : U3GateToRotation.predicate, U3GateToRotation.production,
                                                decompose_orquestra_circuit
  circuits/_builtin_gates.py                  : the bindings NAME = make_parametric_gate_prototype(...) of the gate
                                                prototypes the rule calls (RY, RZ) and of U3
                                                                                      -> Gen/DecomposeGen.v

The translation is syntax directed: each accepted construct becomes one piece of Gallina whose meaning is a definition
of coq/Circ/DecomposeTrSupport.v (or a plain let / match / if / list literal).  No function is recognised as a whole.
coq/Circ/DecomposeGenProofs.v proves, on every run, that the generated definitions agree with the model of
Circ/Decompose.v and Circ/U3Rule.v that the C18 theorems are about.

Accepted grammar
  modules     exactly the expected imports (no aliases, no star), `OperationType = TypeVar("OperationType")`, the
              Protocol class, the rule class, and the functions listed above, each bound exactly once and undecorated
              (@abstractmethod on the Protocol's methods only); `reversed`, `isinstance` not rebound.
  types       from annotations: OperationType (type variable), GateOperation, Circuit, bool, Sequence[T] (list or tuple),
              Iterable[T] (possibly a one-shot iterator), DecompositionRule[T]; inferred: gate, gate parameter, qubit,
              natural number, str.  A function without return annotation gets the type of its (first) return expression
              and every return must have that type.  A value typed Iterable may be used once, in a position that is
              evaluated once, and only as the source of a comprehension clause, an argument typed Iterable, or the
              returned value (so that treating it as the list of its elements is sound); a Sequence is accepted where
              an Iterable is expected.
  statements  `x = e` (every name is bound once per function; no rebinding),
              `a, b, c = e` and `a, *r = e` (star last)       match e with [a; b; c] => .. | _ => Raise ValueError end
              `if c: return e` (no else) followed by the rest   if c then Ok e else ..
              `def f(x): return e` (nested, no annotations needed: typed at its first call; may read the enclosing
                                    function's names bound before it)      let v_f := fun v_x => .. in
              `return e` as last statement.
  expressions names; str literals; [e1, .., en] ([] where the context determines the element type); `a if c else b` (only the chosen branch is evaluated);
              `not e`, `a or b`, `a and b` on bools (short circuit), truth value / `not` of a Sequence;
              str == / != str;
              attributes  operation.gate / .params / .qubit_indices, gate.name, gate.wrapped_gate (AttributeError unless
                          wrapped), gate.num_control_qubits (AttributeError unless ControlledGate),
                          circuit.operations / .n_qubits;
              calls       rule.predicate(op), rule.production(op)   (the methods of the Protocol; they may raise),
                          gate.controlled(k), NAME(p1, .., pn) for an imported gate prototype,
                          <gate expression>(*<sequence of qubits>), isinstance(<gate>, ControlledGate), reversed(<Sequence>),
                          Circuit(ops) / Circuit(ops, n_qubits=n), a nested function, a translated function
                          (positional arguments; recursion is emitted as a Fixpoint, so Coq itself checks that it is
                          structural on one argument - otherwise the generated file does not compile);
              [e for x in xs for y in ys ...]  (list comprehensions, any number of for clauses, no conditions; every
                          part may raise)           py_comp xs (fun x => py_comp ys (fun y => Ok [e]))
  classes     the Protocol: methods `@abstractmethod def m(self, p: T) -> R` with docstring-only bodies become the fields
              m : T -> result R of the record DecompositionRule_gen;
              the rule class: base DecompositionRule[GateOperation], no attributes, exactly the Protocol's methods, each
              with the Protocol's signature and not using self; an instance is the record of the translated methods.
Evaluation order is Python's: sub-expressions that can raise are bound left to right before the pure remainder.
Not translated (hand-modelled in DecomposeTrSupport.v): the attributes and methods of the gate classes of
circuits/_gates.py, make_parametric_gate_prototype, and the Circuit constructor.
"""
OUTPUTS = ['DecomposeGen.v']      # generated files (the driver uses this to decide which properties depend on this translator)
import ast, os, re
from trlib import *

FORBIDDEN_TEXT = re.compile(r"Admitted|admit|Axiom|Parameter|Conjecture|bypass_check|Unset|\(\*|\*\)|type-in-type|impredicative")

# ------------------------------------------------------------------ types
TV, GOP, GATE, PARAM, QUBIT, NAT, BOOL, STR, CIRC = (("tv",), ("gop",), ("gate",), ("param",), ("qubit",), ("nat",),
                                                     ("bool",), ("str",), ("circ",))
ANY = ("any",)                    # element type of the literal []: fits every element type, has no Coq type of its own
def SEQ(t): return ("seq", t)
def ITER(t): return ("iter", t)
def RULE(t): return ("rule", t)

def cty(t, M):
    k = t[0]
    if k == "any": raise Reject("a type could not be determined (only the empty list literal [] is known about it)")
    if k == "tv":
        if M["tv"] is None: raise Reject("internal: type variable outside its module")
        return M["tv"]
    if k in ("seq", "iter"): return f"(list {cty(t[1], M)})"
    if k == "rule": return f"({M['protocol']['name']}_gen {cty(t[1], M)})"
    return {"gop": "(pyop P)", "gate": "(pygate P)", "param": "P", "qubit": "nat", "nat": "nat", "bool": "bool",
            "str": "string", "circ": "(pycircuit P)"}[k]

def subst(t, s):
    if t == TV: return s.get("tv", TV)
    return (t[0],) + tuple(subst(x, s) for x in t[1:])

def unify(pat, act, s, node, top=True):
    """actual type `act` is accepted where `pat` is expected (pat may mention the type variable)"""
    if act == ANY: return
    if pat == TV:
        if s.setdefault("tv", act) != act: reject(node, "type variable used at two types")
        return
    if top and pat[0] == "iter" and act[0] == "seq":
        return unify(pat[1], act[1], s, node, False)
    if pat[0] != act[0] or len(pat) != len(act): reject(node, f"a value of type {act} where {pat} is expected")
    for p, a in zip(pat[1:], act[1:]): unify(p, a, s, node, False)

def merge(a, b):
    """the common type of two types that differ at most where one of them is undetermined; None if there is none"""
    if a == b or b == ANY: return a
    if a == ANY: return b
    if a[0] != b[0] or len(a) != len(b): return None
    parts = [merge(x, y) for x, y in zip(a[1:], b[1:])]
    return None if None in parts else (a[0],) + tuple(parts)

def join(a, b, node):
    m = merge(a, b)
    if m is not None: return m
    if a[0] in ("seq", "iter") and b[0] in ("seq", "iter") and merge(a[1], b[1]) is not None: return ITER(merge(a[1], b[1]))
    reject(node, f"the two branches have different types ({a}, {b})")

def has_any(t): return t == ANY or any(has_any(x) for x in t[1:])

def need(cond, node, why):
    if not cond: reject(node, why)

def src(node):
    """the source text of a node, for a comment (comment delimiters are broken up)"""
    t = " ".join(ast.unparse(node).split("\n")[0].split()).replace("(*", "( *").replace("*)", "* )")
    return "(source elided)" if FORBIDDEN_TEXT.search(t) or '"' in t else t

def ann(a, M):
    """annotation -> type"""
    need(a is not None, M["tree"], "missing annotation")
    if isinstance(a, ast.Name):
        if a.id == "bool": return BOOL
        if M["tv"] is not None and a.id == M["tv"]: return TV
        if a.id in M["names"] and M["names"][a.id] == ("class", "GateOperation"): return GOP
        if a.id in M["names"] and M["names"][a.id] == ("ctor", "Circuit"): return CIRC
    if isinstance(a, ast.Subscript) and isinstance(a.value, ast.Name):
        h = M["names"].get(a.value.id)
        if h == ("typing", "Sequence"): return SEQ(ann(a.slice, M))
        if h == ("typing", "Iterable"): return ITER(ann(a.slice, M))
        if h is not None and h[0] == "protocol": return RULE(ann(a.slice, M))
    reject(a, "annotation not accepted")

# ------------------------------------------------------------------ per-function state
class Fn:
    def __init__(self, name, M):
        self.name, self.M = name, M
        self.fresh = 0
        self.ret = None          # type of the returned values, once known
        self.declared = None     # the return annotation's type, if there is one
        self.recursive = False
        self.types = {}          # function-level names (parameters, locals) -> type, for the one-use check of Iterables
    def tmp(self):
        self.fresh += 1
        return f"x{self.fresh}"

class LocalFun:
    def __init__(self, node, env):
        self.node, self.env = node, dict(env)
        self.ptypes = self.ret = self.text = None

IDENT = re.compile(r"[A-Za-z_][A-Za-z0-9_]*\Z")
def bind_name(x, env, F, node, ty, toplevel=True):
    need(IDENT.match(x) and "__" not in x, node, f"name {x!r} not accepted")
    need(x not in env and x not in F.M["names"] and x not in F.M["defs"] and x not in ("reversed", "isinstance", "self"), node,
         f"{x!r} is already bound (rebinding and shadowing are not in the grammar)")
    if toplevel:
        F.types[x] = ty
    return {**env, x: ty}

def with_binds(binds, text):
    """bind e1 (fun x1 => bind e2 (fun x2 => text)); `bind e (fun x => Ok x)` is written `e`"""
    if binds and text == f"Ok {binds[-1][0]}":
        binds, text = binds[:-1], binds[-1][1]
    for x, t in reversed(binds):
        text = f"bind ({t}) (fun {x} =>\n    {text})"
    return text

def closed(binds, text, ty):
    """a self-contained term of type result T: the binds of one branch, then its value"""
    return with_binds(binds, f"Ok {text}")

# ------------------------------------------------------------------ expressions
ATTRS = {(("gop",), "gate"): ("op_gate", GATE, False), (("gop",), "params"): ("op_params", SEQ(PARAM), False),
         (("gop",), "qubit_indices"): ("op_qubit_indices", SEQ(QUBIT), False),
         (("gate",), "name"): ("gate_name", STR, False), (("gate",), "wrapped_gate"): ("gate_wrapped_gate", GATE, True),
         (("gate",), "num_control_qubits"): ("gate_num_control_qubits", NAT, True),
         (("circ",), "operations"): ("c_operations", SEQ(GOP), False), (("circ",), "n_qubits"): ("c_n_qubits", NAT, False)}

def plain_args(e, n=None):
    need(not e.keywords, e, "keyword arguments not accepted here")
    need(not any(isinstance(a, ast.Starred) for a in e.args), e, "starred arguments not accepted here")
    if n is not None: need(len(e.args) == n, e, f"{n} argument(s) expected")

def truth(e, env, F, binds):
    t, ty = ex(e, env, F, binds)
    if ty == BOOL: return t
    if ty[0] == "seq": return f"(py_truth_seq {t})"
    reject(e, f"truth value of a value of type {ty} is not modelled")

def ex(e, env, F, binds):
    """returns (coq text, type); sub-evaluations that may raise are appended to binds in evaluation order"""
    M = F.M
    if isinstance(e, ast.Constant):
        need(isinstance(e.value, str) and re.fullmatch(r"[A-Za-z0-9_ .,:-]*", e.value), e, "literal not accepted")
        return f'"{e.value}"%string', STR
    if isinstance(e, ast.Name):
        need(isinstance(e.ctx, ast.Load), e, "name in non-load context")
        need(e.id in env and env[e.id] is not None, e, "unknown name (or a name that is not a value of the grammar)")
        need(not isinstance(env[e.id], LocalFun), e, "a nested function may only be called")
        return f"v_{e.id}", env[e.id]
    if isinstance(e, ast.List):
        need(all(not isinstance(x, ast.Starred) for x in e.elts), e, "starred element")
        parts = [ex(x, env, F, binds) for x in e.elts]
        ty = ANY
        for p in parts:
            ty = merge(ty, p[1])
            need(ty is not None, e, "list elements of different types")
        return "[" + "; ".join(p[0] for p in parts) + "]", SEQ(ty)
    if isinstance(e, ast.Attribute):
        t, ty = ex(e.value, env, F, binds)
        need((ty, e.attr) in ATTRS, e, f"attribute .{e.attr} of a value of type {ty} not accepted")
        f, rty, raises = ATTRS[(ty, e.attr)]
        if raises:
            x = F.tmp()
            binds.append((x, f"{f} {t}"))
            return x, rty
        return f"({f} {t})", rty
    if isinstance(e, ast.IfExp):
        c = truth(e.test, env, F, binds)
        ba, bb = [], []
        a, ta = ex(e.body, env, F, ba)
        b, tb = ex(e.orelse, env, F, bb)
        ty = join(ta, tb, e)
        if not ba and not bb:
            return f"(if {c} then {a} else {b})", ty
        x = F.tmp()
        binds.append((x, f"if {c} then ({closed(ba, a, ta)})\n    else ({closed(bb, b, tb)})"))
        return x, ty
    if isinstance(e, ast.UnaryOp):
        need(isinstance(e.op, ast.Not), e, "unary operator not accepted")
        return f"(negb {truth(e.operand, env, F, binds)})", BOOL
    if isinstance(e, ast.BoolOp):
        # a or b or c  =  a or (b or c): the right operands are evaluated only when needed
        is_or = isinstance(e.op, ast.Or)
        a, ta = ex(e.values[0], env, F, binds)
        need(ta == BOOL, e, "boolean operator on a non-bool (the value of the operator would be an operand)")
        rest = e.values[1] if len(e.values) == 2 else ast.copy_location(ast.BoolOp(op=e.op, values=e.values[1:]), e)
        bb = []
        b, tb = ex(rest, env, F, bb)
        need(tb == BOOL, e, "boolean operator on a non-bool (the value of the operator would be an operand)")
        if not bb:
            return f"({'orb' if is_or else 'andb'} {a} {b})", BOOL
        x = F.tmp()
        if is_or:
            binds.append((x, f"if {a} then Ok true else ({closed(bb, b, BOOL)})"))
        else:
            binds.append((x, f"if {a} then ({closed(bb, b, BOOL)}) else Ok false"))
        return x, BOOL
    if isinstance(e, ast.Compare):
        need(len(e.ops) == 1 and isinstance(e.ops[0], (ast.Eq, ast.NotEq)), e, "comparison not accepted")
        a, ta = ex(e.left, env, F, binds)
        b, tb = ex(e.comparators[0], env, F, binds)
        need(ta == STR and tb == STR, e, f"== on {ta}, {tb} not accepted (only str)")
        t = f"(String.eqb {a} {b})"
        return (t if isinstance(e.ops[0], ast.Eq) else f"(negb {t})"), BOOL
    if isinstance(e, ast.ListComp):
        return comprehension(e, env, F, binds)
    if isinstance(e, ast.Call):
        return call(e, env, F, binds)
    reject(e, "expression not accepted")

def comprehension(e, env, F, binds):
    for g in e.generators:
        need(not g.ifs and not g.is_async, e, "comprehension conditions / async not accepted")
    def clause(k, env, binds):
        """text of type result (list T) for clauses k.., evaluated in env; its own binds go to `binds`"""
        if k == len(e.generators):
            t, ty = ex(e.elt, env, F, binds)
            need(ty[0] != "iter", e, "a list of iterators")
            return f"Ok [{t}]", ty
        g = e.generators[k]
        s, sty = ex(g.iter, env, F, binds)
        need(sty[0] in ("seq", "iter"), g.iter, f"iteration over a value of type {sty}")
        need(isinstance(g.target, ast.Name), g.target, "comprehension target must be a name")
        env1 = bind_name(g.target.id, env, F, g.target, sty[1], toplevel=False)
        inner = []
        body, ty = clause(k + 1, env1, inner)
        return f"py_comp {s} (fun v_{g.target.id} =>\n    {with_binds(inner, body)})", ty
    t, ty = clause(0, env, binds)
    x = F.tmp()
    binds.append((x, t))
    return x, SEQ(ty)

def call_function(sig, e, env, F, binds):
    plain_args(e, len(sig["params"]))
    need(sig["ret"] is not None, e, "recursive call before the type of the function's result is known")
    s, args = {}, []
    for a, pt in zip(e.args, sig["params"]):
        t, ty = ex(a, env, F, binds)
        unify(pt, ty, s, a)
        args.append(t)
    x = F.tmp()
    binds.append((x, " ".join([sig["coq"]] + args)))
    return x, subst(sig["ret"], s)

def call(e, env, F, binds):
    M, f = F.M, e.func
    if isinstance(f, ast.Attribute):                      # method calls
        t, ty = ex(f.value, env, F, binds)
        if ty[0] == "rule" and f.attr in M["protocol"]["methods"]:
            pt, rt = M["protocol"]["methods"][f.attr]
            plain_args(e, 1)
            a, ta = ex(e.args[0], env, F, binds)
            s = {"tv": ty[1]}
            unify(pt, ta, s, e)
            x = F.tmp()
            binds.append((x, f"m_{f.attr} {t} {a}"))
            return x, subst(rt, s)
        if ty == GATE and f.attr == "controlled":
            plain_args(e, 1)
            a, ta = ex(e.args[0], env, F, binds)
            need(ta == NAT, e, ".controlled() of a non-integer")
            x = F.tmp()
            binds.append((x, f"gate_controlled {t} {a}"))
            return x, GATE
        reject(e, f"method .{f.attr} of a value of type {ty} not accepted")
    if isinstance(f, ast.Name) and f.id in env and isinstance(env[f.id], LocalFun):
        lf = env[f.id]
        plain_args(e, len(lf.node.args.args))
        args, tys = [], []
        for a in e.args:
            t, ty = ex(a, env, F, binds)
            args.append(t); tys.append(ty)
        if lf.ptypes is None:
            lf.ptypes = tys
            env1 = lf.env
            for p, ty in zip(lf.node.args.args, tys):
                env1 = bind_name(p.arg, env1, F, p, ty, toplevel=False)
            r = strip_docstring(lf.node.body)
            need(len(r) == 1 and isinstance(r[0], ast.Return) and r[0].value is not None, lf.node,
                 "a nested function must consist of one `return <expr>`")
            bb = []
            bt, lf.ret = ex(r[0].value, env1, F, bb)
            params = " ".join(f"(v_{p.arg} : {cty(ty, M)})" for p, ty in zip(lf.node.args.args, tys))
            need(not has_any(lf.ret) and not any(has_any(t) for t in tys), lf.node, "the type of a nested function is not determined")
            lf.text = f"(fun {params} =>\n    (* {src(r[0])} *)\n    {closed(bb, bt, lf.ret)})"
        need(lf.ptypes == tys, e, "a nested function called at two different types")
        x = F.tmp()
        binds.append((x, " ".join([f"v_{f.id}"] + args)))
        return x, lf.ret
    if isinstance(f, ast.Name):
        need(f.id not in env, e, "call of a local value")
        kind = M["names"].get(f.id) or ({"reversed": ("builtin", "reversed"), "isinstance": ("builtin", "isinstance")}.get(f.id))
        need(kind is not None, e, "call of an unknown function")
        if kind[0] == "func":
            if f.id == F.name: F.recursive = True
            return call_function(kind[1], e, env, F, binds)
        if kind[0] == "proto":
            plain_args(e)
            args = []
            for a in e.args:
                t, ty = ex(a, env, F, binds)
                need(ty == PARAM, a, "a gate prototype is applied to gate parameters")
                args.append(t)
            return f"({kind[1]} [{'; '.join(args)}])", GATE
        if kind == ("builtin", "reversed"):
            plain_args(e, 1)
            t, ty = ex(e.args[0], env, F, binds)
            need(ty[0] == "seq", e, f"reversed() of a value of type {ty} (only a Sequence can be reversed)")
            return f"(py_reversed {t})", ITER(ty[1])
        if kind == ("builtin", "isinstance"):
            plain_args(e, 2)
            t, ty = ex(e.args[0], env, F, binds)
            c = e.args[1]
            need(ty == GATE and isinstance(c, ast.Name) and c.id not in env and M["names"].get(c.id) == ("class", "ControlledGate"), e,
                 "only isinstance(<gate>, ControlledGate) is accepted")
            return f"(isinstance_ControlledGate {t})", BOOL
        if kind == ("ctor", "Circuit"):
            need(len(e.args) == 1 and not isinstance(e.args[0], ast.Starred), e, "Circuit(<operations>[, n_qubits=<n>])")
            need(len(e.keywords) <= 1 and all(k.arg == "n_qubits" for k in e.keywords), e, "Circuit(<operations>[, n_qubits=<n>])")
            t, ty = ex(e.args[0], env, F, binds)
            unify(ITER(GOP), ty, {}, e)
            n = "None"
            if e.keywords:
                nt, nty = ex(e.keywords[0].value, env, F, binds)
                need(nty == NAT, e, "n_qubits is not an integer")
                n = f"(Some {nt})"
            x = F.tmp()
            binds.append((x, f"py_Circuit {t} {n}"))
            return x, CIRC
        reject(e, "call not accepted")
    # <gate expression>(*<qubits>)
    t, ty = ex(f, env, F, binds)
    need(ty == GATE, e, "call of a value that is not a gate")
    need(not e.keywords and len(e.args) == 1 and isinstance(e.args[0], ast.Starred), e, "a gate is applied as gate(*qubits)")
    q, tq = ex(e.args[0].value, env, F, binds)
    need(tq == SEQ(QUBIT), e, "gate(*x) with x not a sequence of qubits")
    return f"(gate_call {t} {q})", GOP

# ------------------------------------------------------------------ statements
def ret_stmt(s, env, F):
    need(s.value is not None, s, "return without a value")
    binds = []
    t, ty = ex(s.value, env, F, binds)
    if F.declared is not None:
        unify(F.declared, ty, {}, s)
    else:
        m = ty if F.ret is None else merge(F.ret, ty)
        need(m is not None, s, f"returned value of type {ty}; this function returns {F.ret}")
        F.ret = m
        if F.M["names"].get(F.name, (None,))[0] == "func":
            F.M["names"][F.name][1]["ret"] = m
    return f"(* {src(s)} *)\n  " + with_binds(binds, f"Ok {t}")

def block(stmts, env, F):
    """statements -> term of type result <return type>"""
    need(bool(stmts), F.M["tree"], f"{F.name}: the function must end in return")
    s, rest = stmts[0], stmts[1:]
    if isinstance(s, ast.Return):
        need(not rest, s, "statements after return")
        return ret_stmt(s, env, F)
    need(bool(rest), s, "the function must end in return")
    if isinstance(s, ast.If):
        need(not s.orelse and len(s.body) == 1 and isinstance(s.body[0], ast.Return), s, "only `if c: return e` (no else) is accepted")
        binds = []
        c = truth(s.test, env, F, binds)
        r = ret_stmt(s.body[0], env, F)
        return f"(* if {src(s.test)} *)\n  " + with_binds(binds, f"if {c} then ({r}) else\n  {block(rest, env, F)}")
    if isinstance(s, ast.Assign):
        need(len(s.targets) == 1, s, "chained assignment")
        tg = s.targets[0]
        binds = []
        t, ty = ex(s.value, env, F, binds)
        need(not has_any(ty), s, "the type of the assigned value is not determined")
        if isinstance(tg, ast.Name):
            env1 = bind_name(tg.id, env, F, tg, ty)
            return f"(* {src(s)} *)\n  " + with_binds(binds, f"let v_{tg.id} : {cty(ty, F.M)} := {t} in\n  {block(rest, env1, F)}")
        need(isinstance(tg, ast.Tuple) and tg.elts and ty[0] == "seq", s, "assignment target not accepted (or unpacking of a non-Sequence)")
        names, star, env1 = [], None, env
        for k, x in enumerate(tg.elts):
            if isinstance(x, ast.Starred):
                need(k == len(tg.elts) - 1 and isinstance(x.value, ast.Name), x, "a starred target is accepted only as the last one")
                star = x.value.id
                env1 = bind_name(star, env1, F, x, ty)            # the rest is a list
            else:
                need(isinstance(x, ast.Name), x, "unpacking target must be a name")
                names.append(x.id)
                env1 = bind_name(x.id, env1, F, x, ty[1])
        pat = " :: ".join([f"v_{n}" for n in names] + [f"v_{star}"]) if star else "[" + "; ".join(f"v_{n}" for n in names) + "]"
        return (f"(* {src(s)} *)\n  " + with_binds(binds, f"match {t} with\n  | {pat} =>\n  {block(rest, env1, F)}\n  | _ => Raise ValueError\n  end"))
    if isinstance(s, ast.FunctionDef):
        need(not s.decorator_list, s, "decorated nested function")
        a = s.args
        need(not (a.vararg or a.kwarg or a.kwonlyargs or a.defaults or a.posonlyargs or a.kw_defaults) and a.args, s,
             "a nested function takes plain positional parameters")
        need(all(p.annotation is None for p in a.args) and s.returns is None, s, "annotations on a nested function are not read; remove them")
        need(IDENT.match(s.name) and s.name not in env and s.name not in F.M["names"] and s.name not in F.M["defs"]
             and s.name not in ("reversed", "isinstance", "self"), s,
             f"{s.name!r} is already bound")
        lf = LocalFun(s, env)
        lf.env[s.name] = None                      # not recursive: the name is unusable inside its own body
        body = block(rest, {**env, s.name: lf}, F)
        need(lf.text is not None, s, "nested function is never called (it cannot be typed)")
        return f"(* def {s.name} *)\n  let v_{s.name} := {lf.text} in\n  {body}"
    reject(s, "statement not accepted")

def one_use_of_iterables(fdef, F):
    """a name typed Iterable is read at most once, in a position evaluated exactly once"""
    repeated = set()
    for n in ast.walk(fdef):
        if isinstance(n, ast.ListComp):
            parts = [n.elt] + [g.iter for g in n.generators[1:]]
        elif isinstance(n, (ast.FunctionDef, ast.Lambda)) and n is not fdef:
            parts = n.body if isinstance(n.body, list) else [n.body]
        else:
            continue
        for p in parts:
            for m in ast.walk(p):
                repeated.add(id(m))
    for x, ty in F.types.items():
        if ty[0] != "iter": continue
        uses = [n for n in ast.walk(fdef) if isinstance(n, ast.Name) and n.id == x and isinstance(n.ctx, ast.Load)]
        need(len(uses) <= 1, fdef, f"{x} is typed Iterable (possibly a one-shot iterator) and is read {len(uses)} times")
        for u in uses:
            need(id(u) not in repeated, u, f"{x} is typed Iterable and is read in a position that is evaluated repeatedly")

def function(fdef, M, coqname, method_of=None):
    """a module-level function, or a method (self dropped; method_of = (param type, return type) demanded by the Protocol)"""
    need(not fdef.decorator_list, fdef, "decorated function (a decorator may change what the call returns)")
    a = fdef.args
    need(not (a.vararg or a.kwarg or a.kwonlyargs or a.defaults or a.posonlyargs or a.kw_defaults), fdef,
         "only plain positional parameters are accepted")
    F = Fn(fdef.name if method_of is None else None, M)
    args = list(a.args)
    if method_of is not None:
        need(args and args[0].arg == "self" and args[0].annotation is None, fdef, "a method's first parameter must be self")
        need(not any(isinstance(n, ast.Name) and n.id == "self" for b in fdef.body for n in ast.walk(b)), fdef,
             "self is used (instance state is not modelled)")
        args = args[1:]
    env, params = {}, []
    for p in args:
        ty = ann(p.annotation, M)
        env = bind_name(p.arg, env, F, p, ty)
        params.append((p.arg, ty))
    declared = F.declared = ann(fdef.returns, M) if fdef.returns is not None else None
    if method_of is not None:
        need([t for _, t in params] == [method_of[0]] and declared == method_of[1], fdef, "signature differs from the Protocol's")
    else:
        M["names"][fdef.name] = ("func", dict(coq=coqname, params=[t for _, t in params], ret=declared))
    body = block(strip_docstring(fdef.body), env, F)
    one_use_of_iterables(fdef, F)
    ret = declared if declared is not None else F.ret
    need(not has_any(ret), fdef, "the type of the function's result is not determined (it only ever returns empty lists)")
    sig = " ".join(f"(v_{p} : {cty(t, M)})" for p, t in params)
    kw = "Fixpoint" if F.recursive else "Definition"
    return f"{kw} {coqname} {M['typarams']} {sig} : result {cty(ret, M)} :=\n  {body}.\n"

# ------------------------------------------------------------------ modules
def resolve(n, package):
    """absolute module path (below orquestra.quantum) of a relative ImportFrom inside `package`"""
    need(n.level in (1, 2) and n.module, n, "import not accepted")
    return (package + "." if n.level == 1 else "") + n.module

def scan_module(tree, package, expected, M):
    """module-level statements: imports (checked against `expected`: name -> (module, kind)), the TypeVar, classes,
    functions; every name bound once.  Returns {name: node} for classes and functions."""
    defs = {}
    def bind(x, node, kind):
        need(x not in M["names"] and x not in defs and x not in ("reversed", "isinstance"), node, f"{x} is bound twice or shadows a builtin of the grammar")
        if kind is not None: M["names"][x] = kind
    for n in tree.body:
        if isinstance(n, ast.ImportFrom):
            for al in n.names:
                need(al.asname is None and al.name != "*", n, "import alias / star import")
                if n.level == 0:
                    need((n.module, al.name) in {("abc", "abstractmethod"), ("typing", "Iterable"), ("typing", "Sequence"),
                                                 ("typing", "Protocol"), ("typing", "TypeVar")}, n, "import not accepted")
                    bind(al.name, n, (n.module, al.name))
                else:
                    mod = resolve(n, package)
                    need(al.name in expected and (expected[al.name][0] == mod or (expected[al.name][0] is None and mod == "circuits._builtin_gates")), n,
                         f"{al.name} imported from an unexpected module")
                    bind(al.name, n, expected[al.name][1])
        elif isinstance(n, ast.Assign):
            need(M["allow_typevar"] and ast.unparse(n) == "OperationType = TypeVar('OperationType')" and M["tv"] is None
                 and M["names"].get("TypeVar") == ("typing", "TypeVar"), n, "module-level assignment not accepted")
            M["tv"] = "OperationType"
            bind("OperationType", n, ("tyvar",))
        elif isinstance(n, (ast.FunctionDef, ast.ClassDef)):
            bind(n.name, n, None)
            defs[n.name] = n
        elif isinstance(n, ast.Expr) and isinstance(n.value, ast.Constant) and isinstance(n.value.value, str):
            pass
        else:
            reject(n, "module-level statement not accepted")
    M["defs"] = set(defs)
    return defs

def protocol_class(c, M):
    need(not c.decorator_list and not c.keywords and len(c.bases) == 1 and ast.unparse(c.bases[0]) == f"Protocol[{M['tv']}]"
         and M["names"].get("Protocol") == ("typing", "Protocol"), c, "the rule Protocol must be `class DecompositionRule(Protocol[OperationType])`")
    methods = {}
    for m in strip_docstring(c.body):
        need(isinstance(m, ast.FunctionDef) and m.name not in methods and IDENT.match(m.name) and not m.name.startswith("_"), m,
             "the Protocol may only contain method declarations")
        need(len(m.decorator_list) == 1 and isinstance(m.decorator_list[0], ast.Name) and m.decorator_list[0].id == "abstractmethod"
             and M["names"].get("abstractmethod") == ("abc", "abstractmethod"), m, "Protocol methods must be decorated @abstractmethod only")
        a = m.args
        need(not (a.vararg or a.kwarg or a.kwonlyargs or a.defaults or a.posonlyargs or a.kw_defaults) and len(a.args) == 2
             and a.args[0].arg == "self", m, "Protocol method must be (self, <one annotated parameter>)")
        b = strip_docstring(m.body)
        need(b == [] or (len(b) == 1 and (isinstance(b[0], ast.Pass) or (isinstance(b[0], ast.Expr) and isinstance(b[0].value, ast.Constant)
                                                                          and b[0].value.value is Ellipsis))), m,
             "Protocol method with a body")
        methods[m.name] = (ann(a.args[1].annotation, M), ann(m.returns, M))
    need(methods, c, "Protocol without methods")
    M["protocol"] = dict(name=c.name, methods=methods)
    M["names"][c.name] = ("protocol", c.name)
    tv = M["tv"]
    fields = ";\n".join(f"  m_{k} : {cty(pt, M)} -> result {cty(rt, M)}" for k, (pt, rt) in methods.items())
    return (f"Record {c.name}_gen ({tv} : Type) : Type := mk_{c.name}_gen {{\n{fields}\n}}.\n"
            + "".join(f"Arguments m_{k} {{{tv}}}.\n" for k in methods) + f"Arguments mk_{c.name}_gen {{{tv}}}.\n")

def rule_class(c, M):
    proto = M["protocol"]
    need(not c.decorator_list and not c.keywords and len(c.bases) == 1 and ast.unparse(c.bases[0]) == f"{proto['name']}[GateOperation]"
         and M["names"].get("GateOperation") == ("class", "GateOperation"), c, f"the rule class must derive from {proto['name']}[GateOperation] only")
    body = strip_docstring(c.body)
    need(all(isinstance(m, ast.FunctionDef) for m in body) and sorted(m.name for m in body) == sorted(proto["methods"]), c,
         "the rule class must define exactly the Protocol's methods (no attributes, no other methods)")
    out = ""
    for m in body:
        pt, rt = proto["methods"][m.name]
        s = {"tv": GOP}
        out += function(m, M, f"{c.name}_{m.name}_gen", method_of=(subst(pt, s), subst(rt, s))) + "\n"
    M["names"][c.name] = ("ruleclass", c.name)
    fields = " ".join(f"{c.name}_{k}_gen" for k in proto["methods"])
    out += (f"(* an instance {c.name}(): the class has no attributes and its methods do not use self *)\n"
            f"Definition {c.name}_gen {{P : Type}} : {proto['name']}_gen (pyop P) :=\n  mk_{proto['name']}_gen {fields}.\n")
    return out

def prototypes(tree, wanted):
    """NAME = make_parametric_gate_prototype(<str>, _matrices.<function>, <int>[, <bool> | is_hermitian=<bool>])"""
    binders = {}
    for n in tree.body:
        for m in ([n] if isinstance(n, (ast.FunctionDef, ast.ClassDef)) else ast.walk(n)):
            xs = []
            if isinstance(m, (ast.FunctionDef, ast.ClassDef)): xs = [m.name]
            elif isinstance(m, ast.Name) and isinstance(m.ctx, (ast.Store, ast.Del)): xs = [m.id]
            elif isinstance(m, ast.alias):
                need(m.name != "*", n, "star import in _builtin_gates")
                xs = [(m.asname or m.name).split(".")[0]]
            for x in xs: binders.setdefault(x, []).append(n)
        need(isinstance(n, (ast.FunctionDef, ast.Assign, ast.ImportFrom, ast.Import, ast.Expr)), n, "_builtin_gates: module-level statement not accepted")
    b = binders.get("make_parametric_gate_prototype", [])
    need(len(b) == 1 and isinstance(b[0], ast.FunctionDef) and not b[0].decorator_list, tree, "make_parametric_gate_prototype must be defined once, undecorated")
    b = binders.get("_matrices", [])
    need(len(b) == 1 and isinstance(b[0], ast.ImportFrom) and b[0].level == 1 and b[0].module is None, tree, "_matrices must be bound by `from . import _matrices`")
    out = ""
    for x in wanted:
        b = binders.get(x, [])
        need(len(b) == 1 and isinstance(b[0], ast.Assign) and len(b[0].targets) == 1 and isinstance(b[0].targets[0], ast.Name), tree,
             f"_builtin_gates: {x} must be bound exactly once, by a plain assignment")
        c = b[0].value
        need(isinstance(c, ast.Call) and isinstance(c.func, ast.Name) and c.func.id == "make_parametric_gate_prototype", c,
             f"{x} is not made by make_parametric_gate_prototype")
        args, kws = c.args, c.keywords
        need(len(args) in (3, 4) and not any(isinstance(a, ast.Starred) for a in args), c, "arguments of make_parametric_gate_prototype")
        need(all(k.arg == "is_hermitian" for k in kws) and len(kws) + len(args) <= 4, c, "keywords of make_parametric_gate_prototype")
        nm, fac, nq = args[:3]
        herm = args[3] if len(args) == 4 else (kws[0].value if kws else ast.Constant(value=False))
        need(isinstance(nm, ast.Constant) and isinstance(nm.value, str) and re.fullmatch(r"[A-Za-z0-9_]+", nm.value), c, "gate name")
        need(isinstance(fac, ast.Attribute) and isinstance(fac.value, ast.Name) and fac.value.id == "_matrices" and IDENT.match(fac.attr), c, "matrix factory must be _matrices.<function>")
        need(isinstance(nq, ast.Constant) and type(nq.value) is int and 0 <= nq.value <= 64, c, "num_qubits")
        need(isinstance(herm, ast.Constant) and type(herm.value) is bool, c, "is_hermitian")
        out += (f"(* {src(b[0])} *)\nDefinition {x}_gen {{P : Type}} : list P -> pygate P :=\n"
                f"  make_parametric_gate_prototype \"{nm.value}\"%string \"{fac.attr}\"%string {nq.value}%nat {'true' if herm.value else 'false'}.\n\n")
    return out

HEADER = """(* GENERATED by tr/tr_decompose.py from decompositions/_decomposition.py, decompositions/_orquestra_decompositions.py
   and circuits/_builtin_gates.py - do not edit.  Every definition is the construct-by-construct translation of the
   Python definition of the same name; the meaning of the building blocks is fixed in Circ/DecomposeTrSupport.v;
   agreement with the model (Circ/Decompose.v, Circ/U3Rule.v) is proved in Circ/DecomposeGenProofs.v. *)
Require Import Coq.Lists.List Coq.Strings.String Coq.Bool.Bool.
Require Import OQ.Circ.DecomposeTrSupport.
Import ListNotations.

"""

def generate(repo):
    base = os.path.join(repo, "src/orquestra/quantum")
    # ---- decompositions/_decomposition.py
    t1 = ast.parse(open(os.path.join(base, "decompositions/_decomposition.py")).read())
    M1 = dict(tree=t1, names={}, tv=None, allow_typevar=True, protocol=None, typarams="{OperationType : Type}")
    d1 = scan_module(t1, "decompositions", {}, M1)
    need(M1["tv"] is not None, t1, "OperationType = TypeVar(...) missing")
    need(sorted(d1) == ["DecompositionRule", "decompose_operation", "decompose_operations"] and isinstance(d1["DecompositionRule"], ast.ClassDef)
         and all(isinstance(d1[f], ast.FunctionDef) for f in ("decompose_operation", "decompose_operations")), t1,
         "_decomposition.py must define exactly DecompositionRule, decompose_operation, decompose_operations")
    text = HEADER + "(* ------------------------------------------------------------------ decompositions/_decomposition.py *)\n"
    text += protocol_class(d1["DecompositionRule"], M1) + "\n"
    for f in ("decompose_operation", "decompose_operations"):
        text += function(d1[f], M1, f + "_gen") + "\n"
    # ---- decompositions/_orquestra_decompositions.py
    t2 = ast.parse(open(os.path.join(base, "decompositions/_orquestra_decompositions.py")).read())
    M2 = dict(tree=t2, names={}, tv=None, allow_typevar=False, protocol=M1["protocol"], typarams="{P : Type}")
    expected = {"Circuit": ("circuits._circuit", ("ctor", "Circuit")), "ControlledGate": ("circuits._gates", ("class", "ControlledGate")),
                "GateOperation": ("circuits._gates", ("class", "GateOperation")),
                "DecompositionRule": ("decompositions._decomposition", ("protocol", "DecompositionRule"))}
    for f in ("decompose_operation", "decompose_operations"):
        expected[f] = ("decompositions._decomposition", M1["names"][f])
    tb = ast.parse(open(os.path.join(base, "circuits/_builtin_gates.py")).read())
    protos = []
    for n in t2.body:                          # every name imported from _builtin_gates must be a gate prototype there
        if isinstance(n, ast.ImportFrom) and n.level and resolve(n, "decompositions") == "circuits._builtin_gates":
            for al in n.names:
                need(IDENT.match(al.name) and al.name not in expected, n, "imported prototype name")
                expected[al.name] = (None, ("proto", f"{al.name}_gen"))
                protos.append(al.name)
    d2 = scan_module(t2, "decompositions", expected, M2)
    need(sorted(d2) == ["U3GateToRotation", "decompose_orquestra_circuit"] and isinstance(d2["U3GateToRotation"], ast.ClassDef)
         and isinstance(d2["decompose_orquestra_circuit"], ast.FunctionDef), t2,
         "_orquestra_decompositions.py must define exactly U3GateToRotation and decompose_orquestra_circuit")
    text += "(* ------------------------------------------------------------------ circuits/_builtin_gates.py *)\n"
    text += prototypes(tb, sorted(set(protos) | {"U3"}))
    text += "(* ------------------------------------------------------------------ decompositions/_orquestra_decompositions.py *)\n"
    text += rule_class(d2["U3GateToRotation"], M2) + "\n"
    text += function(d2["decompose_orquestra_circuit"], M2, "decompose_orquestra_circuit_gen")
    return text

def run(repo, out):
    target = os.path.join(out, "DecomposeGen.v")
    try:
        text = generate(repo)
    except Reject as e:
        # fail closed: no stale definitions from an earlier source may survive a rejection; the file below does not
        # compile, so everything that depends on the generated definitions stops building until the source is accepted
        why = re.sub(r"[^A-Za-z0-9 _.,:=()\[\]'-]", " ", str(e))[:300].replace("(*", "( *").replace("*)", "* )")
        why = FORBIDDEN_TEXT.sub("...", why)
        write_if_changed(target, "(* GENERATED by tr/tr_decompose.py - THE TRANSLATOR REJECTED THE SOURCE:\n   " + why
                         + " *)\nDefinition translator_rejected_the_source : False := I.\n")
        raise
    write_if_changed(target, text)
    print("tr_decompose: ok")

if __name__ == "__main__":
    main_wrapper(run)
