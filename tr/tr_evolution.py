#!/usr/bin/env python3
"""Translate time_evolution_for_term, time_evolution, _generate_circuit_sequence and time_evolution_derivatives
(evolution.py) to Gallina, statement by statement (fail-closed: anything outside the grammar below is rejected with
exit code 3).

  evolution.py : the four functions   -> Gen/EvolutionGen.v

The generated definitions are built from the hand-written reading of the Python constructs in
coq/Pauli/EvolutionTrSupport.v; coq/Pauli/EvolutionGenProofs.v and coq/Pauli/EvolutionDerivGenProofs.v prove, on every
run, that the generated definitions agree with the models of Pauli/Evolution.v / Pauli/EvolutionCode.v that the C16
theorems are about.

Accepted grammar
  module      `import numpy as np`, `import warnings`, `from itertools import chain`; H, RX, RZ, CNOT, Circuit bound
              exactly once, by `from .circuits import ...`; the functions defined exactly once, undecorated;
              sorted/enumerate/len/abs/range/zip/list/ValueError not rebound at module level.
  parameters  plain positional, annotated PauliTerm | PauliRepresentation | Union[float, sympy.Expr] | float |
              str | int | Circuit (defaults must be constants; the generated function takes every parameter
              explicitly; a call may pass keywords, an omitted parameter takes its constant default).
  types       circ (Circuit), gateop (GateOperation), num (float / sympy number), int, qubit, qlist (list of
              qubits), qset (set of qubits), itemset, term, termlist, ham, str, bool, numlist, circlist (local lists
              built by [] / [..] and .append), oplist / oplists (Circuit.operations and lists of them), complex
              (term.coefficient, only compared with a number).
  expressions names; int / float / str literals (a minus sign in front of a numeric literal is part of the literal);
              term.qubits, term.operations, term.is_constant, term.coefficient.real, term.coefficient.imag,
              ham.terms; Circuit(); sorted(qset|qlist); len(qlist|qset|itemset|termlist); abs(num);
              H(q), CNOT(q, q), RX(<closed expression over np.pi, int literals, unary -, /, *>)(q), RZ(num)(q);
              circ.inverse(); term[qubit]; qlist[int]; int + int, int - int; num + num, num * num (an int operand is
              coerced), num / num (idem; ZeroDivisionError when the divisor is zero); np.pi as a number (the function
              is then generated over a number structure with pi, `pynum_pi`); circ + circ, circ + gateop;
              int ==/!=/</<=/>/>= int, str ==/!= str, qubit ==/!= qubit, num > num, num < num, num ==/!= term.coefficient;
              `a if c else b` (only the chosen branch is evaluated); [] and [num, ...];
              circ.operations, [e for x in range(int)] (e pure), chain.from_iterable(oplists), list(..), Circuit(oplist);
              a call of another translated function.
  statements  at function level: `x = e`, `x += e`, `if c: return e`, `if c: raise ValueError(...)`, `for` loops,
              and a final `return e` (a circuit or a pair of lists) or a final `if c: <block> else: <block>` whose
              blocks end the same way;
              in a loop body: `x = e`, `x += e`, `xs.append(e)`, `if/elif/else` of such statements, nested `for` loops,
              `warnings.warn(<str> | <str>.format(names))` (no effect in the model).
  loops       `for a in qlist|termlist|numlist|circlist`, `for a in range(int)`, `for a, b in enumerate(list)`,
              `for a, b in zip(list, list)`.  Iteration over a set, a term or a sum is rejected (the order is not
              modelled).  A loop becomes `py_for <iterable> <initial state> <body>` where the state record has one field
              per local assigned (or appended to) in the body (type `option T`, initially None, when the local is not
              bound before the loop: reading it goes through `py_local`, i.e. UnboundLocalError).  Loop targets are not
              visible after the loop.  Lists are values here: a list local may not be copied to another name
              (`y = xs`), and a list that an enclosing loop iterates over may not be appended to.
Evaluation order is Python's: sub-expressions that can raise (py_local, py_index, py_truediv, calls, conditional
expressions with such parts) are bound left to right before the pure remainder of the statement.
"""
OUTPUTS = ['EvolutionGen.v']      # generated files (the driver uses this to decide which properties depend on this translator)
import ast, os, re
from fractions import Fraction
from trlib import *

FUNCS = ["time_evolution_for_term", "time_evolution", "_generate_circuit_sequence", "time_evolution_derivatives"]   # dependency order
GATE_NAMES = ["H", "RX", "RZ", "CNOT", "Circuit"]
BUILTINS = ["sorted", "enumerate", "len", "abs", "range", "zip", "list", "ValueError"]
FORBIDDEN_TEXT = re.compile(r"Admitted|admit|Axiom|Parameter|Conjecture|bypass_check|Unset|\(\*|\*\)|type-in-type|impredicative")

COQTY = {"circ": "circ (num N)", "gateop": "pyop (num N)", "num": "num N", "int": "Z", "qubit": "nat",
         "qlist": "list nat", "qset": "list nat", "itemset": "list (nat * letter)", "term": "pterm (num N)",
         "termlist": "list (pterm (num N))", "ham": "list (pterm (num N))", "str": "string", "bool": "bool",
         "numlist": "list (num N)", "circlist": "list (circ (num N))", "oplist": "list (pyop (num N))",
         "oplists": "list (list (pyop (num N)))"}
ANNOT = {"PauliTerm": "term", "PauliRepresentation": "ham", "Union[float, sympy.Expr]": "num", "float": "num",
         "str": "str", "int": "int", "Circuit": "circ"}
RANNOT = {"Circuit": "circ", "Tuple[List[Circuit], List[float]]": ("pair", "circlist", "numlist")}
ELEM = {"qlist": "qubit", "termlist": "term", "numlist": "num", "circlist": "circ"}
LISTOF = {"num": "numlist", "circ": "circlist", "oplist": "oplists"}
MUTABLE = ("numlist", "circlist", "list?")          # "list?": a list whose element type is not known yet

def name_of(f):
    return f.lstrip("_")

def coqty(t):
    if isinstance(t, tuple) and t[0] == "pair":
        return f"({COQTY[t[1]]} * {COQTY[t[2]]})"
    if isinstance(t, tuple):
        return f"option ({COQTY[t[1]]})"
    if t == "list?":
        reject(None, "a list local whose element type is never determined")
    return COQTY[t]

def src(node):
    t = " ".join(ast.unparse(node).split("\n")[0].split())
    return "(source elided)" if FORBIDDEN_TEXT.search(t) or '"' in t else t

# ----------------------------------------------------------------------------- module-level checks
def bound_names(tree):
    """every name bound at module level, with the node that binds it"""
    out = []
    for n in tree.body:
        if isinstance(n, (ast.FunctionDef, ast.AsyncFunctionDef, ast.ClassDef)):
            out.append((n.name, n))
        elif isinstance(n, ast.Import):
            for a in n.names:
                out.append(((a.asname or a.name).split(".")[0], n))
        elif isinstance(n, ast.ImportFrom):
            for a in n.names:
                if a.name == "*":
                    reject(n, "star import (may rebind anything)")
                out.append((a.asname or a.name, n))
        elif isinstance(n, ast.Expr) and isinstance(n.value, ast.Constant):
            pass
        else:
            for m in ast.walk(n):
                if isinstance(m, ast.Name) and isinstance(m.ctx, (ast.Store, ast.Del)):
                    out.append((m.id, n))
            if not isinstance(n, (ast.Assign, ast.AnnAssign)):
                reject(n, "module-level statement not accepted")
    return out

def check_module(tree):
    names = bound_names(tree)
    def binders(x):
        return [n for (y, n) in names if y == x]
    for b in BUILTINS:
        if binders(b):
            reject(binders(b)[0], f"builtin {b} is rebound at module level")
    for g in GATE_NAMES:
        bs = binders(g)
        if len(bs) != 1 or not (isinstance(bs[0], ast.ImportFrom) and bs[0].module == "circuits" and bs[0].level == 1
                                and any(a.name == g and a.asname is None for a in bs[0].names)):
            reject(bs[0] if bs else tree, f"{g} must be bound exactly once, by `from .circuits import {g}`")
    bs = binders("np")
    if len(bs) != 1 or not (isinstance(bs[0], ast.Import) and any(a.name == "numpy" and a.asname == "np" for a in bs[0].names)):
        reject(bs[0] if bs else tree, "np must be bound exactly once, by `import numpy as np`")
    bs = binders("warnings")
    if len(bs) != 1 or not (isinstance(bs[0], ast.Import) and any(a.name == "warnings" and a.asname is None for a in bs[0].names)):
        reject(bs[0] if bs else tree, "warnings must be bound exactly once, by `import warnings`")
    bs = binders("chain")
    if len(bs) != 1 or not (isinstance(bs[0], ast.ImportFrom) and bs[0].module == "itertools" and bs[0].level == 0
                            and any(a.name == "chain" and a.asname is None for a in bs[0].names)):
        reject(bs[0] if bs else tree, "chain must be bound exactly once, by `from itertools import chain`")
    for f in FUNCS:
        bs = binders(f)
        if len(bs) != 1 or not isinstance(bs[0], ast.FunctionDef):
            reject(bs[0] if bs else tree, f"{f} must be defined exactly once at module level")

# ----------------------------------------------------------------------------- translation context
class Fn:
    """per-function state: fresh names, emitted auxiliary definitions, signatures of translated functions"""
    def __init__(self, name, sigs):
        self.name, self.sigs = name, sigs
        self.fresh = 0
        self.nloops = 0
        self.defs = []           # text of records / loop bodies, in dependency order
        self.rtype = None        # type of the returned value (all returns agree)
        self.uses_pi = False     # np.pi used as a number: generated over pynum_pi
        self.listtypes = {}      # list locals created by []: name -> list type once an append determines it

    def tmp(self):
        self.fresh += 1
        return f"x{self.fresh}"

class Scope:
    """names visible at a program point.
       plain: name -> type, read as v_<name>   (function-level locals, and inside a loop body: the function-level
              locals the loop does not assign, the targets of the enclosing loops, the body's own targets)
       loop : None at function level; inside a loop body the dict of the outermost enclosing loop, whose
              loop["carried"]: name -> type (None = not yet known) are read as (<projection> st)
       own  : the body's own loop targets; every other plain name read in the body is recorded in `used`
              (these become the parameters of the body's definition)"""
    def __init__(self, fn, plain, loop=None, own=()):
        self.fn, self.plain, self.loop, self.own = fn, plain, loop, list(own)
        self.used = []

    def note_used(self, x):
        if self.loop is not None and x not in self.own and x not in self.used:
            self.used.append(x)

    def read(self, node, binds):
        x = node.id
        if self.loop is not None and x in self.loop["carried"]:
            ty = self.loop["carried"][x]
            if ty is None:
                reject(node, "local assigned in the loop is read before its first assignment in the body")
            text = f"({self.loop['prefix']}_{x} N st)"
        elif x in self.plain:
            ty = self.plain[x]
            text = f"v_{x}"
            self.note_used(x)
        else:
            reject(node, "unknown name")
        if ty == "list?" or ty == ("opt", "list?"):
            reject(node, "list local read before an append determines its element type")
        if isinstance(ty, tuple):           # maybe unbound
            t = self.fn.tmp()
            binds.append((t, f"py_local {text}"))
            return t, ty[1]
        return text, ty

# ----------------------------------------------------------------------------- expressions
def cangle(e):
    """closed expression over np.pi and integer literals"""
    if isinstance(e, ast.Attribute) and isinstance(e.value, ast.Name) and e.value.id == "np" and e.attr == "pi":
        return "CPi"
    if isinstance(e, ast.Constant) and isinstance(e.value, int) and not isinstance(e.value, bool):
        return f"(CInt ({e.value})%Z)"
    if isinstance(e, ast.UnaryOp) and isinstance(e.op, ast.USub):
        return f"(CNeg {cangle(e.operand)})"
    if isinstance(e, ast.BinOp) and isinstance(e.op, ast.Div):
        return f"(CDiv {cangle(e.left)} {cangle(e.right)})"
    if isinstance(e, ast.BinOp) and isinstance(e.op, ast.Mult):
        return f"(CMul {cangle(e.left)} {cangle(e.right)})"
    reject(e, "RX argument must be a closed expression over np.pi and integer literals")

def as_num(text, ty, node):
    if ty == "num":
        return text
    if ty == "int":
        return f"(n_int N {text})"
    reject(node, "number expected")

def plain_call(e, nargs=None):
    if e.keywords:
        reject(e, "keyword arguments not accepted")
    if any(isinstance(a, ast.Starred) for a in e.args):
        reject(e, "starred arguments not accepted")
    if nargs is not None and len(e.args) != nargs:
        reject(e, f"expected {nargs} argument(s)")

def expr(e, sc, binds):
    """returns (coq text, type); effectful sub-evaluations are appended to binds in evaluation order"""
    if isinstance(e, ast.Constant) or (isinstance(e, ast.UnaryOp) and isinstance(e.op, ast.USub)
                                       and isinstance(e.operand, ast.Constant)
                                       and isinstance(e.operand.value, (int, float)) and not isinstance(e.operand.value, bool)):
        v = e.value if isinstance(e, ast.Constant) else -e.operand.value     # -1.0 is a literal
        if isinstance(v, bool) or v is None:
            reject(e, "literal not accepted")
        if isinstance(v, int):
            return f"({v})%Z", "int"
        if isinstance(v, float):
            fr = Fraction(repr(v))                 # the decimal value of the literal
            return f"(n_lit N ({fr.numerator} # {fr.denominator})%Q)", "num"
        if isinstance(v, str):
            if not re.fullmatch(r"[A-Za-z0-9_ .,:-]*", v):
                reject(e, "string literal with characters outside [A-Za-z0-9_ .,:-]")
            return f'"{v}"%string', "str"
        reject(e, "literal not accepted")
    if isinstance(e, ast.Name):
        if not isinstance(e.ctx, ast.Load):
            reject(e, "name in non-load context")
        return sc.read(e, binds)
    if isinstance(e, ast.Attribute):
        # term.coefficient.real / .imag
        if isinstance(e.value, ast.Attribute) and e.value.attr == "coefficient" and e.attr in ("real", "imag"):
            t, ty = expr(e.value.value, sc, binds)
            if ty != "term":
                reject(e, ".coefficient of a non-term")
            return f"({'t_re' if e.attr == 'real' else 't_im'} {t})", "num"
        if isinstance(e.value, ast.Name) and e.value.id == "np" and e.attr == "pi":
            shadowed(e.value, sc)
            sc.fn.uses_pi = True
            return "(n_pi N)", "num"
        t, ty = expr(e.value, sc, binds)
        if ty == "term" and e.attr == "coefficient":
            return t, "complex"                   # only comparable with a number
        if ty == "circ" and e.attr == "operations":
            return f"(circ_operations {t})", "oplist"
        table = {("term", "qubits"): ("term_qubits", "qset"), ("term", "operations"): ("term_operations", "itemset"),
                 ("term", "is_constant"): ("term_is_constant", "bool"), ("ham", "terms"): ("ham_terms", "termlist")}
        if (ty, e.attr) not in table:
            reject(e, f"attribute .{e.attr} of a value of type {ty} not accepted")
        f, rty = table[(ty, e.attr)]
        return f"({f} {t})", rty
    if isinstance(e, ast.Subscript):
        t, ty = expr(e.value, sc, binds)
        i, tyi = expr(e.slice, sc, binds)
        if ty == "term" and tyi == "qubit":
            return f"(term_getitem {t} {i})", "str"
        if ty == "qlist" and tyi == "int":
            x = sc.fn.tmp()
            binds.append((x, f"py_index {t} {i}"))
            return x, "qubit"
        reject(e, f"subscript {ty}[{tyi}] not accepted")
    if isinstance(e, ast.BinOp):
        a, ta = expr(e.left, sc, binds)
        b, tb = expr(e.right, sc, binds)
        op = type(e.op)
        if ta == "int" and tb == "int" and op in (ast.Add, ast.Sub):
            return f"({'Z.add' if op is ast.Add else 'Z.sub'} {a} {b})", "int"
        if op is ast.Add and ta == "circ" and tb == "circ":
            return f"(circ_add {a} {b})", "circ"
        if op is ast.Add and ta == "circ" and tb == "gateop":
            return f"(circ_add_op {a} {b})", "circ"
        if op in (ast.Mult, ast.Div, ast.Add) and {ta, tb} <= {"num", "int"} and "num" in (ta, tb):
            a, b = as_num(a, ta, e.left), as_num(b, tb, e.right)
            if op is ast.Mult:
                return f"(n_mul N {a} {b})", "num"
            if op is ast.Add:
                return f"(n_add N {a} {b})", "num"
            x = sc.fn.tmp()
            binds.append((x, f"py_truediv N {a} {b}"))
            return x, "num"
        reject(e, f"binary operation {op.__name__} on {ta}, {tb} not accepted")
    if isinstance(e, ast.Compare):
        if len(e.ops) != 1:
            reject(e, "chained comparison")
        a, ta = expr(e.left, sc, binds)
        b, tb = expr(e.comparators[0], sc, binds)
        op = type(e.ops[0])
        eqb = {"int": "Z.eqb", "str": "String.eqb", "qubit": "Nat.eqb"}
        if op in (ast.Eq, ast.NotEq) and ta == tb and ta in eqb:
            t = f"({eqb[ta]} {a} {b})"
            return (t if op is ast.Eq else f"(negb {t})"), "bool"
        if op in (ast.Gt, ast.Lt) and ta == "num" and tb == "num":
            return (f"(n_gtb N {a} {b})" if op is ast.Gt else f"(n_gtb N {b} {a})"), "bool"
        zcmp = {ast.Lt: "(Z.ltb {a} {b})", ast.LtE: "(Z.leb {a} {b})", ast.Gt: "(Z.ltb {b} {a})", ast.GtE: "(Z.leb {b} {a})"}
        if op in zcmp and ta == "int" and tb == "int":
            return zcmp[op].format(a=a, b=b), "bool"
        if op in (ast.Eq, ast.NotEq) and {ta, tb} == {"num", "complex"}:
            x, t = (a, b) if ta == "num" else (b, a)        # number == complex coefficient of the term t
            r = f"(py_num_eq_complex N {x} {t})"
            return (r if op is ast.Eq else f"(negb {r})"), "bool"
        reject(e, f"comparison {op.__name__} on {ta}, {tb} not accepted")
    if isinstance(e, ast.Call):
        f = e.func
        # method call: circ.inverse()
        if isinstance(f, ast.Attribute) and f.attr == "from_iterable" and isinstance(f.value, ast.Name) and f.value.id == "chain":
            shadowed(f.value, sc)
            plain_call(e, 1)
            t, ty = expr(e.args[0], sc, binds)
            if ty != "oplists":
                reject(e, f"chain.from_iterable of {ty} not accepted")
            return f"(py_chain {t})", "opiter"
        if isinstance(f, ast.Attribute):
            if f.attr != "inverse":
                reject(e, "method call not accepted")
            plain_call(e, 0)
            t, ty = expr(f.value, sc, binds)
            if ty != "circ":
                reject(e, ".inverse() of a non-circuit")
            return f"(circ_inverse {t})", "circ"
        # parametrised gate applied to qubits: RX(c)(q), RZ(a)(q)
        if isinstance(f, ast.Call) and isinstance(f.func, ast.Name) and f.func.id in ("RX", "RZ"):
            shadowed(f.func, sc)
            plain_call(f, 1)
            plain_call(e, 1)
            if f.func.id == "RX":
                g = f"(GRX {cangle(f.args[0])})"
            else:
                a, ta = expr(f.args[0], sc, binds)
                g = f"(GRZ {as_num(a, ta, f.args[0])})"
            q, tq = expr(e.args[0], sc, binds)
            if tq != "qubit":
                reject(e, "gate applied to a non-qubit")
            return f"({g}, [{q}])", "gateop"
        if not isinstance(f, ast.Name):
            reject(e, "call not accepted")
        shadowed(f, sc)
        if f.id == "Circuit" and len(e.args) == 1:
            plain_call(e, 1)
            t, ty = expr(e.args[0], sc, binds)
            if ty != "oplist":
                reject(e, f"Circuit() of {ty} not accepted")
            return f"(circ_of_operations {t})", "circ"
        if f.id == "Circuit":
            plain_call(e, 0)
            return "circ_empty", "circ"
        if f.id == "list":
            plain_call(e, 1)
            t, ty = expr(e.args[0], sc, binds)
            if ty != "opiter":
                reject(e, f"list() of {ty} not accepted")
            return f"(py_list {t})", "oplist"
        if f.id in ("H", "CNOT"):
            plain_call(e, 1 if f.id == "H" else 2)
            qs = []
            for a in e.args:
                q, tq = expr(a, sc, binds)
                if tq != "qubit":
                    reject(e, "gate applied to a non-qubit")
                qs.append(q)
            return f"({'GH' if f.id == 'H' else 'GCNOT'}, [{'; '.join(qs)}])", "gateop"
        if f.id == "sorted":
            plain_call(e, 1)
            t, ty = expr(e.args[0], sc, binds)
            if ty not in ("qset", "qlist"):
                reject(e, f"sorted() of {ty} not accepted")
            return f"(py_sorted {t})", "qlist"
        if f.id == "len":
            plain_call(e, 1)
            t, ty = expr(e.args[0], sc, binds)
            if ty not in ("qset", "qlist", "itemset", "termlist"):
                reject(e, f"len() of {ty} not accepted")
            return f"(py_len {t})", "int"
        if f.id == "abs":
            plain_call(e, 1)
            t, ty = expr(e.args[0], sc, binds)
            if ty != "num":
                reject(e, f"abs() of {ty} not accepted")
            return f"(n_abs N {t})", "num"
        if f.id in sc.fn.sigs:
            sig = sc.fn.sigs[f.id]
            if any(isinstance(a, ast.Starred) for a in e.args) or any(k.arg is None for k in e.keywords):
                reject(e, "starred arguments not accepted")
            if len(e.args) > len(sig["params"]):
                reject(e, "too many arguments")
            given = {}                                  # parameter -> argument node, evaluated in source order
            for (pn, _), a in zip(sig["params"], e.args):
                given[pn] = a
            for k in e.keywords:
                if k.arg in given or k.arg not in dict(sig["params"]):
                    reject(e, f"keyword {k.arg} not accepted")
                given[k.arg] = k.value
            vals = {}
            for pn, a in given.items():                 # dict order = evaluation order (positional, then keywords)
                t, ty = expr(a, sc, binds)
                pt = dict(sig["params"])[pn]
                if pt == "num":
                    t = as_num(t, ty, a)
                elif ty != pt:
                    reject(a, f"argument of type {ty} where {pt} is expected")
                vals[pn] = t
            for pn, pt in sig["params"]:
                if pn not in vals:
                    if pn not in sig["defaults"]:
                        reject(e, f"argument {pn} missing")
                    t, ty = expr(sig["defaults"][pn], sc, [])
                    if ty != pt:
                        reject(e, f"default of {pn} has type {ty}, {pt} expected")
                    vals[pn] = t
            if sig["uses_pi"]:
                sc.fn.uses_pi = True
            x = sc.fn.tmp()
            binds.append((x, " ".join([f"{name_of(f.id)}_gen N"] + [vals[pn] for pn, _ in sig["params"]])))
            return x, sig["rtype"]
        reject(e, "call not accepted")
    if isinstance(e, ast.IfExp):
        c = cond(e.test, sc, binds)                     # the test first, then only the chosen branch
        ba, bb = [], []
        a, ta = expr(e.body, sc, ba)
        b, tb = expr(e.orelse, sc, bb)
        if ta != tb:
            reject(e, f"branches of different types ({ta}, {tb})")
        if not ba and not bb:
            return f"(if {c} then {a} else {b})", ta
        x = sc.fn.tmp()
        binds.append((x, f"if {c} then ({with_binds(ba, 'Ok ' + a)}) else ({with_binds(bb, 'Ok ' + b)})"))
        return x, ta
    if isinstance(e, ast.List):
        if not isinstance(e.ctx, ast.Load):
            reject(e, "list in non-load context")
        if not e.elts:
            return "[]", "list?"
        items = []
        for x in e.elts:
            t, ty = expr(x, sc, binds)
            if ty != "num":
                reject(e, "only lists of numbers can be written as literals")
            items.append(t)
        return "[" + "; ".join(items) + "]", "numlist"
    if isinstance(e, ast.ListComp):
        if len(e.generators) != 1:
            reject(e, "only one generator accepted")
        g = e.generators[0]
        if g.ifs or g.is_async or not isinstance(g.target, ast.Name):
            reject(e, "comprehension form not accepted")
        it = g.iter
        if not (isinstance(it, ast.Call) and isinstance(it.func, ast.Name) and it.func.id == "range"):
            reject(e, "comprehension must range over range(int)")
        shadowed(it.func, sc)
        plain_call(it, 1)
        t, ty = expr(it.args[0], sc, binds)
        if ty != "int":
            reject(it, f"range() of {ty} not accepted")
        x = g.target.id
        if x in sc.plain or (sc.loop is not None and x in sc.loop["carried"]):
            reject(e, f"comprehension variable {x} rebinds an existing local")
        inner = Scope(sc.fn, dict(sc.plain, **{x: "int"}), sc.loop, own=sc.own + [x])
        eb = []
        el, tel = expr(e.elt, inner, eb)
        for u in inner.used:
            sc.note_used(u)
        if eb:
            reject(e, "comprehension element that can raise is not accepted")
        if tel not in LISTOF:
            reject(e, f"list of {tel} not accepted")
        return f"(map (fun v_{x} => {el}) (py_range {t}))", LISTOF[tel]
    reject(e, "expression not accepted")

def shadowed(name_node, sc):
    x = name_node.id
    if x in sc.plain or (sc.loop is not None and x in sc.loop["carried"]):
        reject(name_node, f"{x} is shadowed by a local")

def with_binds(binds, text):
    """bind e1 (fun x1 => bind e2 (fun x2 => text))"""
    for x, t in reversed(binds):
        text = f"bind ({t}) (fun {x} =>\n    {text})"
    return text

def cond(test, sc, binds):
    t, ty = expr(test, sc, binds)
    if ty != "bool":
        reject(test, f"condition of type {ty} (truthiness is not modelled)")
    return t

# ----------------------------------------------------------------------------- loops
def append_target(s):
    """xs.append(e) as a statement: the name xs"""
    if isinstance(s, ast.Expr) and isinstance(s.value, ast.Call) and isinstance(s.value.func, ast.Attribute) \
            and s.value.func.attr == "append" and isinstance(s.value.func.value, ast.Name):
        return s.value.func.value.id
    return None

def is_warn(s):
    return isinstance(s, ast.Expr) and isinstance(s.value, ast.Call) and isinstance(s.value.func, ast.Attribute) \
        and s.value.func.attr == "warn" and isinstance(s.value.func.value, ast.Name) and s.value.func.value.id == "warnings"

def assigned(stmts):
    """names assigned in the statements (nested blocks included), in source order"""
    out = []
    def visit(s):
        if isinstance(s, (ast.Assign, ast.AugAssign)):
            for t in (s.targets if isinstance(s, ast.Assign) else [s.target]):
                if isinstance(t, ast.Name) and t.id not in out:
                    out.append(t.id)
        x = append_target(s)
        if x is not None and x not in out:
            out.append(x)
        for f in ("body", "orelse"):
            for c in getattr(s, f, []) or []:
                visit(c)
    for s in stmts:
        visit(s)
    return out

def loop_header(st, sc, binds, iterated=None):
    """returns (iterable text, [(target name, type)], unpack?)"""
    if st.orelse:
        reject(st, "for ... else not accepted")
    it = st.iter
    if iterated is not None:
        iterated.extend(n.id for n in ast.walk(it) if isinstance(n, ast.Name))
    def names(k):
        tg = st.target
        if k == 1:
            if not isinstance(tg, ast.Name):
                reject(tg, "loop target must be a name")
            return [tg.id]
        if not (isinstance(tg, ast.Tuple) and len(tg.elts) == 2 and all(isinstance(x, ast.Name) for x in tg.elts)):
            reject(tg, "loop target must be a pair of names")
        if tg.elts[0].id == tg.elts[1].id:
            reject(tg, "repeated loop target")
        return [x.id for x in tg.elts]
    if isinstance(it, ast.Call) and isinstance(it.func, ast.Name) and it.func.id == "enumerate":
        shadowed(it.func, sc)
        plain_call(it, 1)
        t, ty = expr(it.args[0], sc, binds)
        if ty not in ELEM:
            reject(it, f"enumerate() of {ty} not accepted (the iteration order of sets, terms and sums is not modelled)")
        a, b = names(2)
        return f"(py_enumerate {t})", [(a, "int"), (b, ELEM[ty])], True
    if isinstance(it, ast.Call) and isinstance(it.func, ast.Name) and it.func.id == "range":
        shadowed(it.func, sc)
        plain_call(it, 1)
        t, ty = expr(it.args[0], sc, binds)
        if ty != "int":
            reject(it, f"range() of {ty} not accepted")
        return f"(py_range {t})", [(names(1)[0], "int")], False
    if isinstance(it, ast.Call) and isinstance(it.func, ast.Name) and it.func.id == "zip":
        shadowed(it.func, sc)
        plain_call(it, 2)
        t1, ty1 = expr(it.args[0], sc, binds)
        t2, ty2 = expr(it.args[1], sc, binds)
        if ty1 not in ELEM or ty2 not in ELEM:
            reject(it, f"zip() of {ty1}, {ty2} not accepted")
        a, b = names(2)
        return f"(py_zip {t1} {t2})", [(a, ELEM[ty1]), (b, ELEM[ty2])], True
    t, ty = expr(it, sc, binds)
    if ty not in ELEM:
        reject(it, f"iteration over {ty} not accepted (the iteration order of sets, terms and sums is not modelled)")
    return t, [(names(1)[0], ELEM[ty])], False

def loop_body_def(st, fn, loop, outer_plain, targets):
    """translate the body of the For `st` over the state record of `loop`; the definition is queued in
       loop["pending"] (inner bodies first); returns (name, [names the body reads from outside])"""
    fn.nloops += 1
    name = f"{fn.name}_L{fn.nloops}_body"
    plain = dict(outer_plain)
    for x, ty in targets:
        if x in plain or x in loop["carried"]:
            reject(st, f"loop target {x} rebinds an existing local")
        plain[x] = ty
    sc = Scope(fn, plain, loop, own=[x for x, _ in targets])
    text = loop_block(st.body, sc)
    loop["pending"].append((name, [(p, plain[p]) for p in sc.used], targets, text))
    return name, list(sc.used)

def loop_block(stmts, sc):
    """a block inside a loop: a term of type result <state> with st in scope"""
    if not stmts:
        reject(None, "empty block")
    parts = [loop_stmt(s, sc) for s in stmts]
    text = parts[-1]
    for p in reversed(parts[:-1]):
        text = f"bind ({p}) (fun st =>\n    {text})"
    return text

def no_alias(value, ty, node):
    if isinstance(value, ast.Name) and ty in MUTABLE:
        reject(node, "a list local may not be copied to another name (lists are values in the model)")

def loop_assign(target, value_text, ty, sc, node):
    loop = sc.loop
    x = target.id
    if x in sc.plain:
        reject(node, f"assignment to {x}, which is a loop target or a local not carried by the loop")
    old = loop["carried"][x]
    base = old[1] if isinstance(old, tuple) else old
    if ty == "list?" or base == "list?":
        reject(node, "a list local must be created at function level, before the loops that append to it")
    if old is None:
        loop["carried"][x] = ("opt", ty)        # first bound inside the loop
        old = loop["carried"][x]
    elif base != ty:
        reject(node, f"{x} assigned values of different types ({base}, {ty})")
    v = f"(Some {value_text})" if isinstance(old, tuple) else value_text
    return f"Ok ({loop['prefix']}_set_{x} N st {v})"

def loop_stmt(s, sc):
    fn, loop = sc.fn, sc.loop
    if isinstance(s, ast.Assign):
        if len(s.targets) != 1 or not isinstance(s.targets[0], ast.Name):
            reject(s, "assignment target must be one name")
        binds = []
        t, ty = expr(s.value, sc, binds)
        no_alias(s.value, ty, s)
        return f"(* {src(s)} *)\n    " + with_binds(binds, loop_assign(s.targets[0], t, ty, sc, s))
    if isinstance(s, ast.AugAssign):
        if not isinstance(s.target, ast.Name) or not isinstance(s.op, ast.Add):
            reject(s, "only `name += expr` accepted")
        binds = []
        rd = ast.Name(id=s.target.id, ctx=ast.Load())
        ast.copy_location(rd, s.target)
        e = ast.BinOp(left=rd, op=ast.Add(), right=s.value)
        ast.copy_location(e, s)
        t, ty = expr(e, sc, binds)
        return f"(* {src(s)} *)\n    " + with_binds(binds, loop_assign(s.target, t, ty, sc, s))
    if isinstance(s, ast.If):
        binds = []
        c = cond(s.test, sc, binds)
        a = loop_block(s.body, sc)
        b = loop_block(s.orelse, sc) if s.orelse else "Ok st"
        return f"(* if {src(s.test)} *)\n    " + with_binds(binds, f"if {c} then ({a})\n    else ({b})")
    if isinstance(s, ast.For):
        binds = []
        it, targets, unpack = loop_header(s, sc, binds, loop["iterated"])
        name, params = loop_body_def(s, fn, loop, sc.plain, targets)
        for p in params:                      # what the inner body reads from outside, the outer body reads too
            sc.note_used(p)
        call = " ".join([name, "N"] + [f"v_{p}" for p in params])
        body = f"(py_unpack2 ({call}))" if unpack else f"({call})"
        return f"(* for {src(s.target)} in {src(s.iter)} *)\n    " + with_binds(binds, f"py_for {it} st {body}")
    x = append_target(s)
    if x is not None:
        plain_call(s.value, 1)
        if x in sc.plain or x not in loop["carried"]:
            reject(s, f"append to {x}, which is not a list local carried by the loop")
        if x in loop["iterated"]:
            reject(s, f"append to {x}, which an enclosing loop iterates over")
        binds = []
        cur = loop["carried"][x]
        if cur is None or isinstance(cur, tuple):
            reject(s, f"append to {x}, which is not bound to a list before the loop")
        v, tv = expr(s.value.args[0], sc, binds)
        if tv not in ("num", "circ"):
            reject(s, f"append of a value of type {tv} not accepted")
        lt = LISTOF[tv]
        if cur == "list?":
            if fn.listtypes.get(x, lt) != lt:
                reject(s, f"{x} holds values of different types")
            fn.listtypes[x] = lt
            loop["carried"][x] = cur = lt
        if cur != lt:
            reject(s, f"append of {tv} to {x} of type {cur}")
        proj = f"({loop['prefix']}_{x} N st)"
        return f"(* {src(s)} *)\n    " + with_binds(binds, f"Ok ({loop['prefix']}_set_{x} N st (py_append {proj} {v}))")
    if is_warn(s):
        shadowed(s.value.func.value, sc)
        plain_call(s.value, 1)
        a = s.value.args[0]
        ok = isinstance(a, ast.Constant) and isinstance(a.value, str)
        if isinstance(a, ast.Call) and isinstance(a.func, ast.Attribute) and a.func.attr == "format" \
                and isinstance(a.func.value, ast.Constant) and isinstance(a.func.value.value, str) and not a.keywords:
            ok = all(isinstance(v, ast.Name) and v.id in sc.plain and not isinstance(sc.plain[v.id], tuple) for v in a.args)
        if not ok:
            reject(s, "warning message must be a string literal or <literal>.format(bound names)")
        return "(* warnings.warn(...): no effect in the model *)\n    Ok st"
    reject(s, "statement not accepted inside a loop")

def top_loop(st, fn, env, lines):
    """a for loop at function level: emits the state record, its setters and the body definitions into fn.defs,
       appends the opening lines of `bind (py_for ...) (fun st =>` and the lets re-binding the carried locals;
       returns the number of parentheses left open"""
    prefix = f"{fn.name}_S{fn.nloops + 1}"
    carried = {x: env.get(x) for x in assigned(st.body)}          # None: not bound before the loop
    loop = dict(prefix=prefix, carried=carried, pending=[], iterated=[])
    binds = []
    it, targets, unpack = loop_header(st, Scope(fn, env), binds, loop["iterated"])
    outer_plain = {x: ty for x, ty in env.items() if x not in carried}
    name, params = loop_body_def(st, fn, loop, outer_plain, targets)
    fields = list(carried.items())
    for x, ty in fields:
        if ty is None or (x not in env and not isinstance(ty, tuple)):
            reject(st, f"internal: carried local {x} was not typed")
    rec = f"Record {prefix}_state (N : @@NTYPE@@) : Type := {prefix}_mk {{\n" + \
        ";\n".join(f"  {prefix}_{x} : {coqty(ty)}" for x, ty in fields) + "\n}.\n"
    for x, ty in fields:
        rec += f"Definition {prefix}_set_{x} (N : @@NTYPE@@) (st : {prefix}_state N) (v : {coqty(ty)}) : {prefix}_state N :=\n" + \
            f"  {prefix}_mk N " + " ".join("v" if y == x else f"({prefix}_{y} N st)" for y, _ in fields) + ".\n"
    fn.defs.append(rec)
    for bname, bparams, btargets, btext in loop["pending"]:
        sig = " ".join(f"(v_{x} : {coqty(ty)})" for x, ty in bparams + btargets)
        fn.defs.append(f"Definition {bname} (N : @@NTYPE@@) {sig} (st : {prefix}_state N) : result ({prefix}_state N) :=\n    {btext}.\n")
    init = f"({prefix}_mk N " + " ".join((f"v_{x}" if x in env else "None") for x, _ in fields) + ")"
    call = " ".join([name, "N"] + [f"v_{p}" for p in params])
    body = f"(py_unpack2 ({call}))" if unpack else f"({call})"
    lines.append(f"(* for {src(st.target)} in {src(st.iter)} *)")
    n = open_binds(binds + [("st", f"py_for {it} {init} {body}")], lines)
    for x, ty in fields:
        env[x] = ty
        lines.append(f"let v_{x} : {coqty(ty)} := {prefix}_{x} N st in")
    return n                                  # loop targets are not visible after the loop: never added to env

def open_binds(binds, lines):
    for x, t in binds:
        lines.append(f"bind ({t}) (fun {x} =>")
    return len(binds)

# ----------------------------------------------------------------------------- functions
def exit_stmt(s, sc, binds):
    """return e / return e1, e2 / raise ValueError(...)"""
    fn = sc.fn
    if isinstance(s, ast.Return):
        if s.value is None:
            reject(s, "return without a value")
        if isinstance(s.value, ast.Tuple):
            if len(s.value.elts) != 2:
                reject(s, "only a pair can be returned")
            t1, ty1 = expr(s.value.elts[0], sc, binds)
            t2, ty2 = expr(s.value.elts[1], sc, binds)
            t, ty = f"({t1}, {t2})", ("pair", ty1, ty2)
        else:
            t, ty = expr(s.value, sc, binds)
        if fn.rtype is None:
            fn.rtype = ty
        if ty != fn.rtype or not (ty == "circ" or ty == ("pair", "circlist", "numlist")):
            reject(s, f"returned value of type {ty} (expected {fn.rtype}; a circuit or a pair (circuits, numbers))")
        return f"Ok {t}"
    if isinstance(s, ast.Raise):
        e = s.exc
        if s.cause is not None or not (isinstance(e, ast.Call) and isinstance(e.func, ast.Name) and e.func.id == "ValueError"):
            reject(s, "only `raise ValueError(...)` accepted")
        shadowed(e.func, sc)
        plain_call(e, 1)
        a = e.args[0]
        ok = isinstance(a, ast.Constant) and isinstance(a.value, str)
        if isinstance(a, ast.JoinedStr):
            ok = all((isinstance(v, ast.Constant) and isinstance(v.value, str)) or
                     (isinstance(v, ast.FormattedValue) and isinstance(v.value, ast.Name) and v.value.id in sc.plain
                      and not isinstance(sc.plain[v.value.id], tuple) and v.format_spec is None)
                     for v in a.values)
        if not ok:
            reject(s, "exception message must be a string literal or an f-string over bound names")
        return "Raise ValueError"
    reject(s, "return or raise expected")

def aug_as_binop(s):
    if not isinstance(s.target, ast.Name) or not isinstance(s.op, ast.Add):
        reject(s, "only `name += expr` accepted")
    rd = ast.Name(id=s.target.id, ctx=ast.Load())
    ast.copy_location(rd, s.target)
    e = ast.BinOp(left=rd, op=ast.Add(), right=s.value)
    ast.copy_location(e, s)
    return e

def top_block(stmts, fn, env, ind):
    """a block at function level that ends the function: text of type result <returned type>"""
    if not stmts:
        reject(None, "empty block")
    lines, closers = [], 0
    for k, s in enumerate(stmts):
        sc = Scope(fn, env)
        last = k == len(stmts) - 1
        if last and isinstance(s, (ast.Return, ast.Raise)):
            binds = []
            r = exit_stmt(s, sc, binds)
            lines.append(f"(* {src(s)} *)")
            closers += open_binds(binds, lines)
            lines.append(r)
        elif last and isinstance(s, ast.If) and s.orelse:
            binds = []
            c = cond(s.test, sc, binds)
            lines.append(f"(* if {src(s.test)} ... else ... *)")
            closers += open_binds(binds, lines)
            a = top_block(s.body, fn, dict(env), ind + "  ")
            b = top_block(s.orelse, fn, dict(env), ind + "  ")
            lines.append(f"if {c} then (\n{a}\n{ind}) else (\n{b}\n{ind})")
        elif last:
            reject(s, "the block must end in `return ...` (or an if/else whose branches do)")
        elif isinstance(s, (ast.Assign, ast.AugAssign)):
            if isinstance(s, ast.Assign):
                if len(s.targets) != 1 or not isinstance(s.targets[0], ast.Name):
                    reject(s, "assignment target must be one name")
                x, e = s.targets[0].id, s.value
            else:
                e = aug_as_binop(s)
                x = s.target.id
            binds = []
            t, ty = expr(e, sc, binds)
            no_alias(e, ty, s)
            if x in env and (env[x][1] if isinstance(env[x], tuple) else env[x]) != ty:
                reject(s, f"{x} assigned values of different types")
            lines.append(f"(* {src(s)} *)")
            closers += open_binds(binds, lines)
            if ty == "list?":
                if x in fn.listnames:
                    reject(s, f"{x} is created by [] more than once")
                fn.listnames.append(x)
                lines.append(f"let v_{x} : @@LT_{x}@@ := {t} in")
            else:
                lines.append(f"let v_{x} : {coqty(ty)} := {t} in")
            env[x] = ty
        elif isinstance(s, ast.If):
            if s.orelse or len(s.body) != 1:
                reject(s, "here only `if c: return e` and `if c: raise ValueError(...)` are accepted")
            binds = []
            c = cond(s.test, sc, binds)
            lines.append(f"(* if {src(s.test)}: {src(s.body[0])} *)")
            closers += open_binds(binds, lines)
            xb = []
            r = exit_stmt(s.body[0], sc, xb)
            lines.append(f"if {c} then ({with_binds(xb, r)}) else")
        elif isinstance(s, ast.For):
            closers += top_loop(s, fn, env, lines)
        else:
            reject(s, "statement not accepted at function level")
    return "\n".join(ind + l for l in lines) + ")" * closers

def function(fdef, sigs):
    if fdef.decorator_list:
        reject(fdef, "decorated function (a decorator may change what the call returns)")
    a = fdef.args
    if a.vararg or a.kwarg or a.kwonlyargs or a.posonlyargs or a.kw_defaults:
        reject(fdef, "only plain positional parameters accepted")
    for d in a.defaults:
        if not (isinstance(d, ast.Constant) and isinstance(d.value, (int, str)) and not isinstance(d.value, bool)):
            reject(d, "default value must be an int or str constant")
    env, params = {}, []
    for p in a.args:
        if p.annotation is None or ast.unparse(p.annotation) not in ANNOT:
            reject(p, "parameter annotation not accepted")
        if p.arg in env:
            reject(p, "repeated parameter")
        env[p.arg] = ANNOT[ast.unparse(p.annotation)]
        params.append((p.arg, env[p.arg]))
    fn = Fn(fdef.name, sigs)
    fn.listnames = []
    if fdef.returns is not None:
        if ast.unparse(fdef.returns) not in RANNOT:
            reject(fdef.returns, "return annotation not accepted")
        fn.rtype = RANNOT[ast.unparse(fdef.returns)]
    body = strip_docstring(fdef.body)
    if not body:
        reject(fdef, "empty body")
    text = top_block(body, fn, env, "  ")
    if fn.rtype is None:
        reject(fdef, "the function does not return a value")
    gname = name_of(fdef.name)
    sig = " ".join(f"(v_{p} : {coqty(ty)})" for p, ty in params)
    defaults, dmap = "", {}
    if a.defaults:
        ds = list(zip([p for p, _ in params][-len(a.defaults):], a.defaults))
        dmap = dict(ds)
        defaults = "(* defaults in the source: " + ", ".join(f"{p} = {src(d)}" for p, d in ds) + " *)\n"
    out = "".join(d + "\n" for d in fn.defs)
    out += defaults + f"Definition {gname}_gen (N : @@NTYPE@@) {sig} : result ({coqty(fn.rtype)}) :=\n{text}.\n"
    for x in fn.listnames:
        if x not in fn.listtypes:
            reject(fdef, f"the element type of the list local {x} is never determined")
        out = out.replace(f"@@LT_{x}@@", coqty(fn.listtypes[x]))
    out = out.replace("@@NTYPE@@", "pynum_pi" if fn.uses_pi else "pynum")
    out = out.replace(f"{fdef.name}_S", f"{gname}_S").replace(f"{fdef.name}_L", f"{gname}_L") if gname != fdef.name else out
    sigs[fdef.name] = dict(params=params, defaults=dmap, rtype=fn.rtype, uses_pi=fn.uses_pi)
    return out

HEADER = """(* GENERATED by tr/tr_evolution.py from src/orquestra/quantum/evolution.py - do not edit.
   Every definition below is the statement-by-statement translation of the Python function of the same name;
   the meaning of the building blocks is fixed in Pauli/EvolutionTrSupport.v; agreement with the model of
   Pauli/Evolution.v is proved in Pauli/EvolutionGenProofs.v. *)
Require Import Coq.ZArith.ZArith Coq.Lists.List Coq.Strings.String Coq.QArith.QArith.
Require Import OQ.Pauli.Algebra OQ.Pauli.EvolutionTrSupport.
Import ListNotations.

"""

def run(repo, out):
    p = os.path.join(repo, "src/orquestra/quantum/evolution.py")
    tree = ast.parse(open(p).read())
    check_module(tree)
    sigs = {}
    text = HEADER
    for f in FUNCS:
        text += f"(* ------------------------------------------------------------------ {f} *)\n"
        text += function(find_function(tree, f), sigs) + "\n"
    write_if_changed(os.path.join(out, "EvolutionGen.v"), text)
    print("tr_evolution: ok")

if __name__ == "__main__":
    main_wrapper(run)
