#!/usr/bin/env python3
"""Translate the bookkeeping methods of the circuit-runner classes to state-passing Gallina, statement by statement
(fail-closed: anything outside the grammar below is rejected with exit code 3).

  api/circuit_runner.py          class BaseCircuitRunner
  api/wavefunction_simulator.py  class BaseWavefunctionSimulator
  runners/trackers.py            class MeasurementTrackingBackend           -> Gen/RunnerGen.v

A method body becomes a term of type  M (runner_attrs I X) T  =  runner_attrs I X -> runner_attrs I X * result T : the
state of `self` goes in, the state after the call and the returned value or the raised exception come out (what was done
to self before an exception stays done).  `runner_attrs I X` is a record GENERATED from the assignments `self.x = ...` in
the __init__ methods of the translated classes (one field `option T` per attribute, None = not assigned yet; I is the state
type of the foreign runner object a tracker holds in self.inner_backend) plus one field `a_ext : X` that the translated
code never touches (the world of the subclass hooks: an execution log, the content of the tracker's file).  The meaning of
every emitted building block is fixed in coq/State/RunnerTrSupport.v; coq/State/RunnerGenProofs.v proves, on every run,
that the generated methods agree with the model State/Runner.v that the C14 theorems are about.

Dynamic dispatch.  `self.m(...)` inside a method of class D becomes a call of an explicit argument `self_m` of the
generated definition `D_m_gen` (open recursion).  For every translated class K the translator then GENERATES the
resolution table: `K_R_m H` is the method `m` as an instance of K runs it - the definition of the nearest class in
K's chain of translated bases that defines m, applied to the `K_R_*` of the methods it calls through self.  H is a
record `K_hooks I X` with one field per
  - abstract method (decorated @abstractmethod, docstring-only body) that K's chain does not implement,
  - method left hand-modelled (HANDMODELLED in CLASSES below, with the reason),
  - method of the foreign object held by an attribute (`self.inner_backend.m(...)`; signature from the annotated methods
    of the CircuitRunner protocol class; it runs on that object's state, see py_call_attr),
  - external effectful operation (`operation.apply(state)`; truncating a file by open(.., "w+"), appending by f.write),
  - method the model lets a subclass override (OVERRIDABLE below): a transformer, given the inherited method.
Recursion through self is rejected.  An override in a translated subclass must have the signature of the method it
overrides.  `super().__init__()` is the parent class's translated __init__, or py_object_init when the remaining
bases are ABC / Protocol classes (whose methods must have docstring-only bodies).

Accepted grammar
  module      imports, docstring, class definitions; every name the grammar gives a meaning to (see REQUIRED_IMPORTS)
              bound exactly once, by the expected import; the builtins of BUILTINS not rebound; the translated classes
              defined once, undecorated, with exactly the expected bases.
  class body  docstring and method definitions only; every method name must be listed (translated, hand-modelled or
              ignored in CLASSES below); decorators: none, @property (read as a method without arguments),
              @abstractmethod (body must be a docstring).
  parameters  self, then annotated positional parameters (keyword-only ones in __init__ only); defaults None/False/int.
  types       from annotations (ANNOT): Circuit, int, bool, str, Optional[int], Optional[bool], Sequence[Circuit],
              Sequence[int], Union[int, Sequence[int]] (a sum: Z + list Z), Measurements, List[Measurements],
              MeasurementOutcomeDistribution, StateVector, Optional[StateVector], Wavefunction, Operation, CircuitRunner
              (a foreign object: I), List[Dict] (a list of JSON-like values), None.
  statements  x = e;  x: T (declaration, no effect);  x[i] = e on a state-vector local;  self.a = e;  self.a += e;
              a call as a statement;  return e;  raise ValueError(<string / f-string over pure expressions>);
              if/elif/else (a branch may end in return/raise; branches that fall through are joined on the locals
              they assign, which must then be bound with one type on both sides; no return inside a joined branch);
              for x in e / for a, b in e (the locals the body assigns form a generated record; they must be bound before
              the loop; no return inside a loop; the loop targets are not visible afterwards);
              with open(name, "w"/"w+") as f: body (truncate; f.write(text) in the body appends; f unusable afterwards;
              no return inside).  A method annotated `-> None` may fall off its end.
  tests       bool expressions; truth of circuit.free_symbols; `x is None` / `x is not None` on an Optional local and
              `isinstance(x, int)` on a Union local (a match: the local has the narrowed type in each branch); not;
              and/or (right operand pure); the same tests in `a if t else b` (branches pure).
  expressions int and plain string literals, None (for an Optional parameter), locals, self.a, [], [e], int + - * int,
              int * list, int ** int, comparisons of ints, len(list), zip(list, list), any(<pure test> for x in list),
              [e for x in list] / [e for a, b in list] (e may call methods: evaluated left to right),
              {"k": e, ...} (string keys; values str / int / Optional[int] / JSON-like / list of JSON-like),
              self.m(args) (missing arguments filled from the callee's defaults), super().__init__(),
              self.a.m(args) on a foreign object, self.a.append(e) on a list attribute (e must not call methods),
              self.m without a call (only a PURE method, as the predicate of split_circuit),
              the attributes and external functions of ATTRS / EXT_FUNCS / EXT_METHODS / EXT_HOOKS below.
Evaluation order is Python's: sub-expressions that have effects (attribute reads, calls, raising operations) are bound
left to right before the pure remainder of the statement.
"""
OUTPUTS = ['RunnerGen.v']      # generated files (the driver uses this to decide which properties depend on this translator)
import ast, os, re
from trlib import *

# ----------------------------------------------------------------------------- configuration
FILES = {"circuit_runner": "src/orquestra/quantum/api/circuit_runner.py",
         "wavefunction_simulator": "src/orquestra/quantum/api/wavefunction_simulator.py",
         "trackers": "src/orquestra/quantum/runners/trackers.py"}

# name -> (module, level) of the `from <dots><module> import name` that must bind it (None: `import numpy as np`)
REQUIRED_IMPORTS = {
    "circuit_runner": {"ABC": ("abc", 0), "abstractmethod": ("abc", 0), "List": ("typing", 0), "Optional": ("typing", 0),
                       "Protocol": ("typing", 0), "Sequence": ("typing", 0), "Union": ("typing", 0),
                       "Circuit": ("circuits", 2), "MeasurementOutcomeDistribution": ("distributions", 2),
                       "Measurements": ("measurements", 2)},
    "wavefunction_simulator": {"abstractmethod": ("abc", 0), "Optional": ("typing", 0), "Protocol": ("typing", 0),
                               "np": None, "Circuit": ("circuits", 2), "GateOperation": ("circuits", 2),
                               "Operation": ("circuits", 2), "split_circuit": ("circuits", 2),
                               "MeasurementOutcomeDistribution": ("distributions", 2),
                               "create_bitstring_distribution_from_probability_distribution": ("distributions", 2),
                               "Measurements": ("measurements", 2), "StateVector": ("typing", 2),
                               "Wavefunction": ("wavefunction", 2), "sample_from_wavefunction": ("wavefunction", 2),
                               "BaseCircuitRunner": ("circuit_runner", 1), "CircuitRunner": ("circuit_runner", 1)},
    "trackers": {"json": "json", "Dict": ("typing", 0), "List": ("typing", 0), "Optional": ("typing", 0),
                 "Sequence": ("typing", 0), "Union": ("typing", 0), "BaseCircuitRunner": ("api.circuit_runner", 2),
                 "CircuitRunner": ("api.circuit_runner", 2), "Circuit": ("circuits", 2), "to_dict": ("circuits", 2),
                 "MeasurementOutcomeDistribution": ("distributions", 2), "Measurements": ("measurements", 2)},
}
BUILTINS = ["isinstance", "len", "any", "zip", "int", "super", "property", "ValueError", "open", "repr"]

CLASSES = [
    dict(name="BaseCircuitRunner", file="circuit_runner", bases=["ABC", "CircuitRunner"], parent=None,
         methods=["__init__", "run_and_measure", "run_batch_and_measure", "_run_and_measure", "_run_batch_and_measure",
                  "n_jobs_executed", "n_circuits_executed", "get_measurement_outcome_distribution"],
         ignored=[], overridable=[], handmodelled=[]),
    dict(name="BaseWavefunctionSimulator", file="wavefunction_simulator", bases=["BaseCircuitRunner", "WavefunctionSimulator"],
         parent="BaseCircuitRunner",
         methods=["__init__", "run_and_measure", "_run_and_measure", "get_wavefunction",
                  "_get_wavefunction_from_native_circuit", "is_natively_supported", "get_measurement_outcome_distribution"],
         # left hand-modelled: the outcome depends on the content of operator and wavefunction, outside the shape abstraction
         ignored=["get_exact_expectation_values"],
         # what the model lets a simulator subclass override: the native-support predicate, and get_wavefunction
         # (the instrumented subclass of the correspondence harness logs the call and delegates to super())
         overridable=["is_natively_supported", "get_wavefunction"], handmodelled=[]),
    dict(name="MeasurementTrackingBackend", file="trackers", bases=["BaseCircuitRunner"], parent="BaseCircuitRunner",
         methods=["_run_and_measure", "run_batch_and_measure", "get_measurement_outcome_distribution", "save_raw_data"],
         # __init__ reads the class name of a foreign object (inner_backend.__class__.__name__): not in the grammar; it is
         # only scanned for the types of the attributes it assigns
         ignored=["__init__"],
         overridable=[],
         # record_raw_measurement_data iterates over the content of measurement.bitstrings, which the shape abstraction
         # does not have: it stays hand-modelled and is a field of the hooks record (signature from its annotations)
         handmodelled=["record_raw_measurement_data"]),
]
PROTOCOLS = {"circuit_runner": ["CircuitRunner"], "wavefunction_simulator": ["WavefunctionSimulator"], "trackers": []}
# the class whose annotated methods give the signatures of calls on a foreign runner object (self.inner_backend.m(...))
FOREIGN_PROTOCOL = ("circuit_runner", "CircuitRunner")

# the sub-circuits handed to the native hook are those yielded by split_circuit (read as their operation lists)
PARAM_TYPE_OVERRIDE = {("BaseWavefunctionSimulator", "_get_wavefunction_from_native_circuit", "circuit"): "subcirc"}

ANNOT = {"Circuit": "circuit", "int": "int", "bool": "bool", "Optional[int]": ("opt", "int"),
         "Sequence[Circuit]": ("list", "circuit"), "Sequence[int]": ("list", "int"),
         "Union[int, Sequence[int]]": ("sum", "int", ("list", "int")), "Measurements": "meas",
         "List[Measurements]": ("list", "meas"), "MeasurementOutcomeDistribution": "dist", "StateVector": "svec",
         "Optional[StateVector]": ("opt", "svec"), "Wavefunction": "wfn", "Operation": "op", "None": "none",
         "CircuitRunner": "runnerobj", "str": "str", "Optional[bool]": ("opt", "bool"), "List[Dict]": ("list", "jval")}
COQTY = {"int": "Z", "bool": "bool", "circuit": "circuit", "meas": "res", "bits": "res", "dist": "pydist", "wfn": "wfn",
         "svec": "svec", "op": "op", "subcirc": "subcirc", "symset": "symset", "probs": "probs", "none": "unit",
         "runnerobj": "I", "str": "string", "jval": "jval", "jtext": "jtext", "wfile": "string"}

# attributes of the abstracted objects: (type, attribute) -> (Coq function, result type)
ATTRS = {("circuit", "free_symbols"): ("circ_free_symbols", "symset"), ("circuit", "n_qubits"): ("circ_n_qubits", "int"),
         ("subcirc", "operations"): ("subcirc_operations", ("list", "op")),
         ("circuit", "operations"): ("circ_operations", ("list", "op"))}
# external functions (hand-modelled in RunnerTrSupport.v): name -> (argument types, result type, Coq function, can raise)
FUN_OP_BOOL = ("fun", ("op",), "bool")
EXT_FUNCS = {"split_circuit": (["circuit", FUN_OP_BOOL], ("list", ("prod", "bool", "subcirc")), "py_split_circuit", False),
             "Measurements": (["bits"], "meas", "py_Measurements", False),
             "sample_from_wavefunction": (["wfn", "int", ("opt", "int")], "bits", "py_sample_from_wavefunction", True),
             "Wavefunction": (["svec"], "wfn", "py_Wavefunction", True),
             "create_bitstring_distribution_from_probability_distribution": (["probs"], "dist", "py_distribution_from_probabilities", False),
             "np.zeros": (["int"], "svec", "np_zeros", False),
             "to_dict": (["circuit"], "jval", "py_to_dict", True),
             "repr": (["dist"], "jval", "py_repr_dist", False),
             "json.dumps": (["jval"], "jtext", "py_json_dumps", False)}
# methods of the abstracted objects: (type, method) -> (argument types, result type, Coq function)   (pure)
EXT_METHODS = {("meas", "get_distribution"): ([], "dist", "meas_get_distribution"),
               ("wfn", "get_probabilities"): ([], "probs", "wfn_get_probabilities")}
# effectful methods of foreign objects: they become fields of the hooks record: (type, method) -> (name, argument types, result)
EXT_HOOKS = {("op", "apply"): ("op_apply", ["svec"], "svec")}
ISINSTANCE = {("op", "GateOperation"): "op_is_GateOperation"}

FORBIDDEN_TEXT = re.compile(r"Admitted|admit|Axiom|Parameter|Conjecture|bypass_check|Unset|\(\*|\*\)|type-in-type|impredicative")
STATE = "(runner_attrs I X)"
TYVARS = "{I X : Type}"
# how a value of a type is written into a dict display (the JSON-like values of RunnerTrSupport.v)
JINJ = {"str": "JStr", "int": "JInt", ("opt", "int"): "JOptInt", "jval": "", ("list", "jval"): "JList"}

def coqty(t):
    if isinstance(t, str):
        return COQTY[t]
    if t[0] == "list":
        return f"(list {coqty(t[1])})"
    if t[0] == "opt":
        return f"(option {coqty(t[1])})"
    if t[0] == "sum":
        return f"({coqty(t[1])} + {coqty(t[2])})"
    if t[0] == "prod":
        return f"({coqty(t[1])} * {coqty(t[2])})"
    if t[0] == "fun":
        return "(" + " -> ".join([coqty(a) for a in t[1]] + [coqty(t[2])]) + ")"
    raise Reject(f"internal: type {t}")

def src(node):
    if isinstance(node, ast.Raise):
        return "raise " + (node.exc.func.id if isinstance(node.exc, ast.Call) and isinstance(node.exc.func, ast.Name) else "") + "(...)"
    t = " ".join(ast.unparse(node).split("\n")[0].split()).replace('"', "'")
    return "(source elided)" if FORBIDDEN_TEXT.search(t) else t

def ann_type(a, where):
    if a is None:
        reject(where, "missing annotation (types come from the annotations)")
    t = ast.unparse(a)
    if t not in ANNOT:
        reject(a, "annotation not accepted")
    return ANNOT[t]

# ----------------------------------------------------------------------------- module-level checks
def bound_names(tree):
    out = []
    for n in tree.body:
        if isinstance(n, (ast.FunctionDef, ast.AsyncFunctionDef, ast.ClassDef)):
            out.append((n.name, n))
        elif isinstance(n, ast.Import):
            for a in n.names:
                out.append(((a.asname or a.name).split(".")[0], n))
        elif isinstance(n, ast.ImportFrom):
            for a in n.names:
                if a.name == "*":
                    reject(n, "star import (may rebind anything)")
                out.append((a.asname or a.name, n))
        elif isinstance(n, ast.Expr) and isinstance(n.value, ast.Constant) and isinstance(n.value.value, str):
            pass
        else:
            reject(n, "module-level statement not accepted")
    return out

def check_module(tree, key):
    names = bound_names(tree)
    def binders(x):
        return [n for (y, n) in names if y == x]
    for b in BUILTINS:
        if binders(b):
            reject(binders(b)[0], f"builtin {b} is rebound at module level")
    for x, how in REQUIRED_IMPORTS[key].items():
        bs = binders(x)
        if isinstance(how, str):
            ok = len(bs) == 1 and isinstance(bs[0], ast.Import) and any(a.name == how and a.asname is None for a in bs[0].names)
            if not ok:
                reject(bs[0] if bs else tree, f"{x} must be bound exactly once, by `import {how}`")
            continue
        if how is None:
            ok = len(bs) == 1 and isinstance(bs[0], ast.Import) and any(a.name == "numpy" and a.asname == "np" for a in bs[0].names)
            if not ok:
                reject(bs[0] if bs else tree, "np must be bound exactly once, by `import numpy as np`")
            continue
        mod, level = how
        ok = len(bs) == 1 and isinstance(bs[0], ast.ImportFrom) and bs[0].module == mod and bs[0].level == level \
            and any(a.name == x and a.asname is None for a in bs[0].names)
        if not ok:
            reject(bs[0] if bs else tree, f"{x} must be bound exactly once, by `from {'.' * level}{mod} import {x}`")
    for p in PROTOCOLS[key]:
        bs = binders(p)
        if len(bs) != 1 or not isinstance(bs[0], ast.ClassDef):
            reject(bs[0] if bs else tree, f"protocol class {p} must be defined exactly once")
        for n in bs[0].body:
            if isinstance(n, ast.Expr) and isinstance(n.value, ast.Constant) and isinstance(n.value.value, str):
                continue
            if not (isinstance(n, ast.FunctionDef) and not strip_docstring(n.body)):
                reject(n, f"protocol class {p} must contain docstring-only methods only (it is a base of a translated class)")
    return binders

def find_class(tree, binders, cfg):
    bs = binders(cfg["name"])
    if len(bs) != 1 or not isinstance(bs[0], ast.ClassDef):
        reject(bs[0] if bs else tree, f"class {cfg['name']} must be defined exactly once at module level")
    c = bs[0]
    if c.decorator_list or c.keywords or [ast.unparse(b) for b in c.bases] != cfg["bases"]:
        reject(c, f"class {cfg['name']} must be undecorated with bases exactly {cfg['bases']}")
    methods = {}
    for n in c.body:
        if isinstance(n, ast.Expr) and isinstance(n.value, ast.Constant) and isinstance(n.value.value, str):
            continue
        if not isinstance(n, ast.FunctionDef):
            reject(n, "class body statement not accepted (only methods)")
        if n.name in methods:
            reject(n, "method defined twice")
        if n.name not in cfg["methods"] + cfg["ignored"] + cfg["handmodelled"]:
            reject(n, f"method {n.name} is not known to the translator (it could change what the translated methods do)")
        methods[n.name] = n
    for m in cfg["methods"] + cfg["ignored"] + cfg["handmodelled"]:
        if m not in methods:
            reject(c, f"method {m} not found in class {cfg['name']}")
    return methods

# ----------------------------------------------------------------------------- classes, signatures
class Sig:
    def __init__(self, params, ret, pure, defaults, abstract=False, prop=False, hand=False):
        self.params, self.ret, self.pure, self.defaults, self.abstract, self.prop = params, ret, pure, defaults, abstract or hand, prop
        self.hand = hand
    def shape(self):
        return ([t for _, t in self.params], self.ret, self.pure)
    def coq(self):
        r = coqty(self.ret) if self.pure else f"M {STATE} {coqty(self.ret)}"
        return " -> ".join([coqty(t) for _, t in self.params] + [r])

class World:
    """everything known about the translated classes"""
    def __init__(self):
        self.cls = {}            # name -> dict(cfg, methods: name -> FunctionDef)
        self.attrs = {}          # attribute name -> type, in order of first assignment
        self.done = {}           # (class, method) -> dict(sig, text, deps)
        self.busy = []
        self.foreign = {}        # method of the foreign-runner protocol -> Sig

    def chain(self, k):
        out = []
        while k is not None:
            out.append(k)
            k = self.cls[k]["cfg"]["parent"]
        return out

    def definer(self, k, m):
        for d in self.chain(k):
            if m in self.cls[d]["methods"] and m in self.cls[d]["cfg"]["methods"] + self.cls[d]["cfg"]["handmodelled"]:
                return d
        return None

    def method(self, d, m, node=None):
        """translation of method m defined in class d (on demand, memoised)"""
        if (d, m) in self.done:
            return self.done[(d, m)]
        if (d, m) in self.busy:
            reject(node, f"recursion through self ({d}.{m}) is not in the grammar")
        self.busy.append((d, m))
        r = translate_method(self, d, m)
        self.busy.pop()
        self.done[(d, m)] = r
        return r

def decorators(fdef):
    ds = []
    for d in fdef.decorator_list:
        if isinstance(d, ast.Name) and d.id in ("property", "abstractmethod"):
            ds.append(d.id)
        else:
            reject(fdef, "decorated method (a decorator may change what the call does); only @property and @abstractmethod are read")
    if len(ds) > 1:
        reject(fdef, "more than one decorator")
    return ds[0] if ds else None

def parameters(fdef, cname):
    a = fdef.args
    if a.vararg or a.kwarg or a.posonlyargs:
        reject(fdef, "only plain parameters accepted")
    if a.kwonlyargs and fdef.name != "__init__":
        reject(fdef, "keyword-only parameters are accepted in __init__ only")
    if not a.args or a.args[0].arg != "self" or a.args[0].annotation is not None:
        reject(fdef, "the first parameter must be self")
    ps, defaults = [], {}
    pos = a.args[1:]
    dvals = [None] * (len(pos) - len(a.defaults)) + list(a.defaults)
    for p, d in list(zip(pos, dvals)) + list(zip(a.kwonlyargs, a.kw_defaults)):
        t = PARAM_TYPE_OVERRIDE.get((cname, fdef.name, p.arg)) or ann_type(p.annotation, p)
        if p.arg in [x for x, _ in ps] or p.arg == "self":
            reject(p, "repeated parameter")
        ps.append((p.arg, t))
        if d is not None:
            if not (isinstance(d, ast.Constant) and (d.value is None or isinstance(d.value, (bool, int)))):
                reject(d, "default value must be None, False/True or an int")
            if d.value is None and not (isinstance(t, tuple) and t[0] == "opt"):
                reject(d, "default None for a parameter that is not Optional")
            defaults[p.arg] = d.value
    return ps, defaults

# ----------------------------------------------------------------------------- per-method context
class Fn:
    def __init__(self, world, cname, mname):
        self.world, self.cname, self.mname = world, cname, mname
        self.prefix = f"{cname}_{mname}"
        self.fresh = 0
        self.nloops = 0
        self.deps = []           # (kind, name, coq type text): explicit arguments of the generated definition
        self.defs = []           # records / loop bodies
        self.ret = None          # return type (from the annotation, or from the first return statement)
        self.effects = False

    def tmp(self):
        self.fresh += 1
        return f"x{self.fresh}"

    def dep(self, kind, name, ty):
        for k, n, t in self.deps:
            if (k, n) == (kind, name):
                return f"{k}_{n}"
        self.deps.append((kind, name, ty))
        return f"{kind}_{name}"

DEPS = "@@DEPS@@"

def callee_sig(fn, m, node):
    """signature of self.m as seen from the class being translated"""
    w = fn.world
    d = w.definer(fn.cname, m)
    if d is None:
        reject(node, f"self.{m}: no translated class in the chain of {fn.cname} defines it")
    return w.method(d, m, node)["sig"]

# ----------------------------------------------------------------------------- expressions
def plain_call(e, nargs=None):
    if e.keywords:
        reject(e, "keyword arguments not accepted")
    if any(isinstance(a, ast.Starred) for a in e.args):
        reject(e, "starred arguments not accepted")
    if nargs is not None and len(e.args) != nargs:
        reject(e, f"expected {nargs} argument(s)")

def is_self(e):
    return isinstance(e, ast.Name) and e.id == "self"

def local(name_node, env):
    x = name_node.id
    if x == "self":
        reject(name_node, "self used as a value")
    if x not in env:
        reject(name_node, "unknown name")
    return f"v_{x}", env[x]

def not_shadowed(name_node, env):
    if name_node.id in env:
        reject(name_node, f"{name_node.id} is shadowed by a local")

def pure(e, env, fn, what):
    binds = []
    t, ty = expr(e, env, fn, binds)
    if binds:
        reject(e, f"{what} must be free of effects (no attribute reads, calls of methods or raising operations)")
    return t, ty

def coerce(t, ty, want, node):
    if ty == want:
        return t
    if ty == "nonelit" and isinstance(want, tuple) and want[0] == "opt":
        return "None"
    if isinstance(want, tuple) and want[0] == "opt" and ty == want[1]:
        return f"(Some {t})"
    if ty == "emptylist" and isinstance(want, tuple) and want[0] == "list":
        return "[]"
    reject(node, f"value of type {ty} where {want} is expected")

def args_for(e, sig_params, defaults, env, fn, binds):
    plain_call(e)
    if len(e.args) > len(sig_params):
        reject(e, "too many arguments")
    out = []
    for k, (p, pt) in enumerate(sig_params):
        if k < len(e.args):
            t, ty = expr(e.args[k], env, fn, binds)
            out.append(coerce(t, ty, pt, e.args[k]))
        elif p in defaults:
            d = defaults[p]
            if d is None:
                out.append("None")
            elif isinstance(d, bool):
                out.append(coerce("true" if d else "false", "bool", pt, e))
            else:
                out.append(coerce(f"({d})", "int", pt, e))
        else:
            reject(e, f"missing argument {p}")
    return out

def test(e, env, fn, binds):
    """a condition -> (brancher(then_text, else_text) -> text, env in the then branch, env in the else branch)"""
    if isinstance(e, ast.UnaryOp) and isinstance(e.op, ast.Not):
        br, et, ef = test(e.operand, env, fn, binds)
        return (lambda a, b: br(b, a)), ef, et
    if isinstance(e, ast.Compare) and len(e.ops) == 1 and isinstance(e.ops[0], (ast.Is, ast.IsNot)):
        l, r = e.left, e.comparators[0]
        if not (isinstance(l, ast.Name) and isinstance(r, ast.Constant) and r.value is None):
            reject(e, "only `<local> is None` / `<local> is not None` accepted")
        v, ty = local(l, env)
        if not (isinstance(ty, tuple) and ty[0] == "opt"):
            reject(e, f"`is None` on a local of type {ty} (it must be Optional)")
        some = dict(env); some[l.id] = ty[1]
        if isinstance(e.ops[0], ast.Is):
            return (lambda a, b: f"match {v} with None => {a} | Some {v} => {b} end"), env, some
        return (lambda a, b: f"match {v} with Some {v} => {a} | None => {b} end"), some, env
    if isinstance(e, ast.Call) and isinstance(e.func, ast.Name) and e.func.id == "isinstance":
        not_shadowed(e.func, env)
        plain_call(e, 2)
        x, c = e.args
        if not isinstance(x, ast.Name) or not isinstance(c, ast.Name):
            reject(e, "isinstance(<local>, <class name>) expected")
        v, ty = local(x, env)
        if isinstance(ty, tuple) and ty[0] == "sum" and c.id == "int" and ty[1] == "int":
            not_shadowed(c, env)
            a_env = dict(env); a_env[x.id] = ty[1]
            b_env = dict(env); b_env[x.id] = ty[2]
            return (lambda a, b: f"match {v} with inl {v} => {a} | inr {v} => {b} end"), a_env, b_env
        if (ty, c.id) in ISINSTANCE:
            not_shadowed(c, env)
            f = ISINSTANCE[(ty, c.id)]
            return (lambda a, b: f"if ({f} {v}) then {a} else {b}"), env, env
        reject(e, f"isinstance of a {ty} against {c.id} not accepted")
    t, ty = expr(e, env, fn, binds)
    if ty == "symset":
        t = f"(py_truth_symset {t})"
    elif ty != "bool":
        reject(e, f"condition of type {ty} (truthiness is not modelled)")
    return (lambda a, b: f"if {t} then {a} else {b}"), env, env

CMP = {ast.LtE: "Z.leb", ast.Lt: "Z.ltb", ast.Eq: "Z.eqb"}

def expr(e, env, fn, binds):
    """returns (coq text, type); effectful sub-evaluations are appended to binds in evaluation order"""
    if isinstance(e, ast.Constant):
        v = e.value
        if v is None:
            return "None", "nonelit"
        if isinstance(v, bool):
            return ("true" if v else "false"), "bool"
        if isinstance(v, int):
            return f"({v})", "int"
        if isinstance(v, str):
            if not re.fullmatch(r"[A-Za-z0-9_ .,:+-]*", v):
                reject(e, "string literal with characters outside [A-Za-z0-9_ .,:+-]")
            return f'"{v}"%string', "str"
        reject(e, "literal not accepted")
    if isinstance(e, ast.Name):
        if not isinstance(e.ctx, ast.Load):
            reject(e, "name in non-load context")
        return local(e, env)
    if isinstance(e, ast.Dict):
        items = []
        for k, v in zip(e.keys, e.values):
            if not (isinstance(k, ast.Constant) and isinstance(k.value, str) and re.fullmatch(r"[A-Za-z0-9_ -]*", k.value)):
                reject(e, "dict display: keys must be plain string literals")
            if k.value in [x for x, _ in items]:
                reject(e, "dict display: repeated key")
            t, ty = expr(v, env, fn, binds)
            if ty not in JINJ:
                reject(v, f"dict display: a value of type {ty} is not accepted")
            items.append((k.value, f"({JINJ[ty]} {t})" if JINJ[ty] else t))
        return "(JDict [" + "; ".join(f'("{k}"%string, {t})' for k, t in items) + "])", "jval"
    if isinstance(e, ast.List):
        if len(e.elts) == 0:
            return "[]", "emptylist"
        if len(e.elts) != 1:
            reject(e, "only empty and one-element list displays accepted")
        t, ty = expr(e.elts[0], env, fn, binds)
        return f"[{t}]", ("list", ty)
    if isinstance(e, ast.Attribute):
        if is_self(e.value):
            w = fn.world
            if e.attr in w.attrs:
                x = fn.tmp()
                binds.append((x, f"py_getattr a_{e.attr}"))
                return x, w.attrs[e.attr]
            if w.definer(fn.cname, e.attr) is not None:            # a bound method used as a value
                sig = callee_sig(fn, e.attr, e)
                if not sig.pure or sig.prop:
                    reject(e, "a bound method used as a value must be a pure method")
                return fn.dep("self", e.attr, sig.coq()), ("fun", tuple(t for _, t in sig.params), sig.ret)
            reject(e, f"self.{e.attr}: neither an attribute assigned in a translated class nor a translated method")
        t, ty = expr(e.value, env, fn, binds)
        if (ty, e.attr) not in ATTRS:
            reject(e, f"attribute .{e.attr} of a value of type {ty} not accepted")
        f, rty = ATTRS[(ty, e.attr)]
        return f"({f} {t})", rty
    if isinstance(e, ast.BinOp):
        a, ta = expr(e.left, env, fn, binds)
        b, tb = expr(e.right, env, fn, binds)
        op = type(e.op)
        if ta == "int" and tb == "int" and op in (ast.Add, ast.Sub, ast.Mult):
            return f"({ {ast.Add: 'Z.add', ast.Sub: 'Z.sub', ast.Mult: 'Z.mul'}[op]} {a} {b})", "int"
        if ta == "int" and tb == "int" and op is ast.Pow:
            x = fn.tmp()
            binds.append((x, f"lift (py_pow {a} {b})"))
            return x, "int"
        if op is ast.Mult and ta == "int" and isinstance(tb, tuple) and tb[0] == "list":
            return f"(py_list_mul {a} {b})", tb
        reject(e, f"binary operation {op.__name__} on {ta}, {tb} not accepted")
    if isinstance(e, ast.Compare):
        if len(e.ops) != 1:
            reject(e, "chained comparison")
        op = type(e.ops[0])
        if op in (ast.Is, ast.IsNot):
            reject(e, "`is None` is accepted as a test only")
        a, ta = expr(e.left, env, fn, binds)
        b, tb = expr(e.comparators[0], env, fn, binds)
        if ta != "int" or tb != "int":
            reject(e, f"comparison of {ta} with {tb} not accepted")
        if op in CMP:
            return f"({CMP[op]} {a} {b})", "bool"
        if op is ast.GtE:
            return f"(Z.leb {b} {a})", "bool"
        if op is ast.Gt:
            return f"(Z.ltb {b} {a})", "bool"
        if op is ast.NotEq:
            return f"(negb (Z.eqb {a} {b}))", "bool"
        reject(e, "comparison operator not accepted")
    if isinstance(e, ast.BoolOp):
        if len(e.values) != 2:
            reject(e, "and/or of two operands only")
        br, et, ef = test(e.values[0], env, fn, binds)
        if isinstance(e.op, ast.And):
            r, ty = pure(e.values[1], et, fn, "the right operand of `and`")
            if ty != "bool":
                reject(e, "operands of `and` must be tests")
            return "(" + br(r, "false") + ")", "bool"
        r, ty = pure(e.values[1], ef, fn, "the right operand of `or`")
        if ty != "bool":
            reject(e, "operands of `or` must be tests")
        return "(" + br("true", r) + ")", "bool"
    if isinstance(e, ast.UnaryOp) and isinstance(e.op, ast.Not):
        br, _, _ = test(e, env, fn, binds)
        return "(" + br("true", "false") + ")", "bool"
    if isinstance(e, ast.IfExp):
        br, et, ef = test(e.test, env, fn, binds)
        a, ta = pure(e.body, et, fn, "a branch of a conditional expression")
        b, tb = pure(e.orelse, ef, fn, "a branch of a conditional expression")
        if ta != tb:
            reject(e, f"branches of a conditional expression of different types ({ta}, {tb})")
        return "(" + br(a, b) + ")", ta
    if isinstance(e, ast.ListComp):
        return comprehension(e, env, fn, binds)
    if isinstance(e, ast.Call):
        return call(e, env, fn, binds)
    reject(e, "expression not accepted")

def targets(tg, ety, env, node):
    """loop / comprehension target -> [(name, type)]"""
    if isinstance(tg, ast.Name):
        names = [(tg.id, ety)]
    elif isinstance(tg, ast.Tuple) and len(tg.elts) == 2 and all(isinstance(x, ast.Name) for x in tg.elts):
        if not (isinstance(ety, tuple) and ety[0] == "prod"):
            reject(node, f"cannot unpack an element of type {ety} into two names")
        names = [(tg.elts[0].id, ety[1]), (tg.elts[1].id, ety[2])]
        if names[0][0] == names[1][0]:
            reject(tg, "repeated target")
    else:
        reject(tg, "target must be a name or a pair of names")
    for x, _ in names:
        if x in env or x == "self":
            reject(tg, f"target {x} rebinds an existing local")
    return names

def lam(names, body):
    if len(names) == 1:
        return f"(fun (v_{names[0][0]} : {coqty(names[0][1])}) => {body})"
    return f"(py_unpack2 (fun (v_{names[0][0]} : {coqty(names[0][1])}) (v_{names[1][0]} : {coqty(names[1][1])}) => {body}))"

def comprehension(e, env, fn, binds):
    if len(e.generators) != 1:
        reject(e, "one `for` clause only")
    g = e.generators[0]
    if g.ifs or g.is_async:
        reject(e, "`if` clauses not accepted")
    it, ity = expr(g.iter, env, fn, binds)
    if not (isinstance(ity, tuple) and ity[0] == "list"):
        reject(g.iter, f"iteration over {ity} not accepted")
    names = targets(g.target, ity[1], env, e)
    inner = dict(env); inner.update(names)
    eb = []
    t, ty = expr(e.elt, inner, fn, eb)
    if not eb:
        return f"(map {lam(names, t)} {it})", ("list", ty)
    x = fn.tmp()
    binds.append((x, f"py_comp {it} {lam(names, with_binds(eb, f'ret {t}'))}"))
    return x, ("list", ty)

def call(e, env, fn, binds):
    f = e.func
    w = fn.world
    # super().__init__()
    if isinstance(f, ast.Attribute) and isinstance(f.value, ast.Call) and isinstance(f.value.func, ast.Name) and f.value.func.id == "super":
        not_shadowed(f.value.func, env)
        plain_call(f.value, 0)
        if f.attr != "__init__" or fn.mname != "__init__":
            reject(e, "super() is accepted as `super().__init__()` inside __init__ only")
        parent = w.cls[fn.cname]["cfg"]["parent"]
        x = fn.tmp()
        if parent is None:
            plain_call(e, 0)
            binds.append((x, "py_object_init"))
        else:
            r = w.method(parent, "__init__", e)
            args = args_for(e, r["sig"].params, r["sig"].defaults, env, fn, binds)
            if r["deps"]:
                reject(e, "the parent's __init__ calls methods through self")
            binds.append((x, " ".join([f"{parent}___init___gen"] + args)))
        return x, "none"
    if isinstance(f, ast.Attribute) and is_self(f.value):
        if f.attr == "__init__":
            reject(e, "explicit call of __init__")
        sig = callee_sig(fn, f.attr, e)
        if sig.prop:
            reject(e, "a property is not callable")
        args = args_for(e, sig.params, sig.defaults, env, fn, binds)
        head = fn.dep("self", f.attr, sig.coq())
        if sig.pure:
            return "(" + " ".join([head] + args) + ")", sig.ret
        x = fn.tmp()
        binds.append((x, " ".join([head] + args)))
        return x, sig.ret
    if isinstance(f, ast.Attribute) and isinstance(f.value, ast.Attribute) and is_self(f.value.value) and f.value.attr in w.attrs:
        a, aty = f.value.attr, w.attrs[f.value.attr]
        if aty == "runnerobj":                                    # self.a.m(...): a method of the object held by the attribute
            if f.attr not in w.foreign:
                reject(e, f"method {f.attr} is not a method of the foreign-runner protocol")
            sig = w.foreign[f.attr]
            if sig.prop:
                reject(e, "a property is not callable")
            args = args_for(e, sig.params, sig.defaults, env, fn, binds)
            hty = " -> ".join([coqty(t) for _, t in sig.params] + [f"M I {coqty(sig.ret)}"])
            head = fn.dep("inner", f.attr, hty)
            x = fn.tmp()
            binds.append((x, f"py_call_attr a_{a} set_a_{a} ({' '.join([head] + args)})"))
            return x, sig.ret
        if isinstance(aty, tuple) and aty[0] == "list" and f.attr == "append":     # self.a.append(v)
            plain_call(e, 1)
            x = fn.tmp()
            binds.append((x, f"py_getattr a_{a}"))
            ab = []
            t, ty = expr(e.args[0], env, fn, ab)
            if any(not (b.startswith("py_getattr ") or b.startswith("lift ")) for _, b in ab):
                reject(e, "the argument of append must not call methods (the list is read before the argument is evaluated)")
            binds.extend(ab)
            t = coerce(t, ty, aty[1], e)
            y = fn.tmp()
            binds.append((y, f"py_setattr set_a_{a} (py_list_append {x} {t})"))
            return y, "none"
        reject(e, f"method .{f.attr} of self.{a} not accepted")
    if isinstance(f, ast.Attribute):
        dotted = ast.unparse(f)
        if dotted in EXT_FUNCS:                                   # np.zeros, json.dumps
            return ext_func(dotted, e, env, fn, binds)
        t, ty = expr(f.value, env, fn, binds)
        if (ty, f.attr) in EXT_METHODS:
            ptys, rty, coq = EXT_METHODS[(ty, f.attr)]
            args = args_for(e, [(f"arg{k}", p) for k, p in enumerate(ptys)], {}, env, fn, binds)
            return "(" + " ".join([coq, t] + args) + ")", rty
        if (ty, f.attr) in EXT_HOOKS:
            name, ptys, rty = EXT_HOOKS[(ty, f.attr)]
            args = args_for(e, [(f"arg{k}", p) for k, p in enumerate(ptys)], {}, env, fn, binds)
            hty = " -> ".join([coqty(ty)] + [coqty(p) for p in ptys] + [f"M {STATE} {coqty(rty)}"])
            head = fn.dep("ext", name, hty)
            x = fn.tmp()
            binds.append((x, " ".join([head, t] + args)))
            return x, rty
        if ty == "wfile" and f.attr == "write":                  # f.write(text) on a file opened for writing
            args = args_for(e, [("text", "jtext")], {}, env, fn, binds)
            head = fn.dep("ext", "file_append", f"string -> jtext -> M {STATE} unit")
            x = fn.tmp()
            binds.append((x, " ".join([head, t] + args)))
            return x, "none"
        reject(e, f"method .{f.attr} of a value of type {ty} not accepted")
    if not isinstance(f, ast.Name):
        reject(e, "call not accepted")
    not_shadowed(f, env)
    if f.id in EXT_FUNCS:
        return ext_func(f.id, e, env, fn, binds)
    if f.id == "isinstance":
        if len(e.args) == 2 and all(isinstance(a, ast.Name) for a in e.args) and e.args[0].id in env \
                and (env[e.args[0].id], e.args[1].id) in ISINSTANCE:
            plain_call(e, 2)
            not_shadowed(e.args[1], env)
            return f"({ISINSTANCE[(env[e.args[0].id], e.args[1].id)]} v_{e.args[0].id})", "bool"
        br, _, _ = test(e, env, fn, binds)
        return "(" + br("true", "false") + ")", "bool"
    if f.id == "len":
        plain_call(e, 1)
        t, ty = expr(e.args[0], env, fn, binds)
        if not (isinstance(ty, tuple) and ty[0] == "list"):
            reject(e, f"len() of {ty} not accepted")
        return f"(py_len {t})", "int"
    if f.id == "zip":
        plain_call(e, 2)
        a, ta = expr(e.args[0], env, fn, binds)
        b, tb = expr(e.args[1], env, fn, binds)
        if not all(isinstance(t, tuple) and t[0] == "list" for t in (ta, tb)):
            reject(e, f"zip() of {ta}, {tb} not accepted")
        return f"(py_zip {a} {b})", ("list", ("prod", ta[1], tb[1]))
    if f.id == "any":
        plain_call(e, 1)
        g = e.args[0]
        if not (isinstance(g, ast.GeneratorExp) and len(g.generators) == 1 and not g.generators[0].ifs and not g.generators[0].is_async):
            reject(e, "any(<test> for x in <list>) expected")
        it, ity = expr(g.generators[0].iter, env, fn, binds)
        if not (isinstance(ity, tuple) and ity[0] == "list"):
            reject(e, f"iteration over {ity} not accepted")
        names = targets(g.generators[0].target, ity[1], env, e)
        inner = dict(env); inner.update(names)
        t, ty = pure(g.elt, inner, fn, "the element of any(...)")
        if ty != "bool":
            reject(e, "the element of any(...) must be a test")
        return f"(py_any {it} {lam(names, t)})", "bool"
    reject(e, "call not accepted")

def ext_func(name, e, env, fn, binds):
    ptys, rty, coq, raises = EXT_FUNCS[name]
    args = args_for(e, [(f"arg{k}", p) for k, p in enumerate(ptys)], {}, env, fn, binds)
    t = "(" + " ".join([coq] + args) + ")"
    if not raises:
        return t, rty
    x = fn.tmp()
    binds.append((x, f"lift {t}"))
    return x, rty

def with_binds(binds, text):
    """bind e1 (fun x1 => bind e2 (fun x2 => text)); `bind m (fun x => ret x)` is written m"""
    if binds and text == f"ret {binds[-1][0]}":
        text = binds[-1][1]
        binds = binds[:-1]
    for x, t in reversed(binds):
        text = f"bind ({t}) (fun {x} =>\n    {text})"
    return text

# ----------------------------------------------------------------------------- statements
def assigned(stmts):
    """local names assigned in the statements (nested blocks included), in source order"""
    out = []
    def add(t):
        if isinstance(t, ast.Name) and t.id not in out:
            out.append(t.id)
        if isinstance(t, ast.Subscript):
            add(t.value)
    def visit(s):
        if isinstance(s, ast.Assign):
            for t in s.targets:
                add(t)
        elif isinstance(s, ast.AugAssign):
            add(s.target)
        elif isinstance(s, ast.AnnAssign) and s.value is not None:
            add(s.target)
        for f in ("body", "orelse"):
            for c in getattr(s, f, []) or []:
                visit(c)
    for s in stmts:
        visit(s)
    return out

def terminates(stmts):
    if not stmts:
        return False
    s = stmts[-1]
    if isinstance(s, (ast.Return, ast.Raise)):
        return True
    return isinstance(s, ast.If) and terminates(s.body) and terminates(s.orelse)

def raise_stmt(s, env, fn):
    e = s.exc
    if s.cause is not None or not (isinstance(e, ast.Call) and isinstance(e.func, ast.Name) and e.func.id == "ValueError"):
        reject(s, "only `raise ValueError(...)` accepted")
    not_shadowed(e.func, env)
    plain_call(e, 1)
    a = e.args[0]
    if isinstance(a, ast.Constant) and isinstance(a.value, str):
        pass
    elif isinstance(a, ast.JoinedStr):
        for v in a.values:
            if isinstance(v, ast.Constant) and isinstance(v.value, str):
                continue
            if not (isinstance(v, ast.FormattedValue) and v.format_spec is None and v.conversion == -1):
                reject(s, "exception message: f-string part not accepted")
            pure(v.value, env, fn, "an expression formatted into an exception message")
    else:
        reject(s, "exception message must be a string literal or an f-string")
    fn.effects = True
    return "raise E_ValueError"

class Ctx:
    def __init__(self, allow_return):
        self.allow_return = allow_return

def block(stmts, env, fn, ctx, fall):
    """statements followed by `fall(env)` when control falls off the end (fall None: it must not)"""
    if not stmts:
        if fall is None:
            reject(None, f"{fn.prefix}: control can fall off the end of the function (an implicit `return None` is not in the grammar)")
        return fall(env)
    s, rest = stmts[0], stmts[1:]
    head = f"(* {src(s)} *)\n    "
    if isinstance(s, ast.Return):
        if not ctx.allow_return:
            reject(s, "return inside a loop or inside a branch that is joined afterwards")
        if rest:
            reject(rest[0], "statement after return")
        if s.value is None:
            reject(s, "return without a value")
        binds = []
        t, ty = expr(s.value, env, fn, binds)
        if fn.ret is None:
            fn.ret = ty
        t = coerce(t, ty, fn.ret, s)
        if binds:
            fn.effects = True
        return head + with_binds(binds, f"ret {t}")
    if isinstance(s, ast.Raise):
        if rest:
            reject(rest[0], "statement after raise")
        return head + raise_stmt(s, env, fn)
    if isinstance(s, ast.AnnAssign) and s.value is None:
        if not isinstance(s.target, ast.Name) or s.target.id in env:
            reject(s, "a declaration must name a new local")
        ann_type(s.annotation, s)
        return block(rest, env, fn, ctx, fall)
    if isinstance(s, (ast.Assign, ast.AnnAssign, ast.AugAssign)):
        fn.effects = True
        if isinstance(s, ast.Assign):
            if len(s.targets) != 1:
                reject(s, "one assignment target only")
            tg, value = s.targets[0], s.value
        elif isinstance(s, ast.AnnAssign):
            tg, value = s.target, s.value
        else:
            tg = s.target
            if not isinstance(s.op, ast.Add):
                reject(s, "only += accepted")
            rd = ast.copy_location(type(tg)(**{**{k: getattr(tg, k) for k in tg._fields}, "ctx": ast.Load()}), tg)
            value = ast.copy_location(ast.BinOp(left=rd, op=ast.Add(), right=s.value), s)
        binds = []
        if isinstance(tg, ast.Name):
            if isinstance(s, ast.AnnAssign):
                reject(s, "annotated assignment to a local")
            t, ty = expr(value, env, fn, binds)
            if ty in ("nonelit", "emptylist"):
                reject(s, "assignment of None or [] to a local (its type is not determined)")
            if tg.id == "self":
                reject(s, "assignment to self")
            if tg.id in env and env[tg.id] != ty:
                reject(s, f"{tg.id} assigned values of different types ({env[tg.id]}, {ty})")
            env2 = dict(env); env2[tg.id] = ty
            return head + open_binds(binds, f"let v_{tg.id} : {coqty(ty)} := {t} in\n    " + block(rest, env2, fn, ctx, fall))
        if isinstance(tg, ast.Attribute) and is_self(tg.value):
            w = fn.world
            if tg.attr not in w.attrs:
                reject(s, f"self.{tg.attr} is not assigned in a translated __init__")
            t, ty = expr(value, env, fn, binds)
            t = coerce(t, ty, w.attrs[tg.attr], s)
            if isinstance(s, ast.AnnAssign) and ann_type(s.annotation, s) != w.attrs[tg.attr]:
                reject(s, "annotation differs from the attribute's type")
            return head + open_binds(binds, f"bind (py_setattr set_a_{tg.attr} {t}) (fun _ =>\n    " + block(rest, env, fn, ctx, fall) + ")")
        if isinstance(tg, ast.Subscript) and isinstance(tg.value, ast.Name) and not isinstance(s, ast.AnnAssign):
            v, vty = local(tg.value, env)
            i, ity = expr(tg.slice, env, fn, binds)
            t, ty = expr(value, env, fn, binds)
            if (vty, ity, ty) != ("svec", "int", "int"):
                reject(s, f"item assignment {vty}[{ity}] = {ty} not accepted")
            return head + open_binds(binds, f"bind (lift (sv_setitem {v} {i} {t})) (fun {v} =>\n    " + block(rest, env, fn, ctx, fall) + ")")
        reject(s, "assignment target not accepted")
    if isinstance(s, ast.Expr):
        if not isinstance(s.value, ast.Call):
            reject(s, "expression statement that is not a call")
        fn.effects = True
        binds = []
        expr(s.value, env, fn, binds)
        if not binds:
            reject(s, "a call without effect as a statement")
        return head + open_binds(binds, block(rest, env, fn, ctx, fall))
    if isinstance(s, ast.If):
        return head + if_stmt(s, rest, env, fn, ctx, fall)
    if isinstance(s, ast.For):
        fn.effects = True
        return head + for_stmt(s, rest, env, fn, ctx, fall)
    if isinstance(s, ast.With):
        fn.effects = True
        return f"(* with {src(s.items[0].context_expr) if s.items else ''}: *)\n    " + with_stmt(s, rest, env, fn, ctx, fall)
    reject(s, "statement not accepted")

def open_binds(binds, text):
    for x, t in reversed(binds):
        text = f"bind ({t}) (fun {x} =>\n    {text})"
    return text

def tuple_of(names):
    if not names:
        return "tt"
    return "(" + ", ".join(f"v_{x}" for x in names) + ")" if len(names) > 1 else f"v_{names[0]}"

def if_stmt(s, rest, env, fn, ctx, fall):
    binds = []
    br, et, ef = test(s.test, env, fn, binds)
    if binds:
        fn.effects = True
    bt, ot = terminates(s.body), terminates(s.orelse)
    if bt and ot:
        if rest:
            reject(rest[0], "statement after an if whose branches both return or raise")
        text = br("(" + block(s.body, et, fn, ctx, None) + ")", "(" + block(s.orelse, ef, fn, ctx, None) + ")")
    elif bt:
        text = br("(" + block(s.body, et, fn, ctx, None) + ")", "(" + block(list(s.orelse) + list(rest), ef, fn, ctx, fall) + ")")
    elif ot:
        text = br("(" + block(list(s.body) + list(rest), et, fn, ctx, fall) + ")", "(" + block(s.orelse, ef, fn, ctx, None) + ")")
    else:
        fn.effects = True
        names = [x for x in assigned(list(s.body) + list(s.orelse))]
        seen = {}
        def join(e2):
            for x in names:
                if x not in e2:
                    reject(s, f"local {x} may be unbound after the if")
                if seen.setdefault(x, e2[x]) != e2[x]:
                    reject(s, f"local {x} has different types after the two branches")
            return f"ret {tuple_of(names)}"
        inner = Ctx(False)
        a = block(s.body, et, fn, inner, join)
        b = block(s.orelse, ef, fn, inner, join) if s.orelse else join(ef)
        env2 = dict(env); env2.update(seen)
        pat = "_" if not names else (f"'{tuple_of(names)}" if len(names) > 1 else tuple_of(names))
        text = f"bind ({br('(' + a + ')', '(' + b + ')')}) (fun {pat} =>\n    " + block(rest, env2, fn, ctx, fall) + ")"
    return open_binds(binds, text)

def with_stmt(s, rest, env, fn, ctx, fall):
    """with open(name, "w+") as f: body     the file is truncated when it is opened; f.write appends; leaving the block
       closes it (nothing happens to the content, also when the body raises); f is not usable afterwards"""
    if len(s.items) != 1:
        reject(s, "one context manager only")
    c, v = s.items[0].context_expr, s.items[0].optional_vars
    if not (isinstance(c, ast.Call) and isinstance(c.func, ast.Name) and c.func.id == "open"):
        reject(s, "only `with open(<name>, 'w+') as <f>` accepted")
    not_shadowed(c.func, env)
    plain_call(c, 2)
    if not (isinstance(c.args[1], ast.Constant) and c.args[1].value in ("w", "w+")):
        reject(s, "the file must be opened with mode 'w' or 'w+'")
    if not isinstance(v, ast.Name) or v.id in env or v.id == "self":
        reject(s, "the file must be bound to a new local")
    binds = []
    t, ty = expr(c.args[0], env, fn, binds)
    if ty != "str":
        reject(c, f"file name of type {ty}")
    trunc = fn.dep("ext", "file_truncate", f"string -> M {STATE} unit")
    inner = dict(env); inner[v.id] = "wfile"
    def after(e2):
        e3 = {k: x for k, x in e2.items() if k != v.id}
        return block(rest, e3, fn, ctx, fall)
    body = block(s.body, inner, fn, Ctx(False), after)
    return open_binds(binds, f"let v_{v.id} : string := {t} in\n    bind ({trunc} v_{v.id}) (fun _ =>\n    {body})")

def free_locals(stmts, env, exclude):
    out = []
    for s in stmts:
        for n in ast.walk(s):
            if isinstance(n, ast.Name) and n.id in env and n.id not in exclude and n.id not in out:
                out.append(n.id)
    return out

def for_stmt(s, rest, env, fn, ctx, fall):
    if s.orelse:
        reject(s, "for ... else not accepted")
    binds = []
    it, ity = expr(s.iter, env, fn, binds)
    if not (isinstance(ity, tuple) and ity[0] == "list"):
        reject(s.iter, f"iteration over {ity} not accepted")
    names = targets(s.target, ity[1], env, s)
    carried = [x for x in assigned(s.body)]
    for x in carried:
        if x in [n for n, _ in names]:
            reject(s, f"loop target {x} assigned in the body")
        if x not in env:
            reject(s, f"local {x} is assigned in the loop but not bound before it")
    fn.nloops += 1
    k = fn.nloops
    sname, bname = f"{fn.prefix}_S{k}", f"{fn.prefix}_L{k}_body"
    if carried:
        sty = f"{sname}_locals"
        rec = f"Record {sty} : Type := {sname}_mk {{\n" + ";\n".join(f"  {sname}_v_{x} : {coqty(env[x])}" for x in carried) + "\n}.\n"
        mk = lambda e2: f"ret ({sname}_mk " + " ".join(f"v_{x}" for x in carried) + ")"
        init = f"({sname}_mk " + " ".join(f"v_{x}" for x in carried) + ")"
    else:
        sty, rec, init = "unit", "", "tt"
        mk = lambda e2: "ret tt"
    def fall_body(e2):
        for x in carried:
            if e2[x] != env[x]:
                reject(s, f"local {x} changes its type in the loop")
        return mk(e2)
    captured = free_locals(s.body, env, carried)
    benv = {x: env[x] for x in captured + carried}
    benv.update(names)
    body = block(s.body, benv, fn, Ctx(False), fall_body)
    unpack = "".join(f"let v_{x} : {coqty(env[x])} := {sname}_v_{x} st in\n    " for x in carried)
    sig = " ".join(f"(v_{x} : {coqty(benv[x])})" for x in captured + [n for n, _ in names])
    fn.defs.append(rec + f"Definition {bname} {TYVARS} {DEPS} {sig} (st : {sty}) : M {STATE} {sty} :=\n    {unpack}{body}.\n")
    call_ = " ".join([bname, DEPS + "!"] + [f"v_{x}" for x in captured])
    bodyf = f"(py_unpack2 ({call_}))" if len(names) == 2 else f"({call_})"
    after = "".join(f"let v_{x} : {coqty(env[x])} := {sname}_v_{x} st in\n    " for x in carried)
    text = f"bind (py_for {it} {init} {bodyf}) (fun st =>\n    {after}" + block(rest, env, fn, ctx, fall) + ")"
    return open_binds(binds, text)

# ----------------------------------------------------------------------------- methods
def translate_method(w, cname, mname):
    fdef = w.cls[cname]["methods"][mname]
    deco = decorators(fdef)
    params, defaults = parameters(fdef, cname)
    fn = Fn(w, cname, mname)
    if fdef.returns is not None:
        fn.ret = ann_type(fdef.returns, fdef)
    body = strip_docstring(fdef.body)
    if mname in w.cls[cname]["cfg"]["handmodelled"]:
        if deco is not None or fn.ret is None:
            reject(fdef, "a hand-modelled method must be undecorated and have a return annotation")
        return dict(sig=Sig(params, fn.ret, False, defaults, hand=True), text="", deps=[])
    if deco == "abstractmethod":
        if body:
            reject(fdef, "an abstract method must have a docstring-only body")
        if fn.ret is None:
            reject(fdef, "an abstract method needs a return annotation")
        return dict(sig=Sig(params, fn.ret, False, defaults, abstract=True), text="", deps=[])
    if deco == "property" and params:
        reject(fdef, "a property takes no arguments")
    if not body:
        reject(fdef, "empty body")
    env = dict(params)
    if mname == "__init__":
        if fn.ret not in (None, "none"):
            reject(fdef, "__init__ returns None")
        fn.ret = "none"
        text = block(body, env, fn, Ctx(False), lambda e2: "ret tt")
    else:
        # a method annotated `-> None` may fall off its end
        text = block(body, env, fn, Ctx(True), (lambda e2: "ret tt") if fn.ret == "none" else None)
    if fn.ret is None:
        reject(fdef, "no return type")
    is_pure = (not fn.effects and len(body) == 1 and isinstance(body[0], ast.Return))
    sig = Sig(params, fn.ret, is_pure, defaults, prop=(deco == "property"))
    args = " ".join(f"(v_{p} : {coqty(t)})" for p, t in params)
    deps_sig = " ".join(f"({k}_{n} : {t})" for k, n, t in fn.deps)
    deps_use = " ".join(f"{k}_{n}" for k, n, _ in fn.deps)
    name = f"{cname}_{mname}_gen"
    out = "".join(d + "\n" for d in fn.defs)
    note = "(* a property: read as a method without arguments *)\n" if deco == "property" else ""
    if defaults:
        note += "(* defaults in the source: " + ", ".join(f"{p} = {d}" for p, d in defaults.items()) + " *)\n"
    if is_pure:
        m = re.fullmatch(r"\(\* .*? \*\)\n    ret (.*)", text, flags=re.S)
        if not m or fn.deps:
            reject(fdef, "internal: pure method of unexpected shape")
        out += note + f"Definition {name} {args} : {coqty(fn.ret)} :=\n  {m.group(1)}.\n"
    else:
        out += note + f"Definition {name} {TYVARS} {deps_sig} {args} : M {STATE} {coqty(fn.ret)} :=\n  {text}.\n"
    out = out.replace(DEPS + "!", deps_use).replace(DEPS, deps_sig)
    out = re.sub(r" +\n", "\n", re.sub(r"(?<=\S)  +(?=[({:])", " ", out))
    return dict(sig=sig, text=out, deps=list(fn.deps))

def collect_attrs(w):
    """types of the attributes of self: from the assignments in the __init__ methods"""
    for cfg in CLASSES:
        fdef = w.cls[cfg["name"]]["methods"]["__init__"]
        params, _ = parameters(fdef, cfg["name"])
        env = dict(params)
        for s in ast.walk(fdef):
            if isinstance(s, (ast.Assign, ast.AnnAssign)):
                tgs = s.targets if isinstance(s, ast.Assign) else [s.target]
                for tg in tgs:
                    if isinstance(tg, ast.Attribute) and is_self(tg.value):
                        v = s.value
                        if isinstance(s, ast.AnnAssign):
                            ty = ann_type(s.annotation, s)
                            if ty == "none":
                                reject(s, "attribute of type None")
                        elif isinstance(v, ast.Constant) and isinstance(v.value, int) and not isinstance(v.value, bool):
                            ty = "int"
                        elif isinstance(v, ast.Name) and v.id in env:
                            ty = env[v.id]
                        else:
                            reject(s, "cannot determine the type of the attribute from this assignment")
                        if not re.fullmatch(r"[A-Za-z_][A-Za-z0-9_]*", tg.attr):
                            reject(s, "attribute name not accepted")
                        if w.attrs.setdefault(tg.attr, ty) != ty:
                            reject(s, f"attribute {tg.attr} assigned values of different types")
    if "ext" in w.attrs:
        reject(None, "attribute name `ext` clashes with the generated field")

def attrs_record(w):
    names = list(w.attrs)
    out = "(* the attributes of self: one field per attribute assigned in a translated class (None: not assigned yet);\n" \
          "   a_ext is whatever else the subclass keeps (never touched by the translated methods) *)\n"
    out += "Record runner_attrs (I X : Type) : Type := mk_runner_attrs {\n"
    out += "".join(f"  a_{x} : option {coqty(w.attrs[x])};\n" for x in names) + "  a_ext : X\n}.\n"
    out += "Arguments mk_runner_attrs {I X}.\n" + "".join(f"Arguments a_{x} {{I X}}.\n" for x in names + ["ext"])
    for x in names:
        out += f"Definition set_a_{x} {TYVARS} (s : runner_attrs I X) (v : option {coqty(w.attrs[x])}) : runner_attrs I X :=\n" \
               f"  mk_runner_attrs " + " ".join("v" if y == x else f"(a_{y} s)" for y in names) + " (a_ext s).\n"
    out += "(* a fresh object, before __init__ *)\nDefinition runner_attrs_new {I X : Type} (x : X) : runner_attrs I X :=\n  mk_runner_attrs " \
           + " ".join("None" for _ in names) + " x.\n"
    return out

def class_table(w, cfg):
    """the resolution table of class K: how an instance of K (whose subclass supplies the hooks H) runs each method"""
    K = cfg["name"]
    visible = []
    for d in reversed(w.chain(K)):
        for m in w.cls[d]["cfg"]["methods"] + w.cls[d]["cfg"]["handmodelled"]:
            if m != "__init__" and m not in visible:
                visible.append(m)
    over = [m for d in w.chain(K) for m in w.cls[d]["cfg"]["overridable"]]
    res = {m: w.method(w.definer(K, m), m) for m in visible}
    # overrides keep the signature
    for m in visible:
        shapes = {tuple(map(repr, w.method(d, m)["sig"].shape())) for d in w.chain(K)
                  if m in w.cls[d]["methods"] and m in w.cls[d]["cfg"]["methods"] + w.cls[d]["cfg"]["handmodelled"]}
        if len(shapes) != 1:
            reject(w.cls[K]["methods"].get(m), f"{K}.{m} overrides a method with a different signature")
    fields, exts = [], []
    for m in visible:
        if res[m]["sig"].abstract:
            fields.append((f"{K}_h_{m}", res[m]["sig"].coq(), f"hand-modelled method {m}" if res[m]["sig"].hand else f"abstract method {m}"))
    for m in visible:
        for k, n, t in res[m]["deps"]:
            if k in ("ext", "inner") and (k, n) not in [(a, b) for a, b, _ in exts]:
                exts.append((k, n, t))
    for k, n, t in exts:
        fields.append((f"{K}_{k}_{n}", t, f"external operation {n}" if k == "ext" else f"method {n} of the object held by an attribute of self"))
    for m in over:
        if m not in visible or res[m]["sig"].abstract:
            reject(None, f"internal: overridable {m}")
        fields.append((f"{K}_ov_{m}", f"({res[m]['sig'].coq()}) -> ({res[m]['sig'].coq()})", f"a subclass's override of {m}, given the inherited method"))
    out = f"(* ------------------------------------------------------------------ class {K}: hooks and resolution table *)\n"
    out += f"Record {K}_hooks (I X : Type) : Type := {K}_mk_hooks {{\n" + ";\n".join(f"  {f} : {t}   (* {c} *)" for f, t, c in fields) + "\n}.\n"
    out += f"Arguments {K}_mk_hooks {{I X}}.\n" + "".join(f"Arguments {f} {{I X}}.\n" for f, _, _ in fields)
    emitted, busy = [], []
    lines = []
    def emit(m):
        if m in emitted:
            return
        if m in busy:
            reject(None, f"recursion through self in class {K} (method {m})")
        busy.append(m)
        r = res[m]
        if r["sig"].abstract:
            body = f"{K}_h_{m} H"
        else:
            parts = [f"{w.definer(K, m)}_{m}_gen"]
            for k, n, _ in r["deps"]:
                if k == "self":
                    if n not in visible:
                        reject(None, f"{K}.{m} calls self.{n}, which {K} does not have")
                    emit(n)
                    parts.append(f"({K}_R_{n} H)")
                else:
                    parts.append(f"({K}_{k}_{n} H)")
            body = " ".join(parts)
            if m in over:
                body = f"{K}_ov_{m} H ({body})"
        busy.pop()
        emitted.append(m)
        defined = w.definer(K, m)
        lines.append(f"(* {m}: " + ("hand-modelled" if r["sig"].hand else "supplied by the subclass" if r["sig"].abstract else f"defined in {defined}") + " *)\n"
                     f"Definition {K}_R_{m} {TYVARS} (H : {K}_hooks I X) : {r['sig'].coq()} :=\n  {body}.\n")
    for m in visible:
        emit(m)
    return out + "".join(lines)

HEADER = """(* GENERATED by tr/tr_runner.py from src/orquestra/quantum/api/circuit_runner.py, api/wavefunction_simulator.py and
   runners/trackers.py - do not edit.  Every `<Class>_<method>_gen` below is the statement-by-statement translation of the Python method of that
   name; `<Class>_R_<method>` is the method as an instance of <Class> runs it (dynamic dispatch resolved along the class
   hierarchy).  The meaning of the building blocks is fixed in State/RunnerTrSupport.v; agreement with the model of
   State/Runner.v is proved in State/RunnerGenProofs.v. *)
Require Import Coq.ZArith.ZArith Coq.Lists.List Coq.Bool.Bool Coq.Strings.String.
Require Import OQ.State.Runner OQ.State.RunnerTrSupport.
Import ListNotations.
Open Scope Z_scope.

"""

def generate(repo):
    w = World()
    trees = {}
    for key, path in FILES.items():
        tree = ast.parse(open(os.path.join(repo, path)).read())
        trees[key] = (tree, check_module(tree, key))
    for cfg in CLASSES:
        tree, binders = trees[cfg["file"]]
        w.cls[cfg["name"]] = dict(cfg=cfg, methods=find_class(tree, binders, cfg))
    collect_attrs(w)
    ptree, pbinders = trees[FOREIGN_PROTOCOL[0]]
    for n in pbinders(FOREIGN_PROTOCOL[1])[0].body:
        if isinstance(n, ast.FunctionDef):
            deco = decorators(n)
            ps, ds = parameters(n, FOREIGN_PROTOCOL[1])
            if n.returns is None:
                reject(n, "protocol method without a return annotation")
            w.foreign[n.name] = Sig(ps, ann_type(n.returns, n), False, ds, prop=(deco == "property"))
    text = HEADER + attrs_record(w) + "\n"
    order = []
    for cfg in CLASSES:
        for m in cfg["methods"]:
            w.method(cfg["name"], m)
    for (d, m), r in w.done.items():       # insertion order = dependency order (callees are completed first)
        if r["text"]:
            text += f"(* ------------------------------------------------------------------ {d}.{m} *)\n" + r["text"] + "\n"
    for cfg in CLASSES:
        text += class_table(w, cfg) + "\n"
    return text

def run(repo, out):
    target = os.path.join(out, "RunnerGen.v")
    try:
        try:
            text = generate(repo)
        except Reject:
            raise
        except Exception as e:       # a source the translator cannot even read is a rejected source
            raise Reject(f"internal error {type(e).__name__}: {e}")
    except Reject as e:
        # fail closed: no stale definitions from an earlier source may survive a rejection; the file below does not
        # compile, so everything that depends on the generated definitions stops building until the source is accepted
        why = re.sub(r"[^A-Za-z0-9 _.,:=()\[\]'-]", " ", str(e))[:300].replace("(*", "( *").replace("*)", "* )")
        if FORBIDDEN_TEXT.search(why):
            why = "(reason elided)"
        write_if_changed(target, "(* GENERATED by tr/tr_runner.py - THE TRANSLATOR REJECTED THE SOURCE:\n   " + why
                         + " *)\nDefinition translator_rejected_the_source : False := I.\n")
        raise
    write_if_changed(target, text)
    print("tr_runner: ok")

if __name__ == "__main__":
    main_wrapper(run)
