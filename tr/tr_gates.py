#!/usr/bin/env python3
"""Translate the gate-modifier classes of circuits/_gates.py to Gallina, expression by expression (fail-closed: anything
outside the grammar below is rejected with exit code 3 and the output is replaced by a stub that does not compile).

  circuits/_gates.py : Gate, MatrixFactoryGate, ControlledGate, Dagger, Exponential, Power, GateOperation,
                       CustomGateDefinition.__call__                                           -> Gen/GateModsGen.v

Reading of the classes (meaning fixed in coq/Circ/GatesTrSupport.v; agreement with the model coq/Circ/GateAst.v is proved,
on every run, in coq/Circ/GatesGenProofs.v).
  * A `@dataclass(frozen=True)` class is a constructor whose arguments are the annotated fields of the class body in
    declaration order.  The five concrete gate classes (FAMILY) are the constructors of ONE generated inductive type
    `pygate W`: the static type `Gate`.  GateOperation and CustomGateDefinition are one-constructor types of their own.
  * Dynamic dispatch.  For every method / property `m` declared in the protocol class Gate the translator emits ONE
    definition `Gate_m_gen (self : pygate W) args` = `match self with <one branch per class> end`; the branch of class C is
    the translation of C's own definition of m, or - when C does not define m and derives from Gate - of Gate's definition
    (most of these are `raise NotImplementedError()`), or of the definition named by a class-level alias
    `m = Gate.m`.  `e.m(...)` / `e.m` on any expression of static type Gate is a call of that definition.  A call of m on
    `self.<field>` inside m is structural recursion (the definition becomes a Fixpoint); any other recursion - m on self,
    m on a computed gate, two methods calling each other - is rejected.  Definitions are emitted in dependency order.
  * `C(a, ..)` (positional or keyword arguments, defaults of the field declarations filled in) is the constructor when C
    has no __post_init__, else `C_new a ..` = run the translated `C.__post_init__` on the new object, return it unless
    that raised.  `replace(self, f=e)` is the constructor call of self's class with the stored fields, f replaced.
  * Effect levels: a definition is pure (type T) or may raise (type `result T`); sub-expressions that may raise are bound
    left to right, in Python's evaluation order, before the pure remainder.

Accepted grammar
  module      docstring, imports, `NAME = "<string>"` (a generated constant), function and class definitions; every name the
              grammar gives a meaning to (REQUIRED) bound exactly once by the expected import, the builtins of BUILTINS and
              the translated classes never rebound.
  classes     exactly the decorators / bases listed in CLASSES; body = docstring, field declarations `x: T` / `x: T = c`,
              methods (undecorated or exactly @property; every method name must be known: translated or listed as
              ignored), aliases `m = Gate.m`.  Parameter and return types come from the annotations (ANNOT); a missing
              annotation in a gate class is filled from Gate's declaration of the same method, and must agree with it
              when present.  Parameters are matched by position (their names may differ from Gate's).
  statements  x = e | if t: .. [else: ..] (each branch ends in return / raise, or the if is followed by more
              statements) | return e | raise ValueError(..) / NotImplementedError(..) (message: string literals and
              f-strings over pure expressions; not part of the result).  Only __post_init__ may fall off its end.
  tests       bool-typed expressions: int comparisons, not / and / or (right operand pure), bool fields.
  expressions int / string literals, module constants, parameters and locals, self, self.<field>, e.<property> and
              e.<method>(args) for e : Gate, constructor calls, replace(self, f=e), int + - ** int, str + str,
              f-strings over str / exponent values, a if t else b, tuple(e for x in xs), len(xs),
              get_free_symbols(ps), sub_symbols(p, m), self.<factory field>(*self.<params field>),
              m.adjoint(), m.exp(), m ** e on matrices, sympy.eye(n), sympy.Matrix.diag(<eye>, m),
              CustomGateMatrixFactory(self) (an opaque constructor: an explicit argument of the generated definition).
Not translated (hand-modelled or outside C07): __str__, __eq__, GateOperation.lifted_matrix / apply (numpy / sympy
lifting, property C08), CustomGateMatrixFactory (sympy substitution: the model's factory oracle),
CustomGateDefinition.__post_init__ / _n_qubits (float log2), the module functions comparing matrices.
"""
OUTPUTS = ['GateModsGen.v']      # generated files (the driver uses this to decide which properties depend on this translator)
import ast, os, re
from trlib import *

SRC = "src/orquestra/quantum/circuits/_gates.py"

# ----------------------------------------------------------------------------- configuration
FAMILY = ["MatrixFactoryGate", "ControlledGate", "Dagger", "Exponential", "Power"]
PROTOCOL = "Gate"
DATACLASS = "dataclass(frozen=True)"
CLASSES = {
    "Gate": dict(kind="protocol", decorators=["runtime_checkable"], bases=["Protocol"], ignored=[]),
    "MatrixFactoryGate": dict(kind="family", decorators=[DATACLASS], bases=[], ignored=["__str__", "__eq__"]),
    "ControlledGate": dict(kind="family", decorators=[DATACLASS], bases=["Gate"], ignored=["__str__"]),
    "Dagger": dict(kind="family", decorators=[DATACLASS], bases=["Gate"], ignored=["__str__"]),
    "Exponential": dict(kind="family", decorators=[DATACLASS], bases=["Gate"], ignored=["__str__"]),
    "Power": dict(kind="family", decorators=[DATACLASS], bases=["Gate"], ignored=["__str__"]),
    "GateOperation": dict(kind="record", decorators=[DATACLASS], bases=[],
                          translated=["params", "bind", "replace_params", "free_symbols"],
                          # lifting a matrix to a register (numpy / sympy kron products) is property C08's model
                          ignored=["lifted_matrix", "apply", "__str__"]),
    "CustomGateDefinition": dict(kind="record", decorators=[DATACLASS], bases=[],
                                 translated=["__call__"],
                                 # __post_init__ stores floor(log2(rows)) of the matrix (float arithmetic) in the extra
                                 # attribute _n_qubits; it is only scanned for that attribute
                                 ignored=["__post_init__", "__eq__"], extra_attrs={"_n_qubits": "int"}),
}
# parameters without annotation whose type is fixed here: (class, method, parameter) -> type
PARAM_TYPE = {("CustomGateDefinition", "__call__", "gate_params"): ("list", "param")}
# classes whose constructor is an explicit argument of the generated definitions: class -> (argument types, result type)
OPAQUE = {"CustomGateMatrixFactory": ([("obj", "CustomGateDefinition")], "factory")}

# name -> how it must be bound at module level: (module, level) for `from <dots><module> import name`, a string for `import <string>`
REQUIRED = {"dataclass": ("dataclasses", 0), "replace": ("dataclasses", 0), "sympy": "sympy",
            "Protocol": ("typing", 0), "runtime_checkable": ("typing", 0), "Callable": ("typing", 0), "Dict": ("typing", 0),
            "Iterable": ("typing", 0), "Tuple": ("typing", 0), "Union": ("typing", 0),
            "Parameter": ("_operations", 1), "get_free_symbols": ("_operations", 1), "sub_symbols": ("_operations", 1)}
BUILTINS = ["len", "tuple", "property", "object", "ValueError", "NotImplementedError", "int", "float", "str", "bool", "type",
            "getattr", "setattr", "super", "isinstance"]

ANNOT = {"int": "int", "float": "exponent", "str": "str", "bool": "bool",
         "Gate": "gate", "'Gate'": "gate", "'ControlledGate'": "gate", "'MatrixFactoryGate'": "gate",
         "Union['MatrixFactoryGate', Gate]": "gate", "'GateOperation'": ("obj", "GateOperation"),
         "Tuple[Parameter, ...]": ("list", "param"), "Tuple[int, ...]": ("list", "int"),
         "Tuple[sympy.Symbol, ...]": ("list", "symbol"), "Iterable[sympy.Symbol]": ("list", "symbol"),
         "Dict[sympy.Symbol, Parameter]": "symmap", "sympy.Matrix": "matrix", "Callable[..., sympy.Matrix]": "factory"}
COQTY = {"int": "Z", "str": "string", "bool": "bool", "gate": "(pygate W)", "exponent": "(w_exponent W)",
         "param": "(w_param W)", "symbol": "(w_symbol W)", "symmap": "(w_symmap W)", "matrix": "(w_matrix W)",
         "factory": "(w_factory W)", "eye": "pyeye", "none": "unit"}
EXC = {"ValueError": "E_ValueError", "NotImplementedError": "E_NotImplementedError"}
FORBIDDEN_TEXT = re.compile(r"Admitted|admit|Axiom|Parameter|Conjecture|bypass_check|Unset|\(\*|\*\)|type-in-type|impredicative")
IDENT = re.compile(r"[A-Za-z_][A-Za-z0-9_]*\Z")

def coqty(t):
    if isinstance(t, str):
        return COQTY[t]
    if t[0] == "list":
        return f"(list {coqty(t[1])})"
    if t[0] == "obj":
        return f"({t[1]}_obj W)"
    raise Reject(f"internal: type {t}")

def src(node):
    t = " ".join(ast.unparse(node).split("\n")[0].split()).replace("(*", "( *").replace("*)", "* )")
    return "(source elided)" if FORBIDDEN_TEXT.search(t) or '"' in t else t[:160]

def mangle(m):
    return m.strip("_")

def ann_type(a, where):
    if a is None:
        reject(where, "missing annotation (types come from the annotations)")
    t = ast.unparse(a)
    if t not in ANNOT:
        reject(a, "annotation not accepted")
    return ANNOT[t]

def is_docstring(n):
    return isinstance(n, ast.Expr) and isinstance(n.value, ast.Constant) and isinstance(n.value.value, str)

# ----------------------------------------------------------------------------- module and classes
class Cls:
    def __init__(self, name, node, cfg):
        self.name, self.node, self.cfg = name, node, cfg
        self.fields = []          # (name, type, default constant or None)
        self.methods = {}         # name -> (FunctionDef, is_property)
        self.aliases = {}         # name -> (class, method)

class Module:
    def __init__(self, tree):
        self.constants, self.classes = {}, {}
        bound = {}
        def bind(name, node):
            bound.setdefault(name, []).append(node)
        for n in tree.body:
            if is_docstring(n):
                continue
            if isinstance(n, ast.Import):
                for a in n.names:
                    bind((a.asname or a.name).split(".")[0], n)
            elif isinstance(n, ast.ImportFrom):
                for a in n.names:
                    if a.name == "*":
                        reject(n, "star import (may rebind anything)")
                    bind(a.asname or a.name, n)
            elif isinstance(n, ast.Assign):
                if len(n.targets) != 1 or not isinstance(n.targets[0], ast.Name):
                    reject(n, "module-level assignment to something that is not a plain name")
                if not (isinstance(n.value, ast.Constant) and isinstance(n.value.value, str)
                        and re.fullmatch(r"[A-Za-z0-9_^ .,:+-]*", n.value.value)):
                    reject(n, "module-level assignment of something that is not a plain string literal")
                bind(n.targets[0].id, n)
                self.constants[n.targets[0].id] = n.value.value
            elif isinstance(n, (ast.FunctionDef, ast.ClassDef)):
                bind(n.name, n)
            else:
                reject(n, "module-level statement not accepted")
        for b in BUILTINS:
            if b in bound:
                reject(bound[b][0], f"builtin {b} is rebound at module level")
        for x, how in REQUIRED.items():
            bs = bound.get(x, [])
            if isinstance(how, str):
                ok = len(bs) == 1 and isinstance(bs[0], ast.Import) and any(a.name == how and a.asname is None for a in bs[0].names)
                if not ok:
                    reject(bs[0] if bs else tree, f"{x} must be bound exactly once, by `import {how}`")
            else:
                mod, level = how
                ok = len(bs) == 1 and isinstance(bs[0], ast.ImportFrom) and bs[0].module == mod and bs[0].level == level \
                    and any(a.name == x and a.asname is None for a in bs[0].names)
                if not ok:
                    reject(bs[0] if bs else tree, f"{x} must be bound exactly once, by `from {'.' * level}{mod} import {x}`")
        for c in list(CLASSES) + list(OPAQUE):
            bs = bound.get(c, [])
            if len(bs) != 1 or not isinstance(bs[0], ast.ClassDef):
                reject(bs[0] if bs else tree, f"class {c} must be defined exactly once at module level")
        for c in self.constants:
            if len(bound[c]) != 1 or not IDENT.match(c):
                reject(bound[c][0], f"constant {c} is bound more than once")
        self.bound = bound
        for c, cfg in CLASSES.items():
            self.classes[c] = self.read_class(c, bound[c][0], cfg)

    def read_class(self, name, node, cfg):
        if [ast.unparse(d) for d in node.decorator_list] != cfg["decorators"] or node.keywords \
                or [ast.unparse(b) for b in node.bases] != cfg["bases"]:
            reject(node, f"class {name} must have exactly the decorators {cfg['decorators']} and the bases {cfg['bases']}")
        c = Cls(name, node, cfg)
        for n in node.body:
            if is_docstring(n):
                continue
            if isinstance(n, ast.AnnAssign):
                if cfg["kind"] == "protocol" or not isinstance(n.target, ast.Name) or not n.simple:
                    reject(n, "field declaration not accepted here")
                if n.target.id in [f for f, _, _ in c.fields] or not IDENT.match(n.target.id):
                    reject(n, "field declared twice")
                if c.methods or c.aliases:
                    reject(n, "field declared after a method (declaration order is the constructor's argument order)")
                ty = ANNOT.get(ast.unparse(n.annotation))
                if ty is None:
                    reject(n, "field annotation not accepted")
                default = None
                if n.value is not None:
                    if not (isinstance(n.value, ast.Constant) and isinstance(n.value.value, bool) and ty == "bool"):
                        reject(n, "field default must be True / False on a bool field")
                    default = n.value.value
                elif any(d is not None for _, _, d in c.fields):
                    reject(n, "field without default after a field with default")
                c.fields.append((n.target.id, ty, default))
            elif isinstance(n, ast.FunctionDef):
                if n.name in c.methods or n.name in c.aliases:
                    reject(n, f"method {n.name} defined twice")
                if n.name in [f for f, _, _ in c.fields]:
                    reject(n, f"method {n.name} hides a field")
                prop = False
                if n.decorator_list:
                    if len(n.decorator_list) != 1 or not (isinstance(n.decorator_list[0], ast.Name) and n.decorator_list[0].id == "property"):
                        reject(n, "decorated method (a decorator may change what the call does); only exactly @property is read")
                    prop = True
                c.methods[n.name] = (n, prop)
            elif isinstance(n, ast.Assign):
                v = n.value
                if not (cfg["kind"] == "family" and len(n.targets) == 1 and isinstance(n.targets[0], ast.Name)
                        and isinstance(v, ast.Attribute) and isinstance(v.value, ast.Name) and v.value.id == PROTOCOL
                        and v.attr == n.targets[0].id):
                    reject(n, "class-level assignment not accepted (only an alias `m = Gate.m`)")
                if v.attr in c.methods or v.attr in c.aliases:
                    reject(n, f"method {v.attr} defined twice")
                c.aliases[v.attr] = (PROTOCOL, v.attr)
            else:
                reject(n, "class body statement not accepted")
        return c

# ----------------------------------------------------------------------------- signatures
class Sig:
    def __init__(self, prop, params, ret):
        self.prop, self.params, self.ret = prop, params, ret      # params: [(name, type)]

def read_signature(fdef, prop, fallback=None, allow_vararg=False, cname=None):
    """parameter names / types and return type of a method; `fallback` (Gate's signature) fills missing annotations"""
    a = fdef.args
    if a.kwarg or a.posonlyargs or a.kwonlyargs or a.defaults or a.kw_defaults:
        reject(fdef, "only plain positional parameters without defaults accepted")
    if not a.args or a.args[0].arg != "self" or a.args[0].annotation is not None:
        reject(fdef, "the first parameter must be self")
    plain = list(a.args[1:])
    ps = []
    def one(p, k, wrap):
        if p.annotation is None and (cname, fdef.name, p.arg) in PARAM_TYPE:
            ty = PARAM_TYPE[(cname, fdef.name, p.arg)]
        elif p.annotation is None:
            if fallback is None or k >= len(fallback.params):
                reject(p, "missing annotation")
            ty = fallback.params[k][1]
        else:
            ty = ann_type(p.annotation, p)
            ty = ("list", ty) if wrap else ty
            if fallback is not None and (k >= len(fallback.params) or fallback.params[k][1] != ty):
                reject(p, "parameter type differs from the declaration in Gate")
        if not IDENT.match(p.arg) or p.arg in [x for x, _ in ps] or p.arg == "self":
            reject(p, "parameter name not accepted")
        ps.append((p.arg, ty))
    for k, p in enumerate(plain):
        one(p, k, False)
    if a.vararg is not None:
        if not allow_vararg:
            reject(fdef, "*args accepted in __call__ only")
        one(a.vararg, len(plain), True)
    if fallback is not None and len(ps) != len(fallback.params):
        reject(fdef, "number of parameters differs from the declaration in Gate")
    if prop and ps:
        reject(fdef, "a property takes no arguments")
    if fdef.returns is not None:
        ret = ann_type(fdef.returns, fdef)
        if fallback is not None and ret != fallback.ret:
            reject(fdef, "return type differs from the declaration in Gate")
    elif fallback is not None:
        ret = fallback.ret
    else:
        ret = None
    if fallback is not None and prop != fallback.prop:
        reject(fdef, "property / method kind differs from the declaration in Gate")
    return Sig(prop, ps, ret)

# ----------------------------------------------------------------------------- terms
class Tm:
    """a translated body: level 'pure' (text : T) or 'res' (text : result T)"""
    def __init__(self, level, text):
        self.level, self.text = level, text

def lift(tm):
    return tm if tm.level == "res" else Tm("res", f"Ok {paren(tm.text)}")

def paren(t):
    return t if re.fullmatch(r"[A-Za-z0-9_']+|\(.*\)|\".*\"%string", t, flags=re.S) and balanced_atom(t) else f"({t})"

def balanced_atom(t):
    if not t.startswith("("):
        return True
    depth = 0
    for i, ch in enumerate(t):
        depth += ch == "("
        depth -= ch == ")"
        if depth == 0 and i < len(t) - 1:
            return False
    return True

def seq(binds, tm):
    """bind b1 (fun x1 => bind b2 (fun x2 => tm)); `bind m (fun x => Ok x)` is written m"""
    if not binds:
        return tm
    tm = lift(tm)
    text = tm.text
    if text == f"Ok {binds[-1][0]}":
        text = binds[-1][1]
        binds = binds[:-1]
    for x, t in reversed(binds):
        text = f"bind ({t}) (fun {x} =>\n      {text})"
    return Tm("res", text)

# ----------------------------------------------------------------------------- translation context
class Ctx:
    def __init__(self, world, cls, method, assume):
        self.world, self.cls, self.method, self.assume = world, cls, method, assume
        self.recursive = False
        self.fresh = 0
        self.ret = None
        self.deps = []           # opaque constructors used: names

    def tmp(self):
        self.fresh += 1
        return f"x{self.fresh}"

class World:
    def __init__(self, mod):
        self.mod = mod
        self.iface = {}          # method name -> Sig (from the protocol class)
        self.done = {}           # key -> dict(level, ret, deps)
        self.busy = []
        self.out = []            # emitted definitions, in dependency order
        proto = mod.classes[PROTOCOL]
        if proto.fields or proto.aliases:
            reject(proto.node, "the protocol class must contain methods only")
        for m, (fdef, prop) in proto.methods.items():
            self.iface[m] = read_signature(fdef, prop, None, allow_vararg=(m == "__call__"))
            if self.iface[m].ret is None:
                reject(fdef, "a method of the protocol class needs a return annotation")
        for c in FAMILY:
            k = mod.classes[c]
            for m in list(k.methods) + list(k.aliases):
                if m not in self.iface and m != "__post_init__" and m not in k.cfg["ignored"]:
                    reject(k.methods.get(m, (k.node,))[0], f"method {m} of {c} is not known to the translator (it could change what the translated methods do)")
        for c, k in mod.classes.items():
            if k.cfg["kind"] == "record":
                for m in k.methods:
                    if m not in k.cfg["translated"] + k.cfg["ignored"]:
                        reject(k.methods[m][0], f"method {m} of {c} is not known to the translator")
                for m in k.cfg["translated"] + k.cfg["ignored"]:
                    if m not in k.methods:
                        reject(k.node, f"method {m} not found in class {c}")
                for attr, ty in k.cfg.get("extra_attrs", {}).items():
                    self.check_extra_attr(k, attr)
                    k.fields.append((attr, ty, None))
                    k.extra = k.cfg["extra_attrs"]
            if k.cfg["kind"] == "protocol":
                for m in k.methods:
                    if m in k.cfg["ignored"]:
                        reject(k.node, "internal: ignored protocol method")

    def check_extra_attr(self, k, attr):
        """the attribute is stored exactly once, by object.__setattr__(self, "<attr>", ..) at the top level of __post_init__"""
        if "__post_init__" not in k.methods:
            reject(k.node, f"{k.name}.__post_init__ (which stores {attr}) not found")
        hits = []
        for s in k.methods["__post_init__"][0].body:
            for n in ast.walk(s):
                if isinstance(n, ast.Call) and ast.unparse(n.func) == "object.__setattr__":
                    ok = isinstance(s, ast.Expr) and s.value is n and len(n.args) == 3 and not n.keywords \
                        and isinstance(n.args[0], ast.Name) and n.args[0].id == "self" \
                        and isinstance(n.args[1], ast.Constant)
                    if not ok:
                        reject(n, "object.__setattr__ in a form that is not read")
                    hits.append(n.args[1].value)
        if hits != [attr]:
            reject(k.methods["__post_init__"][0], f"__post_init__ must store exactly the attribute {attr}, once, at its top level")

    # ---- which definition runs for method m on an instance of family class c
    def resolve(self, c, m):
        k = self.mod.classes[c]
        if m in k.methods:
            return k.methods[m], c
        if m in k.aliases:
            oc, om = k.aliases[m]
            return self.mod.classes[oc].methods[om], oc
        if m in [f for f, _, _ in k.fields]:
            return None, c                      # the field itself
        if PROTOCOL in k.cfg["bases"]:
            return self.mod.classes[PROTOCOL].methods[m], PROTOCOL
        reject(k.node, f"class {c} has no attribute {m} (it does not derive from Gate)")

    def need(self, key, node, make):
        if key in self.done:
            return self.done[key]
        if key in self.busy:
            reject(node, f"recursion through {key} is not in the grammar (only a method calling itself on a field of self)")
        self.busy.append(key)
        r = make()
        self.busy.pop()
        self.done[key] = r
        return r

    def family_method(self, m, node=None):
        return self.need(("Gate", m), node, lambda: translate_family_method(self, m))

    def constructor(self, c, node=None):
        return self.need(("new", c), node, lambda: translate_constructor(self, c))

    def record_method(self, c, m, node=None):
        return self.need((c, m), node, lambda: translate_record_method(self, c, m))

# ----------------------------------------------------------------------------- expressions
def plain_args(e, n=None):
    if e.keywords:
        reject(e, "keyword arguments not accepted here")
    if any(isinstance(a, ast.Starred) for a in e.args):
        reject(e, "starred arguments not accepted here")
    if n is not None and len(e.args) != n:
        reject(e, f"expected {n} argument(s)")

def is_self(e):
    return isinstance(e, ast.Name) and e.id == "self"

def not_shadowed(name, env, node):
    if name in env:
        reject(node, f"{name} is shadowed by a local")

def self_type(ctx):
    k = ctx.world.mod.classes[ctx.cls]
    return "gate" if k.cfg["kind"] == "family" else ("obj", ctx.cls)

def pure(e, env, ctx, what):
    binds = []
    t, ty = expr(e, env, ctx, binds)
    if binds:
        reject(e, f"{what} must not contain operations that can raise")
    return t, ty

def test(e, env, ctx, binds):
    t, ty = expr(e, env, ctx, binds)
    if ty != "bool":
        reject(e, f"condition of type {ty} (truthiness of other values is not in the grammar)")
    return t

def call_family(recv, recv_is_field, m, args, ctx, binds, node):
    """e.m(args) / e.m for e of static type Gate: the generated dispatching definition"""
    w = ctx.world
    if m not in w.iface:
        reject(node, f"{m} is not declared in the protocol class Gate")
    sig = w.iface[m]
    if m == ctx.method:
        if not recv_is_field:
            reject(node, f"{m} calls itself on something that is not a field of self (not structural recursion)")
        ctx.recursive = True
        level = ctx.assume
    else:
        level = w.family_method(m, node)["level"]
    text = " ".join([f"Gate_{mangle(m)}_gen", recv] + args)
    if level == "pure":
        return f"({text})", sig.ret
    x = ctx.tmp()
    binds.append((x, text))
    return x, sig.ret

def construct(c, args, ctx, binds, node):
    """C(args) with all fields given: constructor, or C_new when C has a __post_init__"""
    k = ctx.world.mod.classes[c]
    ty = "gate" if k.cfg["kind"] == "family" else ("obj", c)
    if "__post_init__" in k.methods and "__post_init__" not in k.cfg["ignored"]:
        ctx.world.constructor(c, node)
        x = ctx.tmp()
        binds.append((x, " ".join([f"{c}_new"] + args)))
        return x, ty
    if "__post_init__" in k.methods:
        reject(node, f"{c} is constructed, but its __post_init__ is not translated")
    return "(" + " ".join([c] + args) + ")", ty

def coerce(t, ty, want, node):
    if ty != want:
        reject(node, f"value of type {ty} where {want} is expected")
    return t

def expr(e, env, ctx, binds):
    """-> (coq text, type); sub-evaluations that can raise are appended to binds in evaluation order"""
    w = ctx.world
    if isinstance(e, ast.Constant):
        v = e.value
        if isinstance(v, bool):
            return ("true" if v else "false"), "bool"
        if isinstance(v, int):
            return (f"{v}" if v >= 0 else f"({v})"), "int"
        if isinstance(v, str):
            if not re.fullmatch(r"[A-Za-z0-9_^ .,:+-]*", v):
                reject(e, "string literal with characters outside [A-Za-z0-9_^ .,:+-]")
            return f'"{v}"%string', "str"
        reject(e, "literal not accepted")
    if isinstance(e, ast.Name):
        if not isinstance(e.ctx, ast.Load):
            reject(e, "name in non-load context")
        if e.id == "self":
            return "self", self_type(ctx)
        if e.id in env:
            return env[e.id]
        if e.id in w.mod.constants:
            return e.id, "str"
        reject(e, "unknown name")
    if isinstance(e, ast.Attribute):
        if is_self(e.value):
            k = w.mod.classes[ctx.cls]
            for f, fty, _ in k.fields:
                if f == e.attr:
                    return f"f_{f}", fty
            if k.cfg["kind"] != "family":
                reject(e, f"self.{e.attr}: not a field of {ctx.cls}")
            if e.attr not in w.iface or not w.iface[e.attr].prop:
                reject(e, f"self.{e.attr}: neither a field of {ctx.cls} nor a property declared in Gate")
            if e.attr == ctx.method:
                reject(e, f"{e.attr} reads itself on self (unbounded recursion)")
            return call_family("self", False, e.attr, [], ctx, binds, e)
        t, ty = expr(e.value, env, ctx, binds)
        if ty == "gate":
            if e.attr not in w.iface or not w.iface[e.attr].prop:
                reject(e, f".{e.attr} of a Gate: not a property declared in the protocol class")
            return call_family(t, field_of_self(e.value, ctx), e.attr, [], ctx, binds, e)
        reject(e, f"attribute .{e.attr} of a value of type {ty} not accepted")
    if isinstance(e, ast.BinOp):
        a, ta = expr(e.left, env, ctx, binds)
        b, tb = expr(e.right, env, ctx, binds)
        op = type(e.op)
        if (ta, tb) == ("int", "int") and op in (ast.Add, ast.Sub):
            return f"({'Z.add' if op is ast.Add else 'Z.sub'} {a} {b})", "int"
        if (ta, tb) == ("int", "int") and op is ast.Pow:
            x = ctx.tmp()
            binds.append((x, f"py_pow_int {a} {b}"))
            return x, "int"
        if (ta, tb) == ("str", "str") and op is ast.Add:
            return f"(py_str_add {a} {b})", "str"
        if (ta, tb) == ("matrix", "exponent") and op is ast.Pow:
            return f"(w_pow W {a} {b})", "matrix"
        reject(e, f"binary operation {op.__name__} on {ta}, {tb} not accepted")
    if isinstance(e, ast.Compare):
        if len(e.ops) != 1:
            reject(e, "chained comparison")
        a, ta = expr(e.left, env, ctx, binds)
        b, tb = expr(e.comparators[0], env, ctx, binds)
        if (ta, tb) != ("int", "int"):
            reject(e, f"comparison of {ta} with {tb} not accepted")
        op = type(e.ops[0])
        table = {ast.Lt: f"(Z.ltb {a} {b})", ast.LtE: f"(Z.leb {a} {b})", ast.Gt: f"(Z.ltb {b} {a})",
                 ast.GtE: f"(Z.leb {b} {a})", ast.Eq: f"(Z.eqb {a} {b})", ast.NotEq: f"(negb (Z.eqb {a} {b}))"}
        if op not in table:
            reject(e, "comparison operator not accepted")
        return table[op], "bool"
    if isinstance(e, ast.UnaryOp) and isinstance(e.op, ast.Not):
        return f"(negb {test(e.operand, env, ctx, binds)})", "bool"
    if isinstance(e, ast.BoolOp):
        if len(e.values) != 2:
            reject(e, "and / or of two operands only")
        a = test(e.values[0], env, ctx, binds)
        b, tb = pure(e.values[1], env, ctx, "the right operand of and / or")
        if tb != "bool":
            reject(e, "operands of and / or must be tests")
        return (f"(andb {a} {b})" if isinstance(e.op, ast.And) else f"(orb {a} {b})"), "bool"
    if isinstance(e, ast.IfExp):
        c = test(e.test, env, ctx, binds)
        ba, bb = [], []
        a, ta = expr(e.body, env, ctx, ba)
        b, tb = expr(e.orelse, env, ctx, bb)
        if ta != tb:
            reject(e, f"branches of a conditional expression of different types ({ta}, {tb})")
        if not ba and not bb:
            return f"(if {c} then {a} else {b})", ta
        x = ctx.tmp()
        binds.append((x, f"if {c} then {seq(ba, Tm('pure', a)).text} else {seq(bb, Tm('pure', b)).text}"))
        return x, ta
    if isinstance(e, ast.JoinedStr):
        parts = []
        for v in e.values:
            if isinstance(v, ast.Constant) and isinstance(v.value, str):
                parts.append(expr(v, env, ctx, binds)[0])
                continue
            if not (isinstance(v, ast.FormattedValue) and v.format_spec is None and v.conversion == -1):
                reject(e, "f-string part with a conversion or format specification")
            t, ty = expr(v.value, env, ctx, binds)
            if ty == "str":
                parts.append(f"(py_format_str {t})")
            elif ty == "exponent":
                parts.append(f"(w_str_exponent W {t})")
            else:
                reject(v, f"f-string part of type {ty} not accepted")
        return "(py_fstring [" + "; ".join(parts) + "])", "str"
    if isinstance(e, ast.Call):
        return call(e, env, ctx, binds)
    reject(e, "expression not accepted")

def field_of_self(e, ctx):
    """is the expression `self.<field>` (a structural sub-object of self)"""
    if not (isinstance(e, ast.Attribute) and is_self(e.value)):
        return False
    return e.attr in [f for f, _, _ in ctx.world.mod.classes[ctx.cls].fields]

def call(e, env, ctx, binds):
    w = ctx.world
    f = e.func
    if isinstance(f, ast.Name):
        not_shadowed(f.id, env, e)
        if f.id in w.mod.classes and w.mod.classes[f.id].cfg["kind"] in ("family", "record"):
            k = w.mod.classes[f.id]
            if any(isinstance(a, ast.Starred) for a in e.args) or any(kw.arg is None for kw in e.keywords):
                reject(e, "starred arguments not accepted in a constructor call")
            extra = getattr(k, "extra", {})
            fields = [x for x in k.fields if x[0] not in extra]
            if extra:
                reject(e, f"{f.id} is constructed, but its __post_init__ is not translated")
            if len(e.args) > len(fields):
                reject(e, "too many arguments")
            given = {}                                    # evaluation order = order written
            for (fname, _, _), a in zip(fields, e.args):
                given[fname] = expr(a, env, ctx, binds) + (a,)
            for kw in e.keywords:
                if kw.arg in given or kw.arg not in [x[0] for x in fields]:
                    reject(e, f"keyword argument {kw.arg} repeated or not a field")
                given[kw.arg] = expr(kw.value, env, ctx, binds) + (kw.value,)
            args = []
            for fname, fty, default in fields:
                if fname in given:
                    t, ty, node = given[fname]
                    args.append(coerce(t, ty, fty, node))
                elif default is not None:
                    args.append("true" if default else "false")
                else:
                    reject(e, f"missing argument {fname}")
            return construct(f.id, args, ctx, binds, e)
        if f.id in OPAQUE:
            ptys, rty = OPAQUE[f.id]
            plain_args(e, len(ptys))
            args = [coerce(*expr(a, env, ctx, binds), pt, a) for a, pt in zip(e.args, ptys)]
            if f.id not in ctx.deps:
                ctx.deps.append(f.id)
            return "(" + " ".join([f"ext_{f.id}"] + args) + ")", rty
        if f.id == "replace":
            if len(e.args) != 1 or not is_self(e.args[0]) or any(kw.arg is None for kw in e.keywords):
                reject(e, "only replace(self, <field>=<value>, ...) accepted")
            k = w.mod.classes[ctx.cls]
            if getattr(k, "extra", {}):
                reject(e, "replace on a class with attributes stored by __post_init__")
            given = {}
            for kw in e.keywords:
                if kw.arg in given or kw.arg not in [x[0] for x in k.fields]:
                    reject(e, f"replace: {kw.arg} repeated or not a field")
                given[kw.arg] = expr(kw.value, env, ctx, binds) + (kw.value,)
            args = [coerce(*given[fn][:2], fty, given[fn][2]) if fn in given else f"f_{fn}" for fn, fty, _ in k.fields]
            return construct(ctx.cls, args, ctx, binds, e)
        if f.id == "tuple":
            plain_args(e, 1)
            g = e.args[0]
            if not (isinstance(g, ast.GeneratorExp) and len(g.generators) == 1 and not g.generators[0].ifs
                    and not g.generators[0].is_async and isinstance(g.generators[0].target, ast.Name)):
                reject(e, "tuple(<element> for <name> in <list>) expected")
            it, ity = expr(g.generators[0].iter, env, ctx, binds)
            if not (isinstance(ity, tuple) and ity[0] == "list"):
                reject(e, f"iteration over {ity} not accepted")
            x = g.generators[0].target.id
            if x in env or x == "self" or not IDENT.match(x):
                reject(e, f"comprehension variable {x} rebinds a name")
            inner = dict(env); inner[x] = (f"v_{x}", ity[1])
            t, ty = pure(g.elt, inner, ctx, "the element of a comprehension")
            return f"(py_comp (fun v_{x} : {coqty(ity[1])} => {t}) {it})", ("list", ty)
        if f.id == "len":
            plain_args(e, 1)
            t, ty = expr(e.args[0], env, ctx, binds)
            if not (isinstance(ty, tuple) and ty[0] == "list"):
                reject(e, f"len() of {ty} not accepted")
            return f"(py_len {t})", "int"
        if f.id == "get_free_symbols":
            plain_args(e, 1)
            t = coerce(*expr(e.args[0], env, ctx, binds), ("list", "param"), e)
            return f"(w_get_free_symbols W {t})", ("list", "symbol")
        if f.id == "sub_symbols":
            plain_args(e, 2)
            a = coerce(*expr(e.args[0], env, ctx, binds), "param", e)
            b = coerce(*expr(e.args[1], env, ctx, binds), "symmap", e)
            return f"(w_sub_symbols W {a} {b})", "param"
        reject(e, "call not accepted")
    if not isinstance(f, ast.Attribute):
        reject(e, "call not accepted")
    dotted = ast.unparse(f)
    if dotted in ("sympy.eye", "sympy.Matrix.diag"):
        not_shadowed("sympy", env, e)
        if dotted == "sympy.eye":
            plain_args(e, 1)
            n = coerce(*expr(e.args[0], env, ctx, binds), "int", e)
            x = ctx.tmp()
            binds.append((x, f"py_sympy_eye {n}"))
            return x, "eye"
        plain_args(e, 2)
        a = coerce(*expr(e.args[0], env, ctx, binds), "eye", e)
        b = coerce(*expr(e.args[1], env, ctx, binds), "matrix", e)
        return f"(py_matrix_diag W {a} {b})", "matrix"
    if is_self(f.value) and field_of_self(f, ctx):
        # self.<factory field>(*<params>)
        ft, fty = expr(f, env, ctx, binds)
        if fty != "factory" or e.keywords or len(e.args) != 1 or not isinstance(e.args[0], ast.Starred):
            reject(e, "a field can be called only as self.<factory>(*<parameters>)")
        p = coerce(*expr(e.args[0].value, env, ctx, binds), ("list", "param"), e)
        return f"(w_call_factory W {ft} {p})", "matrix"
    t, ty = expr(f.value, env, ctx, binds)
    if ty == "matrix" and f.attr in ("adjoint", "exp"):
        plain_args(e, 0)
        return f"(w_{f.attr} W {t})", "matrix"
    if ty == "gate":
        if f.attr not in w.iface:
            reject(e, f".{f.attr}() of a Gate: not declared in the protocol class")
        sig = w.iface[f.attr]
        if sig.prop:
            reject(e, "a property is not callable")
        plain_args(e, len(sig.params))
        args = [coerce(*expr(a, env, ctx, binds), pt, a) for a, (_, pt) in zip(e.args, sig.params)]
        return call_family(t, field_of_self(f.value, ctx), f.attr, args, ctx, binds, e)
    reject(e, f"method .{f.attr} of a value of type {ty} not accepted")

# ----------------------------------------------------------------------------- statements
def terminates(stmts):
    if not stmts:
        return False
    s = stmts[-1]
    if isinstance(s, (ast.Return, ast.Raise)):
        return True
    return isinstance(s, ast.If) and terminates(s.body) and terminates(s.orelse)

def raise_stmt(s, env, ctx):
    e = s.exc
    if s.cause is not None or not (isinstance(e, ast.Call) and isinstance(e.func, ast.Name) and e.func.id in EXC):
        reject(s, "only `raise ValueError(...)` / `raise NotImplementedError(...)` accepted")
    not_shadowed(e.func.id, env, s)
    if e.keywords or len(e.args) > 1:
        reject(s, "exception with more than one argument")
    for a in e.args:
        if isinstance(a, ast.Constant) and isinstance(a.value, str):
            continue
        if not isinstance(a, ast.JoinedStr):
            reject(s, "exception message must be a string literal or an f-string")
        for v in a.values:
            if isinstance(v, ast.Constant) and isinstance(v.value, str):
                continue
            if not (isinstance(v, ast.FormattedValue) and v.format_spec is None and v.conversion == -1):
                reject(s, "exception message: f-string part not accepted")
            pure(v.value, env, ctx, "an expression formatted into an exception message")
    return Tm("res", f"Raise {EXC[e.func.id]}")

def block(stmts, env, ctx, fall):
    """statements, then `fall` (a Tm) when control falls off the end (None: it must not)"""
    if not stmts:
        if fall is None:
            reject(None, f"{ctx.cls}.{ctx.method}: control can fall off the end of the function (an implicit `return None` is not in the grammar)")
        return fall
    s, rest = stmts[0], stmts[1:]
    if isinstance(s, ast.Return):
        if rest:
            reject(rest[0], "statement after return")
        if s.value is None:
            reject(s, "return without a value")
        binds = []
        t, ty = expr(s.value, env, ctx, binds)
        if ctx.ret is None:
            ctx.ret = ty
        coerce(t, ty, ctx.ret, s)
        return seq(binds, Tm("pure", t))
    if isinstance(s, ast.Raise):
        if rest:
            reject(rest[0], "statement after raise")
        return raise_stmt(s, env, ctx)
    if isinstance(s, ast.Assign):
        if len(s.targets) != 1 or not isinstance(s.targets[0], ast.Name):
            reject(s, "assignment target must be one plain name")
        x = s.targets[0].id
        if x == "self" or not IDENT.match(x) or x in ctx.world.mod.constants or x in ctx.world.mod.classes:
            reject(s, f"assignment to {x}")
        binds = []
        t, ty = expr(s.value, env, ctx, binds)
        if x in env and env[x][1] != ty:
            reject(s, f"{x} assigned values of different types")
        env2 = dict(env); env2[x] = (f"v_{x}", ty)
        r = block(rest, env2, ctx, fall)
        return seq(binds, Tm(r.level, f"let v_{x} : {coqty(ty)} := {t} in\n      {r.text}"))
    if isinstance(s, ast.If):
        binds = []
        c = test(s.test, env, ctx, binds)
        bt, ot = terminates(s.body), terminates(s.orelse)
        if bt and ot:
            if rest:
                reject(rest[0], "statement after an if whose branches both return or raise")
            a, b = block(s.body, env, ctx, None), block(s.orelse, env, ctx, None)
        elif bt:
            a, b = block(s.body, env, ctx, None), block(list(s.orelse) + list(rest), env, ctx, fall)
        elif ot:
            a, b = block(list(s.body) + list(rest), env, ctx, fall), block(s.orelse, env, ctx, None)
        else:
            reject(s, "an if whose branches both fall through (joining locals is not in the grammar)")
        if a.level != b.level:
            a, b = lift(a), lift(b)
        return seq(binds, Tm(a.level, f"if {c} then {paren(a.text)} else {paren(b.text)}"))
    reject(s, "statement not accepted")

# ----------------------------------------------------------------------------- definitions
def body_of(fdef):
    b = strip_docstring(fdef.body)
    if not b:
        reject(fdef, "empty body")
    return b

def pattern(k):
    return " ".join([k.name] + [f"f_{f}" for f, _, _ in k.fields])

def translate_family_method(w, m):
    sig = w.iface[m]
    name = f"Gate_{mangle(m)}_gen"
    final = None
    for assume in ("pure", "res"):
        branches, recursive = [], False
        for c in FAMILY:
            k = w.mod.classes[c]
            got, owner = w.resolve(c, m)
            ctx = Ctx(w, c, m, assume)
            if got is None:                                 # the field implements the property
                fty = [t for f, t, _ in k.fields if f == m][0]
                if not sig.prop or fty != sig.ret:
                    reject(k.node, f"field {m} of {c} does not have the type of the property declared in Gate")
                branches.append((c, owner, f"field {m}", Tm("pure", f"f_{m}")))
                continue
            fdef, prop = got
            csig = read_signature(fdef, prop, sig if owner != PROTOCOL else None, allow_vararg=(m == "__call__"))
            env = {p: (f"v_{q}", t) for (p, t), (q, _) in zip(csig.params, sig.params)}
            ctx.ret = sig.ret
            tm = block(body_of(fdef), env, ctx, None)
            if ctx.deps:
                reject(fdef, "an opaque constructor in a method of the Gate classes")
            recursive = recursive or ctx.recursive
            branches.append((c, owner, src(body_of(fdef)[-1]), tm))
        level = "res" if any(tm.level == "res" for _, _, _, tm in branches) else "pure"
        if not recursive or level == assume:
            final = (branches, recursive, level)
            break
    if final is None:
        reject(None, f"internal: effect level of {m} does not settle")
    branches, recursive, level = final
    params = "".join(f" (v_{p} : {coqty(t)})" for p, t in sig.params)
    rty = coqty(sig.ret) if level == "pure" else f"result {coqty(sig.ret)}"
    kw = "Fixpoint" if recursive else "Definition"
    struct = " {struct self}" if recursive else ""
    text = f"(* {'property' if sig.prop else 'method'} {m} of a Gate: one branch per class *)\n"
    text += f"{kw} {name} {{W : pyworld}} (self : pygate W){params}{struct} : {rty} :=\n  match self with\n"
    for c, owner, what, tm in branches:
        tm = lift(tm) if level == "res" else tm
        text += f"  | {pattern(w.mod.classes[c])} =>\n      (* {owner}.{m}: {what} *)\n      {tm.text}\n"
    text += "  end.\n"
    w.out.append(text)
    return dict(level=level, ret=sig.ret)

def translate_constructor(w, c):
    """C_new: the dataclass-generated __init__ followed by C.__post_init__"""
    k = w.mod.classes[c]
    fdef, prop = k.methods["__post_init__"]
    if prop or fdef.args.args[1:] or fdef.args.vararg or fdef.args.kwarg or fdef.args.kwonlyargs or fdef.returns is not None:
        reject(fdef, "__post_init__ must be a plain method of self without return annotation")
    if len(fdef.args.args) != 1 or fdef.args.args[0].arg != "self":
        reject(fdef, "__post_init__ must take self only")
    ctx = Ctx(w, c, None, "res")
    ctx.ret = "none"
    tm = lift(block(body_of(fdef), {}, ctx, Tm("pure", "tt")))
    if ctx.deps:
        reject(fdef, "an opaque constructor in __post_init__")
    fields = "".join(f" (f_{f} : {coqty(t)})" for f, t, _ in k.fields)
    obj = "(" + pattern(k) + ")"
    ty = "(pygate W)" if k.cfg["kind"] == "family" else f"({c}_obj W)"
    text = f"(* {c}.__post_init__, run by the dataclass-generated __init__ on the new object *)\n"
    text += f"Definition {c}_post_init_gen {{W : pyworld}}{fields} : result unit :=\n  let self : {ty} := {obj} in\n  {tm.text}.\n"
    text += f"(* {c}(..): store the fields, run __post_init__; the object is returned unless that raised *)\n"
    text += f"Definition {c}_new {{W : pyworld}}{fields} : result {ty} :=\n" \
            f"  bind ({' '.join([c + '_post_init_gen'] + ['f_' + f for f, _, _ in k.fields])}) (fun _ => Ok {obj}).\n"
    w.out.append(text)
    return dict(level="res", ret=ty)

def translate_record_method(w, c, m):
    k = w.mod.classes[c]
    fdef, prop = k.methods[m]
    sig = read_signature(fdef, prop, None, allow_vararg=(m == "__call__"), cname=c)
    ctx = Ctx(w, c, None, "res")
    ctx.ret = sig.ret
    env = {p: (f"v_{p}", t) for p, t in sig.params}
    tm = block(body_of(fdef), env, ctx, None)
    if ctx.ret is None:
        reject(fdef, "no return type")
    params = "".join(f" (v_{p} : {coqty(t)})" for p, t in sig.params)
    deps = "".join(f" (ext_{d} : {' -> '.join([coqty(t) for t in OPAQUE[d][0]] + [coqty(OPAQUE[d][1])])})" for d in ctx.deps)
    rty = coqty(ctx.ret) if tm.level == "pure" else f"result {coqty(ctx.ret)}"
    text = f"(* {c}.{m}: {src(body_of(fdef)[-1])} *)\n"
    text += f"Definition {c}_{mangle(m)}_gen {{W : pyworld}}{deps} (self : {c}_obj W){params} : {rty} :=\n" \
            f"  match self with\n  | {pattern(k)} =>\n      {tm.text}\n  end.\n"
    w.out.append(text)
    return dict(level=tm.level, ret=ctx.ret)

# ----------------------------------------------------------------------------- output
HEADER = """(* GENERATED by tr/tr_gates.py from src/orquestra/quantum/circuits/_gates.py - do not edit.
   `pygate W` has one constructor per concrete gate class (arguments: the dataclass fields in declaration order);
   `Gate_<m>_gen` is method / property <m> of any gate (dynamic dispatch = the match on the constructor; each branch is the
   expression-by-expression translation of the definition that runs for that class); `<C>_new` is the constructor call of
   a class with a __post_init__.  The meaning of the building blocks is fixed in Circ/GatesTrSupport.v; agreement with
   the model of Circ/GateAst.v is proved in Circ/GatesGenProofs.v. *)
Require Import Coq.ZArith.ZArith Coq.Lists.List Coq.Bool.Bool Coq.Strings.String.
Require Import OQ.Circ.GatesTrSupport.
Import ListNotations.
Open Scope Z_scope.

"""

def inductives(w):
    out = "(* ------------------------------------------------------------------ module constants *)\n"
    for c, v in w.mod.constants.items():
        out += f'Definition {c} : string := "{v}"%string.\n'
    out += "\n(* ------------------------------------------------------------------ the dataclasses *)\n"
    out += "Inductive pygate (W : pyworld) : Type :=\n"
    for c in FAMILY:
        k = w.mod.classes[c]
        out += f"| {c}" + "".join(f" (f_{f} : {coqty(t)})" for f, t, _ in k.fields) + "\n"
    out = out.rstrip("\n") + ".\n" + "".join(f"Arguments {c} {{W}}.\n" for c in FAMILY)
    for c, k in w.mod.classes.items():
        if k.cfg["kind"] == "record":
            extra = getattr(k, "extra", {})
            if extra:
                out += f"(* the attributes {', '.join(extra)} are stored by {c}.__post_init__ (not translated) *)\n"
            out += f"Inductive {c}_obj (W : pyworld) : Type :=\n| {c}" \
                   + "".join(f" (f_{f} : {coqty(t)})" for f, t, _ in k.fields) + f".\nArguments {c} {{W}}.\n"
    return out + "\n"

def generate(repo):
    tree = ast.parse(open(os.path.join(repo, SRC)).read())
    w = World(Module(tree))
    for m in w.iface:
        w.family_method(m)
    for c in FAMILY:
        k = w.mod.classes[c]
        if "__post_init__" in k.methods:
            w.constructor(c)
    for c, k in w.mod.classes.items():
        if k.cfg["kind"] == "record":
            for m in k.cfg["translated"]:
                w.record_method(c, m)
    text = HEADER + inductives(w) + "\n".join(w.out)
    text = re.sub(r" +\n", "\n", text)
    if re.search(r"Admitted|admit|Axiom|Parameter|Conjecture|bypass_check|Unset", text):
        raise Reject("generated text contains a word the proof scan forbids")
    return text

def run(repo, out):
    target = os.path.join(out, OUTPUTS[0])
    try:
        try:
            text = generate(repo)
        except Reject:
            raise
        except Exception as e:       # a source the translator cannot even read is a rejected source
            raise Reject(f"internal error {type(e).__name__}: {e}")
    except Reject as e:
        # fail closed: no stale definitions from an earlier source may survive a rejection; the file below does not
        # compile, so everything that depends on the generated definitions stops building until the source is accepted
        why = re.sub(r"[^A-Za-z0-9 _.,:=()\[\]'-]", " ", str(e))[:300].replace("(*", "( *").replace("*)", "* )")
        if FORBIDDEN_TEXT.search(why):
            why = "(reason elided)"
        write_if_changed(target, "(* GENERATED by tr/tr_gates.py - THE TRANSLATOR REJECTED THE SOURCE:\n   " + why
                         + " *)\nDefinition translator_rejected_the_source : False := I.\n")
        raise
    write_if_changed(target, text)
    print("tr_gates: ok")

if __name__ == "__main__":
    main_wrapper(run)
