#!/usr/bin/env python3
"""Translate circuits/_matrices.py and the gate table of circuits/_builtin_gates.py to Coq (fail-closed).

Output: Gen/GatesGen.v
  * one definition per `def *_matrix(params)`:   Definition rx_matrix (angle : R) : list (list (R * R))
    every entry is a pair (real part, imaginary part) of REAL Coq expressions;
  * gate_table : list gate_entry  (name, factory name, number of parameters, num_qubits, is_hermitian)
  * gate_matrix : string -> list R -> option (list (list (R * R)))   dispatch by gate name.

The translator performs the complex arithmetic of the Python expression symbolically, at translation
time, on pairs of real expression trees ((a,b)*(c,d) = (ac-bd, ad+bc), exp(a+ib) = (e^a cos b, e^a sin b),
1/exp(z) = exp(-z), division only by syntactically real denominators), folding rational constants
exactly (Fractions).  Accepted grammar: sympy.Matrix([[...]]) literals, int / float (exact decimal) /
imaginary literals, parameters, local names bound by earlier assignments, + - * / and ** with a constant
numeric exponent on a constant base, unary minus, sympy.cos/sin/exp/sqrt, sympy.I, np.pi, np.sqrt(2),
float(e) -> e, sympy.simplify(e) -> e, scalar*matrix, matrix*matrix (symbolic product), matrix/scalar,
calls to other *_matrix functions.  Idealisations (trusted base): np.pi -> PI, np.sqrt(2)/sympy.sqrt(2) ->
sqrt 2, 2 ** (-0.5) -> / sqrt 2, float rounding ignored.  Anything else is rejected.
"""
OUTPUTS = ['GatesGen.v']      # generated files (the driver uses this to decide which properties depend on this translator)
import ast, os
from fractions import Fraction
from trlib import *

# ------------------------------------------------------------------ real expression trees
def K(x): return ("k", Fraction(x))
ZERO, ONE = K(0), K(1)
def isk(e): return e[0] == "k"
def neg(a):
    if isk(a): return K(-a[1])
    if a[0] == "neg": return a[1]
    return ("neg", a)
def add(a, b):
    if isk(a) and isk(b): return K(a[1] + b[1])
    if a == ZERO: return b
    if b == ZERO: return a
    if b[0] == "neg": return ("sub", a, b[1])
    if isk(b) and b[1] < 0: return ("sub", a, K(-b[1]))
    return ("add", a, b)
def sub(a, b): return add(a, neg(b))
def mul(a, b):
    if isk(a) and isk(b): return K(a[1] * b[1])
    if a == ZERO or b == ZERO: return ZERO
    if a == ONE: return b
    if b == ONE: return a
    if a == K(-1): return neg(b)
    if b == K(-1): return neg(a)
    if a[0] == "neg": return neg(mul(a[1], b))
    if b[0] == "neg": return neg(mul(a, b[1]))
    if isk(a) and a[1] < 0: return neg(mul(K(-a[1]), b))
    if isk(b) and b[1] < 0: return neg(mul(a, K(-b[1])))
    return ("mul", a, b)
def div(a, b):
    if isk(b):
        if b[1] == 0: raise Reject("division by the constant zero")
        if isk(a): return K(a[1] / b[1])
        if b == ONE: return a
        if b[1] < 0: return neg(div(a, K(-b[1])))
    if a == ZERO: return ZERO
    if a[0] == "neg": return neg(div(a[1], b))
    if isk(a) and a[1] < 0: return neg(div(K(-a[1]), b))
    return ("div", a, b)
def fun(name, a):
    if name == "cos" and a == ZERO: return ONE
    if name == "sin" and a == ZERO: return ZERO
    if name == "exp" and a == ZERO: return ONE
    if name in ("cos",) and a[0] == "neg": return fun("cos", a[1])
    if name == "sin" and a[0] == "neg": return neg(fun("sin", a[1]))
    return (name, a)
SQRT2 = ("sqrt2",)
PI = ("pi",)

def coq_r(e):
    t = e[0]
    if t == "k":
        f = e[1]
        if f.denominator == 1:
            return str(f.numerator) if f.numerator >= 0 else f"(- {-f.numerator})"
        s = f"({abs(f.numerator)} / {f.denominator})"
        return s if f > 0 else f"(- {s})"
    if t == "var": return e[1]
    if t == "neg": return f"(- {coq_r(e[1])})"
    if t == "add": return f"({coq_r(e[1])} + {coq_r(e[2])})"
    if t == "sub": return f"({coq_r(e[1])} - {coq_r(e[2])})"
    if t == "mul": return f"({coq_r(e[1])} * {coq_r(e[2])})"
    if t == "div": return f"({coq_r(e[1])} / {coq_r(e[2])})"
    if t in ("cos", "sin", "exp"): return f"({t} {coq_r(e[1])})"
    if t == "sqrt2": return "(sqrt 2)"
    if t == "pi": return "PI"
    raise Reject(f"internal: {e}")

# ------------------------------------------------------------------ complex = (re, im); values: ("c", re, im) | ("m", rows)
def C(re, im=ZERO): return ("c", re, im)
def cadd(x, y): return C(add(x[1], y[1]), add(x[2], y[2]))
def cneg(x): return C(neg(x[1]), neg(x[2]))
def cmul(x, y): return C(sub(mul(x[1], y[1]), mul(x[2], y[2])), add(mul(x[1], y[2]), mul(x[2], y[1])))
def is_exp_form(x):
    """x == exp(i*b) as produced by cexp with zero real part: (cos b, sin b)"""
    return x[1][0] == "cos" and ((x[2][0] == "sin" and x[2][1] == x[1][1]) or
                                 (x[2][0] == "neg" and x[2][1][0] == "sin" and x[2][1][1] == x[1][1]))
def cdiv(x, y, node):
    if y[2] == ZERO:
        return C(div(x[1], y[1]), div(x[2], y[1]))
    if is_exp_form(y):                      # 1/exp(ib) = exp(-ib): conjugate
        return cmul(x, C(y[1], neg(y[2])))
    reject(node, "division by a complex expression that is neither real nor exp(i*b)")
def cexp(z):
    ea = fun("exp", z[1])
    return C(mul(ea, fun("cos", z[2])), mul(ea, fun("sin", z[2])))
def mmul(A, B, node):
    if len(A[1][0]) != len(B[1]): reject(node, "matrix dimension mismatch")
    rows = []
    for r in A[1]:
        row = []
        for j in range(len(B[1][0])):
            acc = C(ZERO)
            for k, a in enumerate(r):
                acc = cadd(acc, cmul(a, B[1][k][j]))
            row.append(acc)
        rows.append(row)
    return ("m", rows)
def mscale(c, M): return ("m", [[cmul(c, x) for x in r] for r in M[1]])

class Tr:
    def __init__(self, tree):
        self.funs = {n.name: n for n in tree.body if isinstance(n, ast.FunctionDef)}
        self.cache = {}

    def attr(self, e):
        if isinstance(e, ast.Attribute) and isinstance(e.value, ast.Name):
            return e.value.id + "." + e.attr
        return None

    def expr(self, e, env):
        if isinstance(e, ast.Constant):
            v = e.value
            if isinstance(v, bool): reject(e, "bool literal")
            if isinstance(v, int): return C(K(v))
            if isinstance(v, float): return C(K(Fraction(repr(v))))
            if isinstance(v, complex):
                return C(K(Fraction(repr(v.real))), K(Fraction(repr(v.imag))))
            reject(e, "literal not accepted")
        if isinstance(e, ast.Name):
            if e.id in env: return env[e.id]
            reject(e, "unknown name")
        a = self.attr(e)
        if a == "sympy.I": return C(ZERO, ONE)
        if a == "np.pi": return C(PI)
        if isinstance(e, ast.UnaryOp) and isinstance(e.op, ast.USub):
            v = self.expr(e.operand, env)
            return cneg(v) if v[0] == "c" else mscale(C(K(-1)), v)
        if isinstance(e, ast.BinOp):
            if isinstance(e.op, ast.Pow):
                b, x = self.expr(e.left, env), self.expr(e.right, env)
                if b == C(K(2)) and x == C(K(Fraction(-1, 2))):
                    return C(div(ONE, SQRT2))
                if b[0] == "c" and x[0] == "c" and isk(b[1]) and b[2] == ZERO and isk(x[1]) and x[2] == ZERO \
                        and x[1][1].denominator == 1 and (x[1][1] >= 0 or b[1][1] != 0):
                    return C(K(b[1][1] ** int(x[1][1])))
                reject(e, "power not accepted (only constant ** integer constant, and 2 ** (-0.5))")
            l, r = self.expr(e.left, env), self.expr(e.right, env)
            if isinstance(e.op, ast.Add) and l[0] == r[0] == "c": return cadd(l, r)
            if isinstance(e.op, ast.Sub) and l[0] == r[0] == "c": return cadd(l, cneg(r))
            if isinstance(e.op, ast.Mult):
                if l[0] == r[0] == "c": return cmul(l, r)
                if l[0] == "c" and r[0] == "m": return mscale(l, r)
                if l[0] == "m" and r[0] == "c": return mscale(r, l)
                return mmul(l, r, e)
            if isinstance(e.op, ast.Div):
                if l[0] == r[0] == "c": return cdiv(l, r, e)
                if l[0] == "m" and r[0] == "c": return ("m", [[cdiv(x, r, e) for x in row] for row in l[1]])
            reject(e, "binary operation not accepted")
        if isinstance(e, ast.Call):
            f = self.attr(e.func) or (e.func.id if isinstance(e.func, ast.Name) else None)
            if e.keywords: reject(e, "keyword arguments not accepted")
            args = e.args
            if f == "sympy.Matrix":
                if len(args) != 1 or not isinstance(args[0], ast.List): reject(e, "Matrix literal expected")
                rows = []
                for r in args[0].elts:
                    if not isinstance(r, ast.List): reject(r, "row list expected")
                    row = [self.expr(x, env) for x in r.elts]
                    if any(x[0] != "c" for x in row): reject(r, "matrix entry is not a scalar")
                    rows.append(row)
                if not rows or any(len(r) != len(rows) for r in rows): reject(e, "matrix must be square")
                return ("m", rows)
            if f in ("sympy.cos", "sympy.sin"):
                v = self.expr(args[0], env)
                if v[0] != "c" or v[2] != ZERO: reject(e, "cos/sin of a non-real argument")
                return C(fun(f.split(".")[1], v[1]))
            if f == "sympy.exp":
                v = self.expr(args[0], env)
                if v[0] != "c": reject(e, "exp of a matrix")
                return cexp(v)
            if f in ("sympy.sqrt", "np.sqrt"):
                v = self.expr(args[0], env)
                if v == C(K(2)): return C(SQRT2)
                reject(e, "sqrt of anything but the constant 2")
            if f in ("float", "sympy.simplify", "complex"):
                return self.expr(args[0], env)
            if f in self.funs:
                return self.function(f, [self.expr(x, env) for x in args], e)
            reject(e, "call not accepted")
        reject(e, "expression not accepted")

    def function(self, name, args, node):
        fn = self.funs[name]
        if fn.decorator_list: reject(fn, "decorated function (a decorator may change what the call returns)")
        params = [a.arg for a in fn.args.args]
        if fn.args.vararg or fn.args.kwarg or fn.args.kwonlyargs or fn.args.defaults:
            reject(fn, "only plain positional parameters accepted")
        if len(args) != len(params): reject(node, f"{name} called with {len(args)} arguments")
        env = dict(zip(params, args))
        body = strip_docstring(fn.body)
        for st in body[:-1]:
            if not (isinstance(st, ast.Assign) and len(st.targets) == 1 and isinstance(st.targets[0], ast.Name)):
                reject(st, "statement not accepted")
            env[st.targets[0].id] = self.expr(st.value, env)
        ret = body[-1]
        if not isinstance(ret, ast.Return) or ret.value is None: reject(ret, "function must end in return <expr>")
        v = self.expr(ret.value, env)
        if v[0] != "m": reject(ret, "matrix factory does not return a matrix")
        return v

def coq_matrix(M):
    return "[" + ";\n     ".join("[" + "; ".join(f"({coq_r(x[1])}, {coq_r(x[2])})" for x in row) + "]" for row in M[1]) + "]"

def gate_table(tree, funs):
    """entries (name, factory, nparams, num_qubits, is_hermitian) in source order"""
    out = []
    def kw_bool(call, default=False):
        for k in call.keywords:
            if k.arg == "is_hermitian":
                if isinstance(k.value, ast.Constant) and isinstance(k.value.value, bool): return k.value.value
                reject(k.value, "is_hermitian must be a literal")
            else:
                reject(call, "unexpected keyword")
        return default
    for st in tree.body:
        if not (isinstance(st, ast.Assign) and len(st.targets) == 1 and isinstance(st.targets[0], ast.Name)
                and isinstance(st.value, ast.Call)):
            continue
        call = st.value
        fname = ast.unparse(call.func)
        if fname == "_gates.MatrixFactoryGate":
            a = call.args
            if len(a) < 4: reject(call, "MatrixFactoryGate needs name, factory, params, num_qubits")
            name, fac, params, nq = a[0], a[1], a[2], a[3]
            herm = kw_bool(call)
            if len(a) == 5:
                if not (isinstance(a[4], ast.Constant) and isinstance(a[4].value, bool)): reject(a[4], "flag literal expected")
                herm = a[4].value
            if not (isinstance(params, ast.Tuple) and not params.elts): reject(params, "non-parametric gate expected ()")
        elif fname == "make_parametric_gate_prototype":
            a = call.args
            if len(a) < 3: reject(call, "prototype needs name, factory, num_qubits")
            name, fac, nq = a[0], a[1], a[2]
            herm = kw_bool(call)
            if len(a) == 4:
                if not (isinstance(a[3], ast.Constant) and isinstance(a[3].value, bool)): reject(a[3], "flag literal expected")
                herm = a[3].value
        else:
            continue
        if not (isinstance(name, ast.Constant) and isinstance(name.value, str)): reject(name, "gate name literal expected")
        if name.value != st.targets[0].id: reject(st, "gate bound to a global of a different name")
        facname = ast.unparse(fac)
        if not facname.startswith("_matrices.") or facname[10:] not in funs: reject(fac, "unknown matrix factory")
        if not (isinstance(nq, ast.Constant) and isinstance(nq.value, int)): reject(nq, "num_qubits literal expected")
        nparams = len(funs[facname[10:]].args.args)
        if fname == "_gates.MatrixFactoryGate" and nparams != 0: reject(st, "non-parametric gate with a parametric factory")
        out.append((name.value, facname[10:], nparams, nq.value, herm))
    return out

def run(repo, out):
    base = os.path.join(repo, "src/orquestra/quantum/circuits")
    tree = ast.parse(open(os.path.join(base, "_matrices.py")).read())
    tr = Tr(tree)
    text = ["(* GENERATED by tr/tr_matrices.py from circuits/_matrices.py and circuits/_builtin_gates.py - do not edit *)",
            "Require Import Coq.Reals.Reals Coq.Lists.List Coq.Strings.String.", "Import ListNotations.",
            "Open Scope R_scope.", ""]
    arities = {}
    for name, fn in tr.funs.items():
        if not name.endswith("_matrix"): reject(fn, "unexpected function in _matrices.py")
        params = [a.arg for a in fn.args.args]
        M = tr.function(name, [C(("var", p)) for p in params], fn)
        arities[name] = (params, len(M[1]))
        text.append(f"Definition {name} " + " ".join(f"({p} : R)" for p in params) + " : list (list (R * R)) :=\n    " + coq_matrix(M) + ".\n")
    tb = gate_table(ast.parse(open(os.path.join(base, "_builtin_gates.py")).read()), tr.funs)
    text.append("Record gate_entry := { g_name : string; g_factory : string; g_nparams : nat; g_qubits : nat; g_hermitian : bool }.")
    text.append("Definition gate_table : list gate_entry :=\n  [" + ";\n   ".join(
        f'{{| g_name := "{n}"; g_factory := "{f}"; g_nparams := {k}; g_qubits := {q}; g_hermitian := {"true" if h else "false"} |}}'
        for n, f, k, q, h in tb) + "].\n")
    text.append("Definition gate_matrix (name : string) (ps : list R) : option (list (list (R * R))) :=")
    text.append("  match ps with")
    # dispatch by number of parameters, then by name
    by_k = {}
    for n, f, k, q, h in tb:
        by_k.setdefault(k, []).append((n, f))
    for k in sorted(by_k):
        vars_ = [f"p{i}" for i in range(k)]
        pat = "[" + "; ".join(vars_) + "]"
        body = "".join(f'if String.eqb name "{n}" then Some ({f} {" ".join(vars_)}) else\n            ' for n, f in by_k[k]) + "None"
        text.append(f"  | {pat} => {body}")
    text.append("  | _ => None\n  end.\n")
    write_if_changed(os.path.join(out, "GatesGen.v"), "\n".join(text))
    print("tr_matrices: ok,", len(tr.funs), "matrix factories,", len(tb), "gates")

if __name__ == "__main__":
    main_wrapper(run)
