#!/usr/bin/env python3
"""Translate the Pauli multiplication tables of operators/_pauli_operators.py to Coq (fail-closed).

  OPERATOR_MAP, COEFF_MAP, ALLOWED_OPERATORS  ->  Gen/PauliTablesGen.v

The three module-level literals are re-read from the source on every run and written as association
lists *in source order with the keys as written*; dictionary semantics (the last of several equal keys
wins) is supplied by `dict_get` in coq/Pauli/Algebra.v, and the model of `_multiply_by_operator` reads the
tables only through it.  The values of COEFF_MAP are elements of an abstract `cring` (Base/Ring.v).

Accepted grammar
  ALLOWED_OPERATORS = [ "<c>", ... ]                      one-character string literals
  OPERATOR_MAP      = { ord("<c>") + ord("<c>") : "<c>", ... }   <c> one character, value "X"|"Y"|"Z"
  COEFF_MAP         = { "<cc>" : v, ... }                 <cc> two-character string literal,
                                                          v in  1 | 1.0 | 1j | 1.0j  and their negations
                                                          (1 -> c1, 1j -> ci, -x -> copp x)
Each name must be assigned exactly once at module level, by a plain `name = literal` statement.
Everything else (other key shapes, other values such as 2j or 0.5, dict comprehensions, later mutation by
a second assignment) is rejected: the check then reports the translator obligation as failed.
"""
OUTPUTS = ['PauliTablesGen.v']      # generated files (the driver uses this to decide which properties depend on this translator)
import ast, os
from trlib import *

SRC = "src/orquestra/quantum/operators/_pauli_operators.py"

def coq_str(s):
    if not all(32 <= ord(ch) < 127 and ch != '"' for ch in s):
        raise Reject(f"unprintable character in string literal {s!r}")
    return '"' + s + '"'

def find_assign(tree, name):
    hits = []
    for n in tree.body:
        targets = []
        if isinstance(n, ast.Assign):
            targets = n.targets
        elif isinstance(n, (ast.AnnAssign, ast.AugAssign)):
            targets = [n.target]
        for t in targets:
            for sub in ast.walk(t):
                if isinstance(sub, ast.Name) and sub.id == name:
                    hits.append(n)
    if len(hits) != 1:
        raise Reject(f"{name}: expected exactly one module-level assignment, found {len(hits)}")
    n = hits[0]
    if not (isinstance(n, ast.Assign) and len(n.targets) == 1 and isinstance(n.targets[0], ast.Name)):
        reject(n, f"{name} is not assigned by a plain `name = literal` statement")
    return n.value

def one_char(e, what):
    if not (isinstance(e, ast.Constant) and isinstance(e.value, str) and len(e.value) == 1):
        reject(e, f"{what}: expected a one-character string literal")
    return e.value

def ord_call(e):
    if not (isinstance(e, ast.Call) and isinstance(e.func, ast.Name) and e.func.id == "ord"
            and len(e.args) == 1 and not e.keywords):
        reject(e, "OPERATOR_MAP key: expected ord(\"<c>\")")
    return f"ord {coq_str(one_char(e.args[0], 'ord argument'))}"

def op_key(e):
    if not (isinstance(e, ast.BinOp) and isinstance(e.op, ast.Add)):
        reject(e, "OPERATOR_MAP key: expected ord(..) + ord(..)")
    return f"({ord_call(e.left)} + {ord_call(e.right)})%Z"

def unit_value(e):
    """+-1, +-1.0, +-1j, +-1.0j -> Coq term over the ring"""
    if isinstance(e, ast.UnaryOp) and isinstance(e.op, ast.USub):
        return f"(copp {unit_value(e.operand)})"
    if isinstance(e, ast.UnaryOp) and isinstance(e.op, ast.UAdd):
        return unit_value(e.operand)
    if isinstance(e, ast.Constant) and not isinstance(e.value, bool):
        v = e.value
        if isinstance(v, (int, float)) and v == 1:
            return "c1"
        if isinstance(v, complex) and v == 1j:
            return "ci"
    reject(e, "COEFF_MAP value: only 1, 1.0, 1j, 1.0j and their negations are accepted")

def run(repo, out):
    path = os.path.join(repo, SRC)
    tree = ast.parse(open(path).read())

    allowed = find_assign(tree, "ALLOWED_OPERATORS")
    if not isinstance(allowed, ast.List):
        reject(allowed, "ALLOWED_OPERATORS is not a list literal")
    allowed_txt = "; ".join(coq_str(one_char(x, "ALLOWED_OPERATORS entry")) for x in allowed.elts)

    opmap = find_assign(tree, "OPERATOR_MAP")
    if not isinstance(opmap, ast.Dict) or any(k is None for k in opmap.keys):
        reject(opmap, "OPERATOR_MAP is not a plain dict literal")
    op_entries = []
    for k, v in zip(opmap.keys, opmap.values):
        val = one_char(v, "OPERATOR_MAP value")
        if val not in ("X", "Y", "Z"):
            reject(v, "OPERATOR_MAP value must be \"X\", \"Y\" or \"Z\"")
        op_entries.append(f"({op_key(k)}, {coq_str(val)})")

    cmap = find_assign(tree, "COEFF_MAP")
    if not isinstance(cmap, ast.Dict) or any(k is None for k in cmap.keys):
        reject(cmap, "COEFF_MAP is not a plain dict literal")
    c_entries = []
    for k, v in zip(cmap.keys, cmap.values):
        if not (isinstance(k, ast.Constant) and isinstance(k.value, str) and len(k.value) == 2):
            reject(k, "COEFF_MAP key: expected a two-character string literal")
        c_entries.append(f"({coq_str(k.value)}, {unit_value(v)})")

    text = (
        "(* GENERATED by tr/tr_pauli_tables.py from operators/_pauli_operators.py - do not edit *)\n"
        "Require Import Coq.ZArith.ZArith Coq.Lists.List Coq.Strings.String Coq.Strings.Ascii.\n"
        "Require Import OQ.Base.Ring.\n"
        "Import ListNotations.\n"
        "Open Scope string_scope.\n\n"
        "(* Python's ord on a one-character string *)\n"
        "Definition ord (s : string) : Z :=\n"
        "  match s with String c EmptyString => Z.of_nat (nat_of_ascii c) | _ => (-1)%Z end.\n\n"
        "Definition ALLOWED_OPERATORS : list string := [" + allowed_txt + "].\n\n"
        "(* dict literals in source order, keys as written *)\n"
        "Definition OPERATOR_MAP : list (Z * string) :=\n  [ " + ";\n    ".join(op_entries) + " ].\n\n"
        "Definition COEFF_MAP (K : cring) : list (string * K) :=\n  [ " + ";\n    ".join(c_entries) + " ].\n"
    )
    write_if_changed(os.path.join(out, "PauliTablesGen.v"), text)
    print("tr_pauli_tables: ok")

if __name__ == "__main__":
    main_wrapper(run)
