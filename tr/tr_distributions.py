#!/usr/bin/env python3
"""Translate the measurement-outcome-distribution functions of distributions/_measurement_outcome_distribution.py
to Gallina, construct by construct (fail-closed: anything outside the grammar below is rejected, exit code 3).

  preprocess_distibution_dict, _is_non_negative, _is_key_length_fixed, _are_keys_non_negative_integer_tuples,
  is_measurement_outcome_distribution, is_normalized, normalize_measurement_outcome_distribution,
  MeasurementOutcomeDistribution.__init__, change_tuple_dict_keys_to_comma_separated_integers,
  MeasurementOutcomeDistribution.subdistribution                          -> Gen/DistributionsGen.v

Every generated definition `<name>_gen (N : pynum) <parameters> : result <T>` is assembled from the pieces that the
Python constructs of the function body map to; nothing is recognised "as a whole".  The meaning of the pieces
(py_* constants, result/bind, pynum) is the hand-written file coq/Stats/DistTrSupport.v; coq/Stats/DistGenProofs.v
proves, on every run, that the generated definitions agree with the model coq/Stats/Dist.v of property C17.

Types (from annotations and from the construct):
  num (float), int, bool, str, key (a dict key: str | tuple | int), tuple (a tuple key), elt (an element of a tuple
  key), dict (Dict[Union[str, Tuple[int, ...]], float], also the one attribute of a MeasurementOutcomeDistribution
  object, to which such an object is identified), list T, view T (d.items() / d.keys() / d.values(): may only be
  consumed on the spot), set of int (only len() applies).
Expressions:
  names; int (also -<int>) / float / str / bool literals; self.distribution_dict (methods other than __init__); sys.float_info.min;
  xs[i] (list, tuple, key), d[k]; int + int, int - int, num + - * / num (an int operand is coerced; / raises
  ZeroDivisionError); not b; comparisons == != < <= > >= on ints and nums, chains of them over pure operands,
  d == {}, '<one character>' in / not in s;  a and b and ... (short-circuit);  a if c else b;
  isinstance(x, str | tuple | (int, np.integer)) ONLY as the test of an if statement / conditional expression or as
  the first operand of `and`: the name x is re-bound at the narrowed type in the guarded part (a match);
  len, list, tuple, sum, max, set, all(<generator>), map(int, <strs>), map(str, <elements>) (only under tuple() or
  join), math.isclose(a, b), '<sep>'.join(<strs>), s.split('<one character>'), d.items() / .keys() / .values(),
  d.get(k, default); [e for p in xs] / (e for p in xs) / {k: v for p in xs} with one for clause and no condition;
  calls of already translated functions and of the class (positional / keyword arguments, constant defaults).
  Sub-expressions that can raise are bound left to right (Python's evaluation order) before the pure remainder;
  the operands after the first of `and`, the branches of a conditional expression and the element of a
  comprehension are evaluated inside their guard.
Statements:
  x = e, x: T = e; d[k] = e; d[k] *= e, d[k] += e (d a local or parameter name); self.distribution_dict = e as the
  LAST statement of a path through __init__ (the generated function returns the value of that attribute);
  if / elif / else: either nothing follows the if statement in its block, or it is a guard (no else, body always
  returns / raises); `for p in xs: body` = py_for over the items, the state being the already bound locals that the
  body re-binds (a local first bound in the body is local to one iteration; loop targets are not visible after the
  loop; no return inside a loop); return e; raise ValueError|RuntimeError(<constant text>);
  warnings.warn(<constant text>) (no effect on the values: warnings are not modelled, in particular not a filter
  that turns them into exceptions).
Dictionaries are translated as values.  Soundness with respect to Python's mutable objects is kept by an ownership
discipline checked here: a dict bound to a name is either fresh (created by {} / a comprehension / a call returning a
fresh dict) or borrowed from a parameter; d[k] = e on a parameter marks the function as mutating that parameter;
passing a name to a parameter that the callee mutates or returns consumes the name (a later read is rejected);
self.distribution_dict can neither be assigned into nor passed to such a parameter; `y = x` on dicts moves x;
views cannot be stored; while a dict is iterated only `d[<the loop's key variable>] = / op= e` may touch it.
Module level: only imports, function and class definitions; math, sys, warnings, np and the builtins used by the grammar
are bound once / never re-bound; no global / nonlocal anywhere; the translated functions and the class are defined
exactly once, undecorated; the class has no bases, only undecorated methods, and none that intercepts attribute access.
"""
OUTPUTS = ['DistributionsGen.v']      # generated files (the driver uses this to decide which properties depend on this translator)
import ast, os, re
from fractions import Fraction
from trlib import *

SRC = "src/orquestra/quantum/distributions/_measurement_outcome_distribution.py"
CLASS = "MeasurementOutcomeDistribution"
ATTR = "distribution_dict"
# (function, method-of-class?) in dependency order
FUNCS = [("preprocess_distibution_dict", False), ("_is_non_negative", False), ("_is_key_length_fixed", False),
         ("_are_keys_non_negative_integer_tuples", False), ("is_measurement_outcome_distribution", False),
         ("is_normalized", False), ("normalize_measurement_outcome_distribution", False), ("__init__", True),
         ("change_tuple_dict_keys_to_comma_separated_integers", False), ("subdistribution", True)]
# parameters that the source leaves without annotation, and the type they are read at
UNANNOTATED = {("change_tuple_dict_keys_to_comma_separated_integers", "dict"): "dict"}
UNANNOTATED_RET = {"change_tuple_dict_keys_to_comma_separated_integers": "dict", "__init__": "dict"}
BUILTINS = ["all", "isinstance", "len", "list", "tuple", "map", "int", "str", "sum", "max", "set",
            "RuntimeError", "ValueError"]
MODULES = {"math": "math", "sys": "sys", "warnings": "warnings", "np": "numpy"}
FORBIDDEN_TEXT = re.compile(r"Admitted|admit|Axiom|Parameter|Conjecture|bypass_check|Unset|\(\*|\*\)|type-in-type|impredicative")
DICT_ANN = "Dict[Union[str, Tuple[int, ...]], float]"
ANNOT = {DICT_ANN: "dict", "Dict": "dict", "bool": "bool", "List[int]": ("list", "int"), "int": "int", "float": "num",
         "str": "str", f"'{CLASS}'": "dict"}
PAIR_KV = ("pair", "key", "num")

def coqty(t):
    if isinstance(t, tuple):
        if t[0] == "pair":
            return f"({coqty(t[1])} * {coqty(t[2])})"
        return f"list ({coqty(t[1])})"
    return {"num": "num N", "int": "Z", "bool": "bool", "str": "string", "key": "pykey", "tuple": "list pyelt",
            "elt": "pyelt", "dict": "pydict N"}[t]

def src(node):
    t = " ".join(ast.unparse(node).split("\n")[0].split())[:110]
    return "(source elided)" if FORBIDDEN_TEXT.search(t) or '"' in t else t

# ----------------------------------------------------------------------------- module-level checks
def bound_names(tree):
    out = []
    for n in tree.body:
        if isinstance(n, (ast.FunctionDef, ast.ClassDef)):
            out.append((n.name, n))
        elif isinstance(n, ast.Import):
            for a in n.names:
                out.append(((a.asname or a.name).split(".")[0], n))
        elif isinstance(n, ast.ImportFrom):
            for a in n.names:
                if a.name == "*":
                    reject(n, "star import (may rebind anything)")
                out.append((a.asname or a.name, n))
        elif isinstance(n, ast.Expr) and isinstance(n.value, ast.Constant) and isinstance(n.value.value, str):
            pass
        else:
            reject(n, "module-level statement not accepted")
    return out

def check_module(tree):
    for n in ast.walk(tree):
        if isinstance(n, (ast.Global, ast.Nonlocal)):
            reject(n, "global / nonlocal statement (may rebind a name used by the translation)")
    names = bound_names(tree)
    def binders(x):
        return [n for (y, n) in names if y == x]
    for b in BUILTINS:
        if binders(b):
            reject(binders(b)[0], f"builtin {b} is rebound at module level")
    for alias, mod in MODULES.items():
        bs = binders(alias)
        want = f"import {mod}" + (f" as {alias}" if alias != mod else "")
        if len(bs) != 1 or not (isinstance(bs[0], ast.Import) and
                                any(a.name == mod and (a.asname or a.name) == alias for a in bs[0].names)):
            reject(bs[0] if bs else tree, f"{alias} must be bound exactly once, by `{want}`")
    for f, is_method in FUNCS:
        if not is_method:
            bs = binders(f)
            if len(bs) != 1 or not isinstance(bs[0], ast.FunctionDef):
                reject(bs[0] if bs else tree, f"{f} must be defined exactly once at module level")
    bs = binders(CLASS)
    if len(bs) != 1 or not isinstance(bs[0], ast.ClassDef):
        reject(bs[0] if bs else tree, f"class {CLASS} must be defined exactly once")
    c = bs[0]
    if c.bases or c.keywords or c.decorator_list:
        reject(c, "the class must have no bases, keywords or decorators")
    seen = set()
    for n in c.body:
        if isinstance(n, ast.Expr) and isinstance(n.value, ast.Constant) and isinstance(n.value.value, str):
            continue
        if not isinstance(n, ast.FunctionDef):
            reject(n, "class-level statement other than a method definition")
        if n.decorator_list:
            reject(n, "decorated method")
        if n.name in seen:
            reject(n, "method defined twice")
        seen.add(n.name)
        if n.name in ("__setattr__", "__getattr__", "__getattribute__", "__new__", "__init_subclass__", "__delattr__",
                      "__class_getitem__", ATTR):
            reject(n, f"method {n.name} changes what attribute access / construction means")
    for f, is_method in FUNCS:
        if is_method and f not in seen:
            reject(c, f"method {f} not found")
    return {n.name: n for n in c.body if isinstance(n, ast.FunctionDef)}

# ----------------------------------------------------------------------------- translation context
class Fn:
    """per-function state"""
    def __init__(self, name, coqname, sigs, is_method, is_init):
        self.name, self.coqname, self.sigs, self.is_method, self.is_init = name, coqname, sigs, is_method, is_init
        self.fresh = 0
        self.params = []          # [(name, type, default text or None)]
        self.ret = None
        self.mutates = set()      # parameter names whose dict is assigned into
        self.ret_origins = set()  # "fresh" / ("param", p)
        self.last_call_origin = None

    def tmp(self, stem="x"):
        self.fresh += 1
        return f"{stem}{self.fresh}"

class Scope:
    """names visible at a program point (functional: every extension is a copy)
       env     name -> type, read as v_<name>
       origin  dict-typed name -> "fresh" | ("param", p) | "self"
       dead    names consumed by a call / a move
       iterating  dict name -> name of the key variable of the loop that iterates over it
       frozen  loop targets and comprehension variables (not assignable)"""
    def __init__(self, fn, env=None, origin=None, dead=(), iterating=None, frozen=(), in_loop=False):
        self.fn, self.env, self.origin = fn, dict(env or {}), dict(origin or {})
        self.dead, self.iterating, self.frozen, self.in_loop = set(dead), dict(iterating or {}), set(frozen), in_loop

    def copy(self):
        return Scope(self.fn, self.env, self.origin, self.dead, self.iterating, self.frozen, self.in_loop)

    def bind(self, x, ty, origin=None, node=None):
        check_local(x, node)
        s = self.copy()
        s.env[x] = ty
        s.dead.discard(x)
        if ty == "dict":
            s.origin[x] = origin or "fresh"
        return s

def check_local(x, node):
    if not re.fullmatch(r"[A-Za-z_][A-Za-z0-9_]*", x) or x in BUILTINS or x in MODULES or x == "self" or x == CLASS:
        reject(node, f"local name {x!r} not accepted (shadows a name used by the translation)")

def with_binds(binds, text):
    for x, t in reversed(binds):
        text = f"bind ({t}) (fun {x} =>\n    {text})"
    return text

# ----------------------------------------------------------------------------- expressions
def plain_call(e, nargs=None):
    if e.keywords:
        reject(e, "keyword arguments not accepted here")
    if any(isinstance(a, ast.Starred) for a in e.args):
        reject(e, "starred arguments not accepted")
    if nargs is not None and len(e.args) != nargs:
        reject(e, f"expected {nargs} argument(s)")

def is_builtin(f, name, sc):
    if isinstance(f, ast.Name) and f.id == name:
        if name in sc.env:
            reject(f, f"{name} is shadowed by a local")
        return True
    return False

def is_module_attr(e, mod, *path):
    """mod.a.b with mod one of the checked module aliases"""
    for a in reversed(path):
        if not (isinstance(e, ast.Attribute) and e.attr == a):
            return False
        e = e.value
    return isinstance(e, ast.Name) and e.id == mod

def char_const(e):
    if isinstance(e, ast.Constant) and isinstance(e.value, str) and len(e.value) == 1 and re.fullmatch(r"[A-Za-z0-9_ .,:;-]", e.value):
        return f'"{e.value}"%char'
    reject(e, "a one-character str literal (letters, digits, _ . , : ; - or space) is expected")

def str_const(e):
    if isinstance(e, ast.Constant) and isinstance(e.value, str) and re.fullmatch(r"[A-Za-z0-9_ .,:;-]*", e.value):
        return f'"{e.value}"%string'
    reject(e, "str literal with characters outside [A-Za-z0-9_ .,:;-]")

def as_num(text, ty, node):
    if ty == "num":
        return text
    if ty == "int":
        return f"(n_int N {text})"
    reject(node, f"number expected, {ty} found")

def as_key(text, ty, node):
    if ty == "key":
        return text
    if ty == "str":
        return f"(PKStr {text})"
    if ty == "tuple":
        return f"(PKTup {text})"
    reject(node, f"dict key expected, {ty} found")

def narrowing(test, sc):
    """isinstance(<name>, T) -> (name, constructor, narrowed type); None when the test is not an isinstance call"""
    if not (isinstance(test, ast.Call) and is_builtin(test.func, "isinstance", sc)):
        return None
    plain_call(test, 2)
    v, t = test.args
    if not isinstance(v, ast.Name) or v.id not in sc.env or v.id in sc.dead:
        reject(test, "isinstance: the first argument must be a bound local name")
    ty = sc.env[v.id]
    def cls(n, name):
        return is_builtin(n, name, sc)
    if ty == "key" and cls(t, "str"):
        return v.id, "PKStr", "str"
    if ty == "key" and cls(t, "tuple"):
        return v.id, "PKTup", "tuple"
    if ty == "elt" and (cls(t, "int") or (isinstance(t, ast.Tuple) and len(t.elts) == 2 and cls(t.elts[0], "int")
                                            and is_module_attr(t.elts[1], "np", "integer"))):
        return v.id, "PEInt", "int"
    reject(test, f"isinstance test of a value of type {ty} against this class is not accepted")

def guarded(test, sc, binds, then_fn, else_text):
    """text of: if test then then_fn(scope of the true branch) else else_text   (test's effects go to binds)"""
    nw = narrowing(test, sc)
    if nw:
        x, ctor, ty = nw
        s = sc.copy()
        s.env[x] = ty
        return f"match v_{x} with\n    | {ctor} v_{x} => {then_fn(s)}\n    | _ => {else_text}\n    end"
    c = cond(test, sc, binds)
    return f"if {c} then ({then_fn(sc)})\n    else ({else_text})"

def cond(test, sc, binds):
    t, ty = expr(test, sc, binds)
    if ty != "bool":
        reject(test, f"condition of type {ty} (truthiness of non-bool values is not modelled)")
    return t

def compare(op, a, ta, b, tb, node):
    if ta == "int" and tb == "int":
        table = {ast.Eq: f"(Z.eqb {a} {b})", ast.NotEq: f"(negb (Z.eqb {a} {b}))", ast.Lt: f"(Z.ltb {a} {b})",
                 ast.LtE: f"(Z.leb {a} {b})", ast.Gt: f"(Z.ltb {b} {a})", ast.GtE: f"(Z.leb {b} {a})"}
    elif {ta, tb} <= {"num", "int"}:
        a, b = as_num(a, ta, node), as_num(b, tb, node)
        table = {ast.Eq: f"(n_eqb N {a} {b})", ast.NotEq: f"(negb (n_eqb N {a} {b}))", ast.Lt: f"(n_ltb N {a} {b})",
                 ast.LtE: f"(n_leb N {a} {b})", ast.Gt: f"(n_ltb N {b} {a})", ast.GtE: f"(n_leb N {b} {a})"}
    else:
        reject(node, f"comparison of {ta} with {tb} not accepted")
    if type(op) not in table:
        reject(node, "comparison operator not accepted")
    return table[type(op)]

def expr(e, sc, binds):
    """returns (coq text, type); effectful sub-evaluations are appended to binds in evaluation order"""
    fn = sc.fn
    if isinstance(e, ast.Constant):
        v = e.value
        if isinstance(v, bool):
            return ("true" if v else "false"), "bool"
        if v is None:
            reject(e, "literal not accepted")
        if isinstance(v, int):
            return f"({v})%Z", "int"
        if isinstance(v, float):
            fr = Fraction(repr(v))
            return f"(n_lit N ({fr.numerator} # {fr.denominator})%Q)", "num"
        if isinstance(v, str):
            return str_const(e), "str"
        reject(e, "literal not accepted")
    if isinstance(e, ast.Name):
        if not isinstance(e.ctx, ast.Load) or e.id not in sc.env:
            reject(e, "unknown name")
        if e.id in sc.dead:
            reject(e, f"{e.id} is read after the dict it names was handed to a call that mutates or keeps it")
        return f"v_{e.id}", sc.env[e.id]
    if isinstance(e, ast.Attribute):
        if isinstance(e.value, ast.Name) and e.value.id == "self" and e.attr == ATTR and fn.is_method and not fn.is_init:
            return f"v_self_{ATTR}", "dict"
        if is_module_attr(e, "sys", "float_info", "min"):
            return "(n_lit N py_float_min)", "num"
        reject(e, "attribute not accepted")
    if isinstance(e, ast.Subscript):
        t, ty = expr(e.value, sc, binds)
        i, tyi = expr(e.slice, sc, binds)
        x = fn.tmp()
        if isinstance(ty, tuple) and ty[0] == "list" and tyi == "int":
            binds.append((x, f"py_index {t} {i}"))
            return x, ty[1]
        if ty == "tuple" and tyi == "int":
            binds.append((x, f"py_index {t} {i}"))
            return x, "elt"
        if ty == "key" and tyi == "int":
            binds.append((x, f"py_key_index {t} {i}"))
            return x, "elt"
        if ty == "dict":
            binds.append((x, f"py_dict_getitem {t} {as_key(i, tyi, e)}"))
            return x, "num"
        reject(e, f"subscript {ty}[{tyi}] not accepted")
    if isinstance(e, ast.BinOp):
        a, ta = expr(e.left, sc, binds)
        b, tb = expr(e.right, sc, binds)
        op = type(e.op)
        if ta == "int" and tb == "int" and op in (ast.Add, ast.Sub):
            return f"({'Z.add' if op is ast.Add else 'Z.sub'} {a} {b})", "int"
        if {ta, tb} <= {"num", "int"} and "num" in (ta, tb) and op in (ast.Add, ast.Sub, ast.Mult, ast.Div):
            a, b = as_num(a, ta, e), as_num(b, tb, e)
            if op is ast.Div:
                x = fn.tmp()
                binds.append((x, f"py_truediv N {a} {b}"))
                return x, "num"
            return f"({ {ast.Add: 'n_add', ast.Sub: 'n_sub', ast.Mult: 'n_mul'}[op]} N {a} {b})", "num"
        reject(e, f"binary operation {op.__name__} on {ta}, {tb} not accepted")
    if isinstance(e, ast.UnaryOp):
        if isinstance(e.op, ast.USub) and isinstance(e.operand, ast.Constant) and isinstance(e.operand.value, int) \
                and not isinstance(e.operand.value, bool):
            return f"(-{e.operand.value})%Z", "int"
        if not isinstance(e.op, ast.Not):
            reject(e, "unary operator not accepted")
        if narrowing(e.operand, sc):
            reject(e, "negated isinstance test")
        return f"(negb {cond(e.operand, sc, binds)})", "bool"
    if isinstance(e, ast.Compare):
        if len(e.ops) == 1 and isinstance(e.ops[0], (ast.In, ast.NotIn)):
            c = char_const(e.left)
            s, ts = expr(e.comparators[0], sc, binds)
            if ts != "str":
                reject(e, f"`in` on a value of type {ts}")
            t = f"(py_str_contains {s} {c})"
            return (t if isinstance(e.ops[0], ast.In) else f"(negb {t})"), "bool"
        if len(e.ops) == 1 and isinstance(e.ops[0], (ast.Eq, ast.NotEq)) and isinstance(e.comparators[0], ast.Dict) \
                and not e.comparators[0].keys:
            d, td = expr(e.left, sc, binds)
            if td != "dict":
                reject(e, f"comparison of {td} with an empty dict display")
            t = f"(py_dict_is_empty {d})"
            return (t if isinstance(e.ops[0], ast.Eq) else f"(negb {t})"), "bool"
        operands = [expr(e.left, sc, binds)]
        for k, c in enumerate(e.comparators):
            n0 = len(binds)
            operands.append(expr(c, sc, binds))
            if k >= 1 and len(binds) != n0:
                reject(e, "chained comparison whose later operands can raise (they are evaluated conditionally)")
        parts = [compare(op, operands[k][0], operands[k][1], operands[k + 1][0], operands[k + 1][1], e)
                 for k, op in enumerate(e.ops)]
        text = parts[-1]
        for p in reversed(parts[:-1]):
            text = f"(andb {p} {text})"
        return text, "bool"
    if isinstance(e, ast.BoolOp):
        if not isinstance(e.op, ast.And):
            reject(e, "`or` not accepted")
        return bool_and(e.values, sc, binds, e), "bool"
    if isinstance(e, ast.IfExp):
        ba, bb = [], []
        cell = {}
        def then_fn(s):
            cell["a"] = expr(e.body, s, ba)
            return "@THEN@"
        skeleton = guarded(e.test, sc, binds, then_fn, "@ELSE@")
        a, ta = cell["a"]
        b, tb = expr(e.orelse, sc, bb)
        if ta != tb:
            a, b, ta = as_key(a, ta, e), as_key(b, tb, e), "key"
        if ba or bb:
            x = fn.tmp()
            binds.append((x, skeleton.replace("@THEN@", with_binds(ba, f"Ret {a}")).replace("@ELSE@", with_binds(bb, f"Ret {b}"))))
            return x, ta
        return "(" + skeleton.replace("@THEN@", a).replace("@ELSE@", b) + ")", ta
    if isinstance(e, ast.ListComp):
        t, ety = seq(e, sc, binds)
        return t, ("list", ety)
    if isinstance(e, ast.DictComp):
        return dictcomp(e, sc, binds)
    if isinstance(e, ast.Dict):
        if e.keys:
            reject(e, "only the empty dict display is accepted")
        return "(py_dict_empty N)", "dict"
    if isinstance(e, ast.Call):
        return call(e, sc, binds)
    reject(e, "expression not accepted")

def bool_and(values, sc, binds, node):
    """a and b and ...: the first operand is evaluated here, the others only when it is true"""
    if len(values) == 1:
        if narrowing(values[0], sc):
            reject(node, "isinstance as the last operand of `and`")
        return cond(values[0], sc, binds)
    rb = []
    cell = {}
    def then_fn(s):
        cell["r"] = bool_and(values[1:], s, rb, node)
        return "@THEN@"
    skeleton = guarded(values[0], sc, binds, then_fn, "@ELSE@")
    if rb:
        x = sc.fn.tmp()
        binds.append((x, skeleton.replace("@THEN@", with_binds(rb, f"Ret {cell['r']}")).replace("@ELSE@", "Ret false")))
        return x
    return "(" + skeleton.replace("@THEN@", cell["r"]).replace("@ELSE@", "false") + ")"

def iterable(e, sc, binds):
    """what iterating over e produces: (text of the list of items, item type)"""
    if isinstance(e, ast.IfExp):
        n0 = len(binds)
        cell = {}
        def then_fn(s):
            cell["a"] = iterable(e.body, s, binds)
            return "@THEN@"
        skeleton = guarded(e.test, sc, binds, then_fn, "@ELSE@")
        n1 = len(binds)
        b, tb = iterable(e.orelse, sc, binds)
        a, ta = cell["a"]
        if len(binds) != n1 or ta != tb:
            reject(e, "conditional iterable: both branches must be pure and produce items of one type")
        return "(" + skeleton.replace("@THEN@", a).replace("@ELSE@", b) + ")", ta
    if isinstance(e, (ast.GeneratorExp, ast.ListComp)) or (isinstance(e, ast.Call) and is_builtin(e.func, "map", sc)):
        return seq(e, sc, binds)
    t, ty = expr_or_view(e, sc, binds)
    if isinstance(ty, tuple) and ty[0] in ("list", "view"):
        return t, ty[1]
    if ty == "str":
        return f"(py_str_chars {t})", "str"
    if ty == "tuple":
        return t, "elt"
    if ty == "dict":
        return f"(py_keys {t})", "key"
    if ty == "key":
        x = sc.fn.tmp()
        binds.append((x, f"py_iter_key {t}"))
        return x, "elt"
    reject(e, f"iteration over a value of type {ty} not accepted")

def pattern(target, ety, sc, node):
    """loop / comprehension target -> (binder text, scope extended, [names])"""
    if isinstance(target, ast.Name):
        if target.id in sc.env:
            reject(node, f"target {target.id} rebinds an existing local")
        s = sc.bind(target.id, ety, origin="self", node=node)
        s.frozen.add(target.id)
        return f"v_{target.id}", s, [target.id]
    if isinstance(target, ast.Tuple) and len(target.elts) == 2 and all(isinstance(x, ast.Name) for x in target.elts) \
            and isinstance(ety, tuple) and ety[0] == "pair" and target.elts[0].id != target.elts[1].id:
        s, names = sc, []
        for x, t in zip(target.elts, ety[1:]):
            if x.id in s.env:
                reject(node, f"target {x.id} rebinds an existing local")
            s = s.bind(x.id, t, origin="self", node=node)
            s.frozen.add(x.id)
            names.append(x.id)
        return f"'(v_{names[0]}, v_{names[1]})", s, names
    reject(target, f"target not accepted for items of type {ety}")

def one_generator(e):
    if len(e.generators) != 1 or e.generators[0].ifs or e.generators[0].is_async:
        reject(e, "comprehension: exactly one for clause, no condition")
    return e.generators[0]

def seq(e, sc, binds):
    """a generator expression / list comprehension / map(...) consumed on the spot: (text of the list, item type)"""
    if isinstance(e, ast.Call):                     # map(int, strs) / map(str, elements)
        plain_call(e, 2)
        it, ety = iterable(e.args[1], sc, binds)
        if is_builtin(e.args[0], "int", sc) and ety == "str":
            x = sc.fn.tmp()
            binds.append((x, f"py_map_res py_int_of_str {it}"))
            return x, "int"
        if is_builtin(e.args[0], "str", sc) and ety == "elt":
            return f"(map py_str_of_elt {it})", "str"
        if is_builtin(e.args[0], "str", sc) and ety == "int":
            return f"(map py_str_of_int {it})", "str"
        reject(e, f"map of this function over items of type {ety} not accepted")
    g = one_generator(e)
    it, ety = iterable(g.iter, sc, binds)
    pat, s, _ = pattern(g.target, ety, sc, e)
    eb = []
    t, ty = expr(e.elt, s, eb)
    if eb:
        x = sc.fn.tmp()
        binds.append((x, f"py_map_res (fun {pat} => {with_binds(eb, f'Ret {t}')}) {it}"))
        return x, ty
    return f"(map (fun {pat} => {t}) {it})", ty

def dictcomp(e, sc, binds):
    g = one_generator(e)
    it, ety = iterable(g.iter, sc, binds)
    pat, s, _ = pattern(g.target, ety, sc, e)
    kb = []
    k, tk = expr(e.key, s, kb)
    v, tv = expr(e.value, s, kb)
    acc, x = sc.fn.tmp("acc"), sc.fn.tmp()
    body = with_binds(kb, f"Ret (py_dict_set {acc} {as_key(k, tk, e)} {as_num(v, tv, e)})")
    binds.append((x, f"py_for {it} (py_dict_empty N) (fun {pat} {acc} => {body})"))
    return x, "dict"

def expr_or_view(e, sc, binds):
    """like expr, but also d.items() / d.keys() / d.values()"""
    if isinstance(e, ast.Call) and isinstance(e.func, ast.Attribute) and e.func.attr in ("items", "keys", "values"):
        plain_call(e, 0)
        d, td = expr(e.func.value, sc, binds)
        if td != "dict":
            reject(e, f".{e.func.attr}() of a value of type {td}")
        ety = {"items": PAIR_KV, "keys": "key", "values": "num"}[e.func.attr]
        return f"(py_{e.func.attr} {d})", ("view", ety)
    return expr(e, sc, binds)

def dict_origin(e, sc):
    """where the dict denoted by e comes from: "fresh", ("param", p) or "self" """
    if isinstance(e, ast.Name):
        return sc.origin.get(e.id, "fresh")
    if isinstance(e, ast.Attribute):
        return "self"
    return "fresh"         # displays, comprehensions; calls are handled where they are translated

def call(e, sc, binds):
    fn, f = sc.fn, e.func
    if isinstance(f, ast.Attribute):
        if is_module_attr(f, "math", "isclose"):
            plain_call(e, 2)
            a, ta = expr(e.args[0], sc, binds)
            b, tb = expr(e.args[1], sc, binds)
            return f"(py_isclose N {as_num(a, ta, e)} {as_num(b, tb, e)})", "bool"
        if f.attr == "join" and isinstance(f.value, ast.Constant):
            plain_call(e, 1)
            it, ety = iterable(e.args[0], sc, binds)
            if ety != "str":
                reject(e, f"join of items of type {ety}")
            return f"(py_join {str_const(f.value)} {it})", "str"
        if f.attr == "split":
            plain_call(e, 1)
            s, ts = expr(f.value, sc, binds)
            if ts != "str":
                reject(e, f".split of a value of type {ts}")
            return f"(py_split {s} {char_const(e.args[0])})", ("list", "str")
        if f.attr == "get":
            plain_call(e, 2)
            d, td = expr(f.value, sc, binds)
            k, tk = expr(e.args[0], sc, binds)
            v, tv = expr(e.args[1], sc, binds)
            if td != "dict":
                reject(e, f".get of a value of type {td}")
            return f"(py_dict_get {d} {as_key(k, tk, e)} {as_num(v, tv, e)})", "num"
        reject(e, "method call not accepted")
    if not isinstance(f, ast.Name):
        reject(e, "call not accepted")
    if f.id in sc.env:
        reject(e, "call of a local name")
    if f.id in fn.sigs:
        return call_translated(e, sc, binds, fn.sigs[f.id])
    if f.id not in BUILTINS:
        reject(e, "call of an unknown function")
    if f.id == "all":
        plain_call(e, 1)
        if not isinstance(e.args[0], ast.GeneratorExp):
            reject(e, "all(<generator expression>) expected")
        g = one_generator(e.args[0])
        it, ety = iterable(g.iter, sc, binds)
        pat, s, _ = pattern(g.target, ety, sc, e)
        eb = []
        t = cond(e.args[0].elt, s, eb)
        if eb:
            x = fn.tmp()
            binds.append((x, f"py_all_res (fun {pat} => {with_binds(eb, f'Ret {t}')}) {it}"))
            return x, "bool"
        return f"(forallb (fun {pat} => {t}) {it})", "bool"
    if f.id == "tuple":
        plain_call(e, 1)
        it, ety = iterable(e.args[0], sc, binds)
        if ety == "int":
            return f"(py_tuple_of_ints {it})", "tuple"
        if ety == "elt":
            return it, "tuple"
        reject(e, f"tuple of items of type {ety} not accepted")
    if f.id == "list":
        plain_call(e, 1)
        it, ety = iterable(e.args[0], sc, binds)
        return it, ("list", ety)
    if f.id == "sum":
        plain_call(e, 1)
        it, ety = iterable(e.args[0], sc, binds)
        if ety != "num":
            reject(e, f"sum of items of type {ety} not accepted")
        return f"(py_sum N {it})", "num"
    if f.id == "max":
        plain_call(e, 1)
        t, ty = expr(e.args[0], sc, binds)
        if ty != ("list", "int"):
            reject(e, f"max of a value of type {ty} not accepted")
        x = fn.tmp()
        binds.append((x, f"py_max {t}"))
        return x, "int"
    if f.id == "set":
        plain_call(e, 1)
        t, ty = expr(e.args[0], sc, binds)
        if ty != ("list", "int"):
            reject(e, f"set of a value of type {ty} not accepted")
        return f"(py_set {t})", ("set", "int")
    if f.id == "len":
        plain_call(e, 1)
        t, ty = expr(e.args[0], sc, binds)
        if isinstance(ty, tuple) and ty[0] in ("list", "set") or ty == "tuple":
            return f"(py_len {t})", "int"
        if ty == "str":
            return f"(py_len (py_str_chars {t}))", "int"
        if ty == "key":
            x = fn.tmp()
            binds.append((x, f"py_len_key {t}"))
            return x, "int"
        reject(e, f"len of a value of type {ty} not accepted")
    reject(e, f"{f.id}(...) is not accepted in this position")

def call_translated(e, sc, binds, sig):
    """f(args) / Class(args): arguments left to right, keywords by parameter name, constant defaults"""
    fn = sc.fn
    if any(isinstance(a, ast.Starred) for a in e.args) or any(k.arg is None for k in e.keywords):
        reject(e, "starred arguments not accepted")
    params = sig["params"]
    if len(e.args) > len(params):
        reject(e, "too many arguments")
    given = {}
    for p, a in zip(params, e.args):
        given[p[0]] = a
    for k in e.keywords:
        if k.arg in given or k.arg not in [p[0] for p in params]:
            reject(e, f"keyword argument {k.arg} not accepted")
        given[k.arg] = k.value
    # evaluation order: positional arguments, then keyword arguments, as written
    texts = {}
    for name, a in given.items():
        pty = [p[1] for p in params if p[0] == name][0]
        t, ty = expr(a, sc, binds)
        if pty == "num":
            t = as_num(t, ty, a)
        elif ty != pty:
            reject(a, f"argument of type {ty} where {pty} is expected")
        texts[name] = t
    origin = "fresh"
    for name, pty, dflt in params:
        if name not in given:
            if dflt is None:
                reject(e, f"argument {name} missing")
            texts[name] = dflt
            continue
        if pty != "dict":
            continue
        a = given[name]
        keeps = name in sig["mutates"] or name in sig["ret_params"]
        if not keeps:
            continue
        o = dict_origin(a, sc)
        if name in sig["mutates"]:
            if o == "self" or (not isinstance(a, ast.Name) and not isinstance(a, (ast.Call, ast.Dict, ast.DictComp))):
                reject(a, f"{src(a)} is handed to a parameter that the callee assigns into")
            if isinstance(o, tuple):
                fn.mutates.add(o[1])
        if name in sig["ret_params"]:
            origin = o
        if isinstance(a, ast.Name):
            if sc.in_loop:
                reject(a, "a dict is handed over to a callee inside a loop")
            sc.dead.add(a.id)            # consumed: the callee keeps / changes the object
    x = fn.tmp()
    binds.append((x, " ".join([sig["coq"], "N"] + [texts[p[0]] for p in params])))
    if sig["ret"] == "dict":
        sc.origin[x] = origin
        fn.last_call_origin = (x, origin)
    return x, sig["ret"]

# ----------------------------------------------------------------------------- statements
def always_exits(stmts):
    if not stmts:
        return False
    s = stmts[-1]
    if isinstance(s, (ast.Return, ast.Raise)):
        return True
    if isinstance(s, ast.If) and s.orelse:
        return always_exits(s.body) and always_exits(s.orelse)
    return False

def assigned_names(stmts):
    """names (re)bound or assigned into by the statements, nested blocks included, in source order"""
    out = []
    def add(t):
        if isinstance(t, ast.Name):
            if t.id not in out:
                out.append(t.id)
        elif isinstance(t, ast.Subscript):
            add(t.value)
        elif isinstance(t, (ast.Tuple, ast.List)):
            for x in t.elts:
                add(x)
    def visit(s):
        if isinstance(s, ast.Assign):
            for t in s.targets:
                add(t)
        elif isinstance(s, (ast.AugAssign, ast.AnnAssign)):
            add(s.target)
        elif isinstance(s, ast.For):
            add(s.target)
        for n in ast.walk(s):
            if isinstance(n, ast.NamedExpr):
                add(n.target)
        for f in ("body", "orelse"):
            for c in getattr(s, f, []) or []:
                visit(c)
    for s in stmts:
        visit(s)
    return out

def state_text(names):
    return f"v_{names[0]}" if len(names) == 1 else "(" + ", ".join(f"v_{x}" for x in names) + ")"

def state_pat(names):
    return f"v_{names[0]}" if len(names) == 1 else "'(" + ", ".join(f"v_{x}" for x in names) + ")"

def result_origin(value, ty, sc, fn):
    if ty != "dict":
        return
    if isinstance(value, ast.Name):
        o = sc.origin.get(value.id, "fresh")
    elif isinstance(value, ast.Attribute):
        o = "self"
    elif isinstance(value, ast.Call) and fn.last_call_origin is not None:
        o = fn.last_call_origin[1]
    else:
        o = "fresh"
    if o == "self":
        reject(value, "the dict of self is returned (aliasing is not modelled)")
    fn.ret_origins.add(o)

def block(stmts, sc, state, tail):
    """statements -> text of type `result T`: T the function's result type (state None) or the loop state
       tail: nothing of the function follows this block"""
    fn = sc.fn
    if not stmts:
        if state is not None:
            return f"Ret {state_text(state)}"
        reject(fn.node, "control can reach the end of the function without a return")
    s, rest = stmts[0], stmts[1:]
    head = f"(* {src(s)} *)\n    "
    if isinstance(s, ast.Expr):
        v = s.value
        if isinstance(v, ast.Constant) and isinstance(v.value, str):
            return block(rest, sc, state, tail)
        if isinstance(v, ast.Call) and is_module_attr(v.func, "warnings", "warn"):
            plain_call(v, 1)
            if not (isinstance(v.args[0], ast.Constant) and isinstance(v.args[0].value, str)):
                reject(s, "warnings.warn(<constant text>) expected")
            return "(* warnings.warn(...): no effect on the values *)\n    " + block(rest, sc, state, tail)
        reject(s, "expression statement not accepted")
    if isinstance(s, (ast.Assign, ast.AnnAssign)):
        if isinstance(s, ast.Assign):
            if len(s.targets) != 1:
                reject(s, "multiple assignment targets")
            target = s.targets[0]
        else:
            target = s.target
            if s.value is None:
                reject(s, "annotation without a value")
        if isinstance(target, ast.Attribute):
            if not (fn.is_init and isinstance(target.value, ast.Name) and target.value.id == "self" and target.attr == ATTR):
                reject(s, "attribute assignment not accepted")
            if rest or not tail or state is not None:
                reject(s, f"self.{ATTR} must be assigned as the last statement of a path through __init__")
            binds = []
            fn.last_call_origin = None
            t, ty = expr(s.value, sc, binds)
            if ty != "dict":
                reject(s, f"self.{ATTR} is assigned a value of type {ty}")
            result_origin(s.value, ty, sc, fn)
            return head + with_binds(binds, f"Ret {t}")
        if isinstance(target, ast.Subscript):
            return head + subscript_assign(target, s.value, None, s, rest, sc, state, tail)
        if not isinstance(target, ast.Name):
            reject(s, "assignment target not accepted")
        x = target.id
        if x in sc.frozen or x in sc.iterating:
            reject(s, f"{x} is a loop / comprehension variable or a dict being iterated")
        binds = []
        t, ty = expr(s.value, sc, binds)
        if isinstance(ty, tuple) and ty[0] in ("view", "set"):
            reject(s, "a view / set cannot be stored in a local")
        if isinstance(s, ast.AnnAssign) and ANNOT.get(ast.unparse(s.annotation)) != ty:
            reject(s, f"annotation does not fit the value of type {ty}")
        if x in sc.env and sc.env[x] != ty:
            reject(s, f"{x} is assigned values of different types")
        origin = None
        if ty == "dict":
            origin = dict_origin(s.value, sc)
            if isinstance(s.value, ast.Call):
                origin = sc.origin.get(t, "fresh")
            if isinstance(s.value, ast.Name):
                sc = sc.copy()
                sc.dead.add(s.value.id)          # a move: one live name per dict
        s2 = sc.bind(x, ty, origin=origin, node=s)
        return head + with_binds(binds, f"let v_{x} : {coqty(ty)} := {t} in\n    " + block(rest, s2, state, tail))
    if isinstance(s, ast.AugAssign):
        if not isinstance(s.target, ast.Subscript):
            reject(s, "augmented assignment is accepted on d[k] only")
        return head + subscript_assign(s.target, s.value, s.op, s, rest, sc, state, tail)
    if isinstance(s, ast.If):
        binds = []
        if not rest:
            else_text = block(s.orelse, sc.copy(), state, tail)
            text = guarded(s.test, sc, binds, lambda sb: block(s.body, sb.copy(), state, tail), else_text)
        else:
            if s.orelse or not always_exits(s.body):
                reject(s, "an if statement followed by more statements must be a guard: no else, body always returns / raises")
            else_text = block(rest, sc.copy(), state, tail)
            text = guarded(s.test, sc, binds, lambda sb: block(s.body, sb.copy(), state, False), else_text)
        return f"(* if {src(s.test)} *)\n    " + with_binds(binds, text)
    if isinstance(s, ast.For):
        return for_loop(s, rest, sc, state, tail)
    if isinstance(s, ast.Return):
        if state is not None:
            reject(s, "return inside a loop")
        if s.value is None or fn.is_init:
            reject(s, "return without a value / return in __init__")
        binds = []
        fn.last_call_origin = None
        t, ty = expr(s.value, sc, binds)
        if ty != fn.ret:
            reject(s, f"returned value of type {ty}, {fn.ret} is expected")
        result_origin(s.value, ty, sc, fn)
        return head + with_binds(binds, f"Ret {t}")
    if isinstance(s, ast.Raise):
        e = s.exc
        if s.cause is not None or not (isinstance(e, ast.Call) and isinstance(e.func, ast.Name)
                                       and e.func.id in ("ValueError", "RuntimeError") and e.func.id not in sc.env):
            reject(s, "only `raise ValueError(...)` / `raise RuntimeError(...)` accepted")
        plain_call(e, 1)
        if not (isinstance(e.args[0], ast.Constant) and isinstance(e.args[0].value, str)):
            reject(s, "exception message must be a constant text")
        return head + f"Raise {e.func.id}"
    reject(s, "statement not accepted")

def subscript_assign(target, value, op, s, rest, sc, state, tail):
    """d[k] = e   /   d[k] op= e"""
    fn = sc.fn
    if not isinstance(target.value, ast.Name):
        reject(s, "only a local or parameter name can be assigned into")
    d = target.value.id
    if d not in sc.env or sc.env[d] != "dict" or d in sc.dead:
        reject(s, f"{d} is not a live dict local")
    if d in sc.iterating and not (isinstance(target.slice, ast.Name) and target.slice.id == sc.iterating[d]):
        reject(s, f"{d} is assigned into while it is iterated, at a key other than the loop's key variable")
    o = sc.origin.get(d, "fresh")
    if o == "self":
        reject(s, "assignment into a dict borrowed from self")
    if isinstance(o, tuple):
        fn.mutates.add(o[1])
    binds = []
    if op is None:                      # the right-hand side first, then the key
        v, tv = expr(value, sc, binds)
        k, tk = expr(target.slice, sc, binds)
        new = as_num(v, tv, s)
    else:                               # the key, d[k], the right-hand side, the operation
        k, tk = expr(target.slice, sc, binds)
        old = fn.tmp()
        binds.append((old, f"py_dict_getitem v_{d} {as_key(k, tk, s)}"))
        v, tv = expr(value, sc, binds)
        if not isinstance(op, (ast.Mult, ast.Add)):
            reject(s, "augmented assignment operator not accepted")
        new = f"({'n_mul' if isinstance(op, ast.Mult) else 'n_add'} N {old} {as_num(v, tv, s)})"
    text = f"let v_{d} : pydict N := py_dict_set v_{d} {as_key(k, tk, s)} {new} in\n    " + block(rest, sc, state, tail)
    return with_binds(binds, text)

def for_loop(s, rest, sc, state, tail):
    fn = sc.fn
    if s.orelse:
        reject(s, "for ... else not accepted")
    binds = []
    it, ety = iterable(s.iter, sc, binds)
    carried = [x for x in assigned_names(s.body) if x in sc.env]
    pat, body_sc, targets = pattern(s.target, ety, sc, s)
    for x in carried:
        if x in targets or x in sc.frozen:
            reject(s, f"{x} is a loop / comprehension variable and is assigned in the loop body")
    if not carried:
        reject(s, "loop body re-binds no local that is bound before the loop")
    # which dict does the loop iterate over?
    base = s.iter
    if isinstance(base, ast.Call) and isinstance(base.func, ast.Attribute) and base.func.attr in ("items", "keys", "values"):
        view, base = base.func.attr, base.func.value
    else:
        view = "keys"
    if isinstance(base, ast.Name) and sc.env.get(base.id) == "dict":
        if base.id in sc.iterating:
            reject(s, "nested iteration over one dict")
        keyvar = targets[0] if view in ("keys", "items") else None
        body_sc.iterating[base.id] = keyvar
    body_sc.in_loop = True
    body = block(s.body, body_sc, carried, False)
    after = sc.copy()
    after.dead |= {x for x in sc.env if x in body_sc.dead}
    text = (f"bind (py_for {it} {state_text(carried)} (fun {pat} {state_pat(carried)} =>\n    {body})) "
            f"(fun {state_pat(carried)} =>\n    {block(rest, after, state, tail)})")
    return f"(* for {src(s.target)} in {src(s.iter)} *)\n    " + with_binds(binds, text)

# ----------------------------------------------------------------------------- functions
def function(fdef, name, is_method, sigs):
    if fdef.decorator_list:
        reject(fdef, "decorated function (a decorator may change what the call returns)")
    a = fdef.args
    if a.vararg or a.kwarg or a.kwonlyargs or a.posonlyargs or a.kw_defaults:
        reject(fdef, "only plain positional parameters accepted")
    is_init = is_method and name == "__init__"
    coqname = (f"{CLASS}_{name.strip('_')}" if is_method else name.lstrip("_")) + "_gen"
    fn = Fn(name, coqname, sigs, is_method, is_init)
    fn.node = fdef
    args = list(a.args)
    if is_method:
        if not args or args[0].arg != "self" or args[0].annotation is not None:
            reject(fdef, "first parameter of a method must be self")
        args = args[1:]
    defaults = [None] * (len(args) - len(a.defaults)) + list(a.defaults)
    sc = Scope(fn)
    if is_method and not is_init:
        fn.params.append((f"self_{ATTR}", "dict", None))
    for p, d in zip(args, defaults):
        if p.annotation is None:
            ty = UNANNOTATED.get((name, p.arg))
        else:
            ty = ANNOT.get(ast.unparse(p.annotation))
        if ty is None:
            reject(p, "parameter annotation not accepted")
        if p.arg in sc.env:
            reject(p, "repeated parameter")
        dt = None
        if d is not None:
            if not (isinstance(d, ast.Constant) and isinstance(d.value, bool) and ty == "bool"):
                reject(d, "default value must be a bool constant of a bool parameter")
            dt = "true" if d.value else "false"
        sc = sc.bind(p.arg, ty, origin=("param", p.arg), node=p)
        fn.params.append((p.arg, ty, dt))
    if fdef.returns is None:
        fn.ret = UNANNOTATED_RET.get(name)
    else:
        fn.ret = ANNOT.get(ast.unparse(fdef.returns))
    if fn.ret is None:
        reject(fdef, "return annotation not accepted")
    body = strip_docstring(fdef.body)
    if not body:
        reject(fdef, "empty body")
    text = block(body, sc, None, True)
    rp = {o[1] for o in fn.ret_origins if isinstance(o, tuple)}
    if len(rp) > 1:
        reject(fdef, "different parameters are returned on different paths")
    sig = " ".join(f"(v_{p} : {coqty(ty)})" for p, ty, _ in fn.params)
    notes = ""
    ds = [(p, d) for p, _, d in fn.params if d is not None]
    if ds:
        notes += "(* defaults in the source: " + ", ".join(f"{p} = {d}" for p, d in ds) + " *)\n"
    if fn.mutates:
        notes += ("(* the source assigns into the dict passed as " + ", ".join(sorted(fn.mutates)) +
                  ": the caller's object is left in the state that this function computes for it *)\n")
    if rp:
        notes += "(* the returned dict is the object passed as " + ", ".join(sorted(rp)) + " *)\n"
    sigs[CLASS if is_init else (name if not is_method else f"{CLASS}.{name}")] = dict(
        coq=coqname, params=list(fn.params), ret=fn.ret, mutates=set(fn.mutates), ret_params=rp)
    return notes + f"Definition {coqname} (N : pynum) {sig} : result ({coqty(fn.ret)}) :=\n    {text}.\n"

HEADER = """(* GENERATED by tr/tr_distributions.py from src/orquestra/quantum/distributions/_measurement_outcome_distribution.py
   - do not edit.  Every definition below is the construct-by-construct translation of the Python function of the
   same name; the meaning of the building blocks is fixed in Stats/DistTrSupport.v; agreement with the model
   Stats/Dist.v is proved in Stats/DistGenProofs.v. *)
Require Import Coq.ZArith.ZArith Coq.QArith.QArith Coq.Lists.List Coq.Strings.String Coq.Strings.Ascii Coq.Bool.Bool.
Require Import OQ.Stats.DistTrSupport.
Import ListNotations.

"""

def translate(source):
    tree = ast.parse(source)
    methods = check_module(tree)
    sigs = {}
    text = HEADER
    for f, is_method in FUNCS:
        fdef = methods[f] if is_method else find_function(tree, f)
        label = f"{CLASS}.{f}" if is_method else f
        text += f"(* ------------------------------------------------------------------ {label} *)\n"
        text += function(fdef, f, is_method, sigs) + "\n"
    if FORBIDDEN_TEXT.search(text.replace("(*", "").replace("*)", "")):
        raise Reject("generated text contains a forbidden word")
    return text

def run(repo, out):
    target = os.path.join(out, OUTPUTS[0])
    try:
        text = translate(open(os.path.join(repo, SRC)).read())
    except Reject as e:
        # fail closed: no stale definitions from an earlier source may survive a rejection; the file below does not
        # compile, so everything that depends on the generated definitions stops building until the source is accepted
        why = re.sub(r"[^A-Za-z0-9 _.,:=()\[\]'-]", " ", str(e))[:300].replace("(*", "( *").replace("*)", "* )")
        if FORBIDDEN_TEXT.search(why):
            why = "(reason elided)"
        write_if_changed(target, "(* GENERATED by tr/tr_distributions.py - THE TRANSLATOR REJECTED THE SOURCE:\n   " + why
                         + " *)\nDefinition translator_rejected_the_source : False := I.\n")
        raise
    write_if_changed(target, text)
    print("tr_distributions: ok")

if __name__ == "__main__":
    main_wrapper(run)
