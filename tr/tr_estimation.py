#!/usr/bin/env python3
"""Translate the estimation functions of estimation/_estimation.py to Gallina, statement by statement
(fail-closed: anything outside the grammar below is rejected with exit code 3).

  _estimation.py : evaluate_estimation_circuits, split_estimation_tasks_to_measure,
                   evaluate_non_measured_estimation_tasks, estimate_expectation_values_by_averaging,
                   calculate_exact_expectation_values                                    -> Gen/EstimationGen.v

The generated definitions are built from the hand-written reading of the Python constructs in
coq/Stats/EstimationTrSupport.v; coq/Stats/EstimationGenProofs.v proves, on every run, that the generated
definitions agree with the model of Stats/Estimation.v that the C15 theorems are about.  Nothing is recognised
"as a whole": a function is accepted iff each of its statements and expressions is in the grammar, and each
construct is mapped to its own piece of Gallina.

Accepted grammar
  module      `import numpy as np`, `import sympy`; cast, Dict, List, Optional, Tuple from typing; CircuitRunner,
              EstimationTask, WavefunctionSimulator, ExpectationValues, expectation_values_to_real bound exactly
              once by their `from ..<module> import`; the five functions defined exactly once, undecorated; the
              builtins used (len, sum, zip, enumerate, range, RuntimeError) not rebound at module level.
  parameters  plain positional, annotated, no defaults.  Annotations give the types:
              int, bool, float|complex (num), EstimationTask (task), ExpectationValues (ev), CircuitRunner (runner),
              WavefunctionSimulator (sim), Dict[sympy.Symbol, float] (symmap), List[X], Tuple[X, Y, ...], Optional[X].
              The type computed for the returned expression must equal the annotated one (except under cast).
  expressions names; int and float literals; None; [e1, ...]; (e1, ...);
              task.operator, task.circuit, task.number_of_shots, operator.is_constant, operator.terms,
              term.coefficient; int + int; a and b, a or b (short-circuit; operands bool); not b (bool), not xs (list);
              o == k, o != k (Optional[int] with int; never raises), o > k, o >= k, o < k, o <= k (TypeError on
              None), the same on ints; o is None, o is not None;
              len(xs); sum(xs) on numbers; cast(T, x) (= x); np.asarray(nested list of numbers);
              EstimationTask(operator=, circuit=, number_of_shots=) (positional or keyword);
              ExpectationValues(values, correlations=, estimator_covariances=);
              circuit.bind(symbols_map); expectation_values_to_real(ev);
              runner.run_batch_and_measure(circuits, shots), measurements.get_expectation_values(operator),
              simulator.get_exact_expectation_values(circuit, operator) (these three may raise);
              a call of an already translated function with positional arguments (may raise);
              [e for p in it] and, as the argument of sum, (e for p in it): one for clause, no condition, p a name
              or a tuple of two or three names; it a list, zip(xs, ys), enumerate(xs) or range(n).
  statements  x = e;  x: T = e;  x: T (no effect);  a, b, ... = e (e a tuple);  a, b[, c] = zip(*rows);
              x.append(e), x[i] = e on a local list that is bound only to freshly built lists and occurs nowhere
              except in its bindings, its mutations, len(x), as an iterable, under `not`, and in the return statement;
              for p in it: ... (p a name or two names);  if c: ... [else: ...];  raise RuntimeError("...") inside
              a for / if;  return e as the last statement of the function.
              A for loop may not assign or mutate a name that occurs in its iterable.  Parameters and locals may not be
              named like a builtin, an imported name or a translated function the grammar relies on.
  compound    A for / if at function level becomes a computation over a state record with one field per local
              assigned or mutated inside it (type `option T`, initially None, when the local is not bound before:
              reading it goes through py_local, i.e. UnboundLocalError); nested for / if share the record of the
              outermost one.  Loop and comprehension targets are not visible afterwards and may not rebind a local.
              The fields are named by position (c0, c1, ...), so renaming a local does not change the definitions.
Evaluation order is Python's: sub-expressions that can raise are bound left to right before the pure remainder of
the statement; the operands of and / or after the first are evaluated only when Python evaluates them.
"""
OUTPUTS = ['EstimationGen.v']      # generated files (the driver uses this to decide which properties depend on this translator)
import ast, os, re
from fractions import Fraction
from trlib import *

FUNCS = ["evaluate_estimation_circuits", "split_estimation_tasks_to_measure", "evaluate_non_measured_estimation_tasks",
         "estimate_expectation_values_by_averaging", "calculate_exact_expectation_values"]      # in dependency order
SOURCE = "src/orquestra/quantum/estimation/_estimation.py"
BUILTINS = ["len", "sum", "zip", "enumerate", "range", "RuntimeError"]
# name -> (module, level, original name); module None: plain `import <original> as <name>`
IMPORTED = {"np": (None, 0, "numpy"), "sympy": (None, 0, "sympy"),
            "cast": ("typing", 0, "cast"), "Dict": ("typing", 0, "Dict"), "List": ("typing", 0, "List"),
            "Optional": ("typing", 0, "Optional"), "Tuple": ("typing", 0, "Tuple"),
            "CircuitRunner": ("api.circuit_runner", 2, "CircuitRunner"),
            "EstimationTask": ("api.estimation", 2, "EstimationTask"),
            "WavefunctionSimulator": ("api.wavefunction_simulator", 2, "WavefunctionSimulator"),
            "ExpectationValues": ("measurements", 2, "ExpectationValues"),
            "expectation_values_to_real": ("measurements", 2, "expectation_values_to_real")}
FORBIDDEN_TEXT = re.compile(r"Admitted|admit|Axiom|Parameter|Conjecture|bypass_check|Unset|type-in-type|impredicative")

# ----------------------------------------------------------------------------- types
class TVar:
    n = 0
    def __init__(self):
        TVar.n += 1
        self.id, self.ref = TVar.n, None
    all = {}

def tvar():
    t = TVar()
    TVar.all[t.id] = t
    return t

def TL(t): return ("list", t)
def TO(t): return ("opt", t)
def TT(*ts): return ("tuple",) + tuple(ts)

def resolve(t):
    while isinstance(t, TVar) and t.ref is not None:
        t = t.ref
    if isinstance(t, tuple):
        return (t[0],) + tuple(resolve(x) for x in t[1:])
    return t

def occurs(v, t):
    t = resolve(t)
    return t is v or (isinstance(t, tuple) and any(occurs(v, x) for x in t[1:]))

def unify(a, b):
    a, b = resolve(a), resolve(b)
    if a is b:
        return True
    if isinstance(a, TVar):
        if occurs(a, b):
            return False
        a.ref = b
        return True
    if isinstance(b, TVar):
        return unify(b, a)
    if isinstance(a, str) or isinstance(b, str):
        return a == b
    return a[0] == b[0] and len(a) == len(b) and all(unify(x, y) for x, y in zip(a[1:], b[1:]))

BASE = {"int": "Z", "bool": "bool", "num": "(num (w_N W))", "task": "(py_task (w_op W) (w_circ W))", "op": "(w_op W)",
        "term": "(w_term W)", "circ": "(w_circ W)", "symmap": "(w_symmap W)", "meas": "(w_meas W)",
        "ev": "(py_ev (num (w_N W)))", "runner": "(w_runner W)", "sim": "(w_sim W)"}

def cty(t):
    t = resolve(t)
    if isinstance(t, TVar):
        return f"@@T{t.id}@@"
    if isinstance(t, str):
        return BASE[t]
    if t[0] == "list":
        return f"(list {cty(t[1])})"
    if t[0] == "opt":
        return f"(option {cty(t[1])})"
    if t[0] == "tuple":
        return "(" + " * ".join(cty(x) for x in t[1:]) + ")"
    raise Reject(f"internal: type {t}")

def has_list(t):
    t = resolve(t)
    return isinstance(t, tuple) and (t[0] == "list" or any(has_list(x) for x in t[1:]))

def tname(t):
    t = resolve(t)
    if isinstance(t, TVar):
        return "?"
    if isinstance(t, str):
        return t
    return t[0] + "[" + ", ".join(tname(x) for x in t[1:]) + "]"

ANNOT = {"int": "int", "bool": "bool", "float": "num", "complex": "num", "EstimationTask": "task",
         "ExpectationValues": "ev", "CircuitRunner": "runner", "WavefunctionSimulator": "sim",
         "Dict[sympy.Symbol, float]": "symmap"}

def ann(a):
    """annotation -> type"""
    if a is None:
        raise Reject("missing annotation (parameter and result types come from the annotations)")
    text = ast.unparse(a)
    if text in ANNOT:
        return ANNOT[text]
    if isinstance(a, ast.Subscript) and isinstance(a.value, ast.Name):
        h, x = a.value.id, a.slice
        if h == "List":
            return TL(ann(x))
        if h == "Optional":
            return TO(ann(x))
        if h == "Tuple" and isinstance(x, ast.Tuple) and len(x.elts) >= 2:
            return TT(*[ann(y) for y in x.elts])
    reject(a, "annotation not accepted")

def src(node):
    t = " ".join(ast.unparse(node).split("\n")[0].split())
    t = t.replace("(*", "( *").replace("*)", "* )")
    return "(source elided)" if FORBIDDEN_TEXT.search(t) or '"' in t or "'" in t or not t.isascii() else t

def vname(x, node=None):
    if not re.fullmatch(r"[A-Za-z_][A-Za-z0-9_]*", x):
        reject(node, f"name {x!r} not accepted")
    return "v_" + x

# ----------------------------------------------------------------------------- module-level checks
def bound_names(tree):
    """every name bound at module level, with the node that binds it"""
    out = []
    for n in tree.body:
        if isinstance(n, (ast.FunctionDef, ast.AsyncFunctionDef, ast.ClassDef)):
            out.append((n.name, n))
        elif isinstance(n, ast.Import):
            for a in n.names:
                out.append(((a.asname or a.name).split(".")[0], n))
        elif isinstance(n, ast.ImportFrom):
            for a in n.names:
                if a.name == "*":
                    reject(n, "star import (may rebind anything)")
                out.append((a.asname or a.name, n))
        elif isinstance(n, ast.Expr) and isinstance(n.value, ast.Constant):
            pass
        else:
            for m in ast.walk(n):
                if isinstance(m, ast.Name) and isinstance(m.ctx, (ast.Store, ast.Del)):
                    out.append((m.id, n))
            if not isinstance(n, (ast.Assign, ast.AnnAssign)):
                reject(n, "module-level statement not accepted")
    return out

def check_module(tree):
    names = bound_names(tree)
    def binders(x):
        return [n for (y, n) in names if y == x]
    for b in BUILTINS:
        if binders(b):
            reject(binders(b)[0], f"builtin {b} is rebound at module level")
    for x, (mod, level, orig) in IMPORTED.items():
        bs = binders(x)
        if mod is None:
            ok = len(bs) == 1 and isinstance(bs[0], ast.Import) and \
                any(a.name == orig and (a.asname or a.name) == x for a in bs[0].names)
        else:
            ok = len(bs) == 1 and isinstance(bs[0], ast.ImportFrom) and bs[0].module == mod and bs[0].level == level and \
                any(a.name == orig and a.asname is None for a in bs[0].names)
        if not ok:
            reject(bs[0] if bs else tree, f"{x} must be bound exactly once, by its import from {mod or orig}")
    for f in FUNCS:
        bs = binders(f)
        if len(bs) != 1 or not isinstance(bs[0], ast.FunctionDef):
            reject(bs[0] if bs else tree, f"{f} must be defined exactly once at module level")

# ----------------------------------------------------------------------------- translation context
class Fn:
    """per-function state: fresh names, emitted auxiliary definitions, signatures of translated functions"""
    def __init__(self, name, sigs, tracked):
        self.name, self.sigs, self.tracked = name, sigs, tracked
        self.fresh = 0
        self.nbodies = 0
        self.nstates = 0
        self.defs = []           # text of records / loop bodies, in dependency order

    def tmp(self):
        self.fresh += 1
        return f"x{self.fresh}"

def maybe(t):
    return isinstance(t, tuple) and t[0] == "maybe"

class Scope:
    """names visible at a program point.
       plain: name -> type, read as v_<name>   (function-level locals, and inside a compound statement: the
              function-level locals it does not assign, the targets of the enclosing loops / comprehensions)
              a type ("maybe", T) is a local that may be unbound: v_<name> : option T
       comp : None at function level; inside a for / if the dict of the outermost enclosing compound statement,
              whose comp["carried"]: name -> type | None (not yet known) | ("maybe", T), read as (<projection> W st)
       own  : the targets bound inside the current body definition; every other plain name read in the body is
              recorded in `used` (these become the parameters of the body's definition)"""
    def __init__(self, fn, plain, comp=None, own=(), used=None):
        self.fn, self.plain, self.comp, self.own = fn, plain, comp, list(own)
        self.used = [] if used is None else used

    def child(self, targets):
        """scope of a comprehension element: the targets are extra plain names, reads are recorded in the same list"""
        return Scope(self.fn, {**self.plain, **dict(targets)}, self.comp, self.own + [x for x, _ in targets], self.used)

    def known(self, x):
        return x in self.plain or (self.comp is not None and x in self.comp["carried"])

    def note_used(self, x):
        if self.comp is not None and x not in self.own and x not in self.used:
            self.used.append(x)

    def field(self, x):
        return f"{self.comp['prefix']}_c{list(self.comp['carried']).index(x)}"

    def read(self, node, binds):
        x = node.id
        if self.comp is not None and x in self.comp["carried"]:
            ty = self.comp["carried"][x]
            if ty is None:
                reject(node, "local assigned in the compound statement is read before its first assignment in it")
            text = f"({self.field(x)} W st)"
        elif x in self.plain:
            ty = self.plain[x]
            text = vname(x, node)
            self.note_used(x)
        else:
            reject(node, "unknown name")
        if maybe(ty):           # maybe unbound
            t = self.fn.tmp()
            binds.append((t, f"py_local {text}"))
            return t, ty[1]
        return text, ty

def shadowed(name_node, sc):
    if sc.known(name_node.id):
        reject(name_node, f"{name_node.id} is shadowed by a local")

def with_binds(binds, text):
    """bind e1 (fun x1 => bind e2 (fun x2 => text))"""
    for x, t in reversed(binds):
        if x.startswith("'") and t.startswith("Val "):          # unpacking of a tuple that is already a value
            text = f"let {x} := {t[4:]} in\n    {text}"
        else:
            text = f"bind ({t}) (fun {x} =>\n    {text})"
    return text

def coerce(text, ty, want, node):
    """the value `text` of type ty where a value of type `want` is expected"""
    ty, want = resolve(ty), resolve(want)
    if isinstance(want, tuple) and want[0] == "opt" and not (isinstance(ty, tuple) and ty[0] == "opt"):
        if isinstance(ty, TVar):
            reject(node, "cannot tell whether this value is None")
        return f"(Some {coerce(text, ty, want[1], node)})"
    if want == "num" and ty == "int":
        return f"(n_int (w_N W) {text})"
    if not unify(ty, want):
        reject(node, f"value of type {tname(ty)} where {tname(want)} is expected")
    return text

# ----------------------------------------------------------------------------- expressions
def plain_call(e, nargs=None):
    if e.keywords:
        reject(e, "keyword arguments not accepted here")
    if any(isinstance(a, ast.Starred) for a in e.args):
        reject(e, "starred arguments not accepted here")
    if nargs is not None and len(e.args) != nargs:
        reject(e, f"expected {nargs} argument(s)")

def named_args(e, params, required):
    """arguments of a constructor call in evaluation (= source) order: [(parameter name, node)]"""
    if any(isinstance(a, ast.Starred) for a in e.args) or any(k.arg is None for k in e.keywords):
        reject(e, "starred arguments not accepted")
    if len(e.args) > len(params):
        reject(e, "too many arguments")
    out = [(params[i], a) for i, a in enumerate(e.args)]
    for k in e.keywords:
        if k.arg not in params or k.arg in [p for p, _ in out]:
            reject(e, f"keyword argument {k.arg} not accepted")
        out.append((k.arg, k.value))
    for p in required:
        if p not in [q for q, _ in out]:
            reject(e, f"argument {p} is missing")
    return out

CMP_INT = {ast.Eq: "Z.eqb", ast.Lt: "Z.ltb", ast.LtE: "Z.leb", ast.Gt: "Z.gtb", ast.GtE: "Z.geb"}
CMP_OPT = {ast.Gt: "py_optint_gt", ast.GtE: "py_optint_ge", ast.Lt: "py_optint_lt", ast.LtE: "py_optint_le"}
ATTRS = {("task", "operator"): ("t_operator", "op"), ("task", "circuit"): ("t_circuit", "circ"),
         ("task", "number_of_shots"): ("t_number_of_shots", TO("int")),
         ("op", "is_constant"): ("w_is_constant W", "bool"), ("op", "terms"): ("w_terms W", TL("term")),
         ("term", "coefficient"): ("w_coefficient W", "num")}
# (receiver type, method) -> (coq function, parameter types, result type, may raise)
METHODS = {("circ", "bind"): ("w_bind W", ["symmap"], "circ", False),
           ("runner", "run_batch_and_measure"): ("w_run_batch_and_measure W", [TL("circ"), TL(TO("int"))], TL("meas"), True),
           ("meas", "get_expectation_values"): ("w_get_expectation_values W", ["op"], "ev", True),
           ("sim", "get_exact_expectation_values"): ("w_get_exact_expectation_values W", ["circ", "op"], "num", True)}
ARRAY3 = TL(TL(TL("num")))

def expr(e, sc, binds):
    """returns (coq text, type); effectful sub-evaluations are appended to binds in evaluation order"""
    fn = sc.fn
    if isinstance(e, ast.Constant):
        v = e.value
        if v is None:
            return "None", TO(tvar())
        if isinstance(v, bool):
            reject(e, "literal not accepted")
        if isinstance(v, int):
            return f"({v})%Z", "int"
        if isinstance(v, float):
            fr = Fraction(repr(v))                 # the decimal value of the literal
            return f"(n_lit (w_N W) ({fr.numerator} # {fr.denominator})%Q)", "num"
        reject(e, "literal not accepted")
    if isinstance(e, ast.Name):
        if not isinstance(e.ctx, ast.Load):
            reject(e, "name in non-load context")
        return sc.read(e, binds)
    if isinstance(e, ast.Attribute):
        t, ty = expr(e.value, sc, binds)
        ty = resolve(ty)
        if not isinstance(ty, str) or (ty, e.attr) not in ATTRS:
            reject(e, f"attribute .{e.attr} of a value of type {tname(ty)} not accepted")
        f, rty = ATTRS[(ty, e.attr)]
        return f"({f} {t})", rty
    if isinstance(e, ast.List):
        el = tvar()
        parts = []
        for x in e.elts:
            if isinstance(x, ast.Starred):
                reject(x, "starred element")
            t, ty = expr(x, sc, binds)
            if not unify(ty, el):
                reject(x, f"list elements of different types ({tname(el)}, {tname(ty)})")
            parts.append(t)
        return "[" + "; ".join(parts) + "]", TL(el)
    if isinstance(e, ast.Tuple):
        if len(e.elts) < 2 or any(isinstance(x, ast.Starred) for x in e.elts):
            reject(e, "tuple display must have at least two plain elements")
        parts = [expr(x, sc, binds) for x in e.elts]
        return "(" + ", ".join(t for t, _ in parts) + ")", TT(*[ty for _, ty in parts])
    if isinstance(e, ast.ListComp):
        return comprehension(e, sc, binds)
    if isinstance(e, ast.BinOp):
        a, ta = expr(e.left, sc, binds)
        b, tb = expr(e.right, sc, binds)
        if isinstance(e.op, ast.Add) and resolve(ta) == "int" and resolve(tb) == "int":
            return f"(Z.add {a} {b})", "int"
        reject(e, f"binary operation {type(e.op).__name__} on {tname(ta)}, {tname(tb)} not accepted")
    if isinstance(e, ast.BoolOp):
        return boolop(e, sc, binds)
    if isinstance(e, ast.UnaryOp):
        if not isinstance(e.op, ast.Not):
            reject(e, "unary operator not accepted")
        t, ty = expr(e.operand, sc, binds)
        ty = resolve(ty)
        if ty == "bool":
            return f"(negb {t})", "bool"
        if isinstance(ty, tuple) and ty[0] == "list":
            return f"(py_not_list {t})", "bool"
        reject(e, f"not applied to a value of type {tname(ty)} (its truth value is not modelled)")
    if isinstance(e, ast.Compare):
        if len(e.ops) != 1:
            reject(e, "chained comparison")
        op = type(e.ops[0])
        a, ta = expr(e.left, sc, binds)
        right = e.comparators[0]
        if op in (ast.Is, ast.IsNot):
            if not (isinstance(right, ast.Constant) and right.value is None):
                reject(e, "is / is not: only against None")
            ta = resolve(ta)
            if not (isinstance(ta, tuple) and ta[0] == "opt"):
                reject(e, f"is None on a value of type {tname(ta)}, which is never None")
            return f"({'py_is_none' if op is ast.Is else 'py_is_not_none'} {a})", "bool"
        b, tb = expr(right, sc, binds)
        ta, tb = resolve(ta), resolve(tb)
        if ta == "int" and tb == "int":
            if op in CMP_INT:
                return f"({CMP_INT[op]} {a} {b})", "bool"
            if op is ast.NotEq:
                return f"(negb (Z.eqb {a} {b}))", "bool"
        if ta == TO("int") and tb == "int":
            if op is ast.Eq:
                return f"(py_optint_eqb {a} {b})", "bool"
            if op is ast.NotEq:
                return f"(py_optint_neb {a} {b})", "bool"
            if op in CMP_OPT:
                x = fn.tmp()
                binds.append((x, f"{CMP_OPT[op]} {a} {b}"))
                return x, "bool"
        reject(e, f"comparison {op.__name__} on {tname(ta)}, {tname(tb)} not accepted")
    if isinstance(e, ast.Call):
        return call(e, sc, binds)
    reject(e, "expression not accepted")

def boolop(e, sc, binds):
    """a and b and ... / a or b or ...: operands after the first are evaluated only when Python evaluates them"""
    is_and = isinstance(e.op, ast.And)
    first, ty = expr(e.values[0], sc, binds)
    if resolve(ty) != "bool":
        reject(e, f"and / or on a value of type {tname(ty)} (only bool operands are modelled)")
    rest = []
    for v in e.values[1:]:
        b = []
        t, ty = expr(v, sc, b)
        if resolve(ty) != "bool":
            reject(e, f"and / or on a value of type {tname(ty)} (only bool operands are modelled)")
        rest.append((t, b))
    if all(not b for _, b in rest):
        text = first
        for t, _ in rest:
            text = f"({'andb' if is_and else 'orb'} {text} {t})"
        return text, "bool"
    # some later operand can raise: if a then (evaluate b) else False   /   if a then True else (evaluate b)
    def chain(k):
        if k == len(rest):
            return None
        t, b = rest[k]
        nxt = chain(k + 1)
        if nxt is None:
            return with_binds(b, f"Val {t}")
        return with_binds(b, f"if {t} then ({nxt}) else Val false" if is_and else f"if {t} then Val true else ({nxt})")
    x = sc.fn.tmp()
    binds.append((x, f"if {first} then ({chain(0)}) else Val false" if is_and else f"if {first} then Val true else ({chain(0)})"))
    return x, "bool"

def call(e, sc, binds):
    fn, f = sc.fn, e.func
    if isinstance(f, ast.Attribute):
        # np.asarray(nested list of numbers)
        if isinstance(f.value, ast.Name) and f.value.id == "np" and not sc.known("np"):
            if f.attr != "asarray":
                reject(e, "only np.asarray is accepted")
            plain_call(e, 1)
            t, ty = expr(e.args[0], sc, binds)
            if not (unify(ty, TL("num")) or unify(ty, TL(TL("num")))):
                reject(e, f"np.asarray of a value of type {tname(ty)} not accepted")
            return f"(np_asarray {t})", ty
        t, ty = expr(f.value, sc, binds)
        ty = resolve(ty)
        if not isinstance(ty, str) or (ty, f.attr) not in METHODS:
            reject(e, f"method .{f.attr} of a value of type {tname(ty)} not accepted")
        g, ptys, rty, raises = METHODS[(ty, f.attr)]
        plain_call(e, len(ptys))
        args = [t]
        for a, pt in zip(e.args, ptys):
            at, aty = expr(a, sc, binds)
            args.append(coerce(at, aty, pt, a))
        text = " ".join([g] + args)
        if raises:
            x = fn.tmp()
            binds.append((x, text))
            return x, rty
        return f"({text})", rty
    if not isinstance(f, ast.Name):
        reject(e, "call not accepted")
    shadowed(f, sc)
    if f.id == "len":
        plain_call(e, 1)
        t, ty = expr(e.args[0], sc, binds)
        ty = resolve(ty)
        if not (isinstance(ty, tuple) and ty[0] == "list"):
            reject(e, f"len() of {tname(ty)} not accepted")
        return f"(py_len {t})", "int"
    if f.id == "sum":
        plain_call(e, 1)
        a = e.args[0]
        if isinstance(a, ast.GeneratorExp):
            t, ty = comprehension(a, sc, binds)
        else:
            t, ty = expr(a, sc, binds)
        if not unify(ty, TL("num")):
            reject(e, f"sum() of {tname(ty)} not accepted")
        return f"(py_sum (w_N W) {t})", "num"
    if f.id == "cast":
        plain_call(e, 2)
        ann(e.args[0])                   # evaluated by Python: a typing expression built from imported names
        return expr(e.args[1], sc, binds)
    if f.id == "EstimationTask":
        params = ["operator", "circuit", "number_of_shots"]
        tys = {"operator": "op", "circuit": "circ", "number_of_shots": TO("int")}
        vals = {}
        for p, a in named_args(e, params, params):
            t, ty = expr(a, sc, binds)
            vals[p] = coerce(t, ty, tys[p], a)
        return "(mk_py_task " + " ".join(vals[p] for p in params) + ")", "task"
    if f.id == "ExpectationValues":
        params = ["values", "correlations", "estimator_covariances"]
        tys = {"values": TL("num"), "correlations": TO(ARRAY3), "estimator_covariances": TO(ARRAY3)}
        vals = {"correlations": "None", "estimator_covariances": "None"}          # the defaults of __init__
        for p, a in named_args(e, params, ["values"]):
            t, ty = expr(a, sc, binds)
            vals[p] = coerce(t, ty, tys[p], a)
        return "(mk_py_ev " + " ".join(vals[p] for p in params) + ")", "ev"
    if f.id == "expectation_values_to_real":
        plain_call(e, 1)
        t, ty = expr(e.args[0], sc, binds)
        return f"(w_expectation_values_to_real W {coerce(t, ty, 'ev', e)})", "ev"
    if f.id in fn.sigs:
        ptys, rty = fn.sigs[f.id]
        plain_call(e, len(ptys))
        args = []
        for a, pt in zip(e.args, ptys):
            t, ty = expr(a, sc, binds)
            args.append(coerce(t, ty, pt, a))
        x = fn.tmp()
        binds.append((x, " ".join([f"{f.id}_gen W"] + args)))
        return x, rty
    reject(e, "call not accepted")

def iterable(it, sc, binds):
    """the iterable of a for clause: (coq text of the list of items, item type)"""
    if isinstance(it, ast.Call) and isinstance(it.func, ast.Name) and it.func.id in ("zip", "enumerate", "range"):
        shadowed(it.func, sc)
        g = it.func.id
        if g == "zip":
            plain_call(it, 2)
            a, ta = expr(it.args[0], sc, binds)
            b, tb = expr(it.args[1], sc, binds)
            ea, eb = tvar(), tvar()
            if not (unify(ta, TL(ea)) and unify(tb, TL(eb))):
                reject(it, f"zip() of {tname(ta)}, {tname(tb)} not accepted")
            return f"(py_zip {a} {b})", TT(ea, eb)
        plain_call(it, 1)
        a, ta = expr(it.args[0], sc, binds)
        if g == "enumerate":
            ea = tvar()
            if not unify(ta, TL(ea)):
                reject(it, f"enumerate() of {tname(ta)} not accepted")
            return f"(py_enumerate {a})", TT("int", ea)
        if resolve(ta) != "int":
            reject(it, f"range() of {tname(ta)} not accepted")
        return f"(py_range {a})", "int"
    t, ty = expr(it, sc, binds)
    el = tvar()
    if not unify(ty, TL(el)):
        reject(it, f"iteration over {tname(ty)} not accepted")
    return t, el

def target_names(tg, ity, sc, ks):
    """for-clause target -> [(name, type)]; a tuple target needs an item type that is a tuple of the same length"""
    if isinstance(tg, ast.Name):
        names, tys = [tg.id], [ity]
    elif isinstance(tg, ast.Tuple) and all(isinstance(x, ast.Name) for x in tg.elts) and len(tg.elts) in ks:
        names = [x.id for x in tg.elts]
        ity = resolve(ity)
        if not (isinstance(ity, tuple) and ity[0] == "tuple" and len(ity) - 1 == len(names)):
            reject(tg, f"cannot unpack an item of type {tname(ity)} into {len(names)} names")
        tys = list(ity[1:])
    else:
        reject(tg, "target must be a name or a tuple of names")
    if len(set(names)) != len(names):
        reject(tg, "repeated target")
    for x in names:
        vname(x, tg)
        if sc.known(x):
            reject(tg, f"target {x} rebinds an existing local")
    return list(zip(names, tys))

def comprehension(e, sc, binds):
    if len(e.generators) != 1 or e.generators[0].ifs or e.generators[0].is_async:
        reject(e, "comprehension must have one for clause and no condition")
    g = e.generators[0]
    it, ity = iterable(g.iter, sc, binds)
    targets = target_names(g.target, ity, sc, (2, 3))
    pat = vname(targets[0][0]) if isinstance(g.target, ast.Name) else "'(" + ", ".join(vname(x) for x, _ in targets) + ")"
    eb = []
    t, ty = expr(e.elt, sc.child(targets), eb)
    if not eb:
        return f"(map (fun {pat} => {t}) {it})", TL(ty)
    x = sc.fn.tmp()
    binds.append((x, f"py_comp (fun {pat} =>\n    {with_binds(eb, 'Val ' + t)}) {it}"))
    return x, TL(ty)

def cond(test, sc, binds):
    t, ty = expr(test, sc, binds)
    if resolve(ty) != "bool":
        reject(test, f"condition of type {tname(ty)} (truthiness is not modelled)")
    return t

# ----------------------------------------------------------------------------- mutated lists
def mutation(s):
    """x.append(e) / x[i] = e  ->  (name node, kind, nodes) or None"""
    if isinstance(s, ast.Expr) and isinstance(s.value, ast.Call) and isinstance(s.value.func, ast.Attribute) \
            and s.value.func.attr == "append" and isinstance(s.value.func.value, ast.Name):
        return s.value.func.value, "append", s.value
    if isinstance(s, ast.Assign) and len(s.targets) == 1 and isinstance(s.targets[0], ast.Subscript) \
            and isinstance(s.targets[0].value, ast.Name):
        return s.targets[0].value, "setitem", s.targets[0]
    return None

def fresh_list(e):
    return isinstance(e, (ast.List, ast.ListComp))

def check_tracked(fdef):
    """the locals the function mutates in place; every occurrence of such a name must be harmless (no alias)"""
    tracked = set()
    for s in ast.walk(fdef):
        m = mutation(s) if isinstance(s, ast.stmt) else None
        if m:
            tracked.add(m[0].id)
    if not tracked:
        return tracked
    if tracked & {a.arg for a in fdef.args.args}:
        reject(fdef, "a parameter is mutated in place")
    allowed = set()          # ids of Name nodes in harmless positions
    last = fdef.body[-1]
    for s in ast.walk(fdef):
        if isinstance(s, ast.stmt):
            m = mutation(s)
            if m:
                allowed.add(id(m[0]))
        if isinstance(s, (ast.Assign, ast.AnnAssign)):
            tg = s.targets[0] if isinstance(s, ast.Assign) and len(s.targets) == 1 else getattr(s, "target", None)
            if isinstance(tg, ast.Name) and tg.id in tracked and (s.value is None or fresh_list(s.value)):
                allowed.add(id(tg))
        if isinstance(s, ast.Call) and isinstance(s.func, ast.Name) and s.func.id in ("len", "zip", "enumerate") and not s.keywords:
            allowed.update(id(a) for a in s.args if isinstance(a, ast.Name))
        if isinstance(s, ast.UnaryOp) and isinstance(s.op, ast.Not) and isinstance(s.operand, ast.Name):
            allowed.add(id(s.operand))
        if isinstance(s, (ast.For, ast.comprehension)) and isinstance(s.iter, ast.Name):
            allowed.add(id(s.iter))
    if isinstance(last, ast.Return) and last.value is not None:
        v = last.value
        if isinstance(v, ast.Call) and isinstance(v.func, ast.Name) and v.func.id == "cast" and len(v.args) == 2:
            v = v.args[1]
        for x in ([v] if isinstance(v, ast.Name) else v.elts if isinstance(v, ast.Tuple) else []):
            if isinstance(x, ast.Name):
                allowed.add(id(x))
    for n in ast.walk(fdef):
        if isinstance(n, ast.Name) and n.id in tracked and id(n) not in allowed:
            reject(n, f"the list {n.id} is mutated in place and occurs where a second reference to it could arise")
    return tracked

# ----------------------------------------------------------------------------- simple statements
def simple_stmt(s, sc):
    """assignment-like statements -> (binds, [(name, coq text, type)]) or None when s is not one of them"""
    fn = sc.fn
    m = mutation(s)
    if m:
        name, kind, node = m
        binds = []
        if kind == "append":
            plain_call(node, 1)
            l, lty = expr(name, sc, binds)
            v, vty = expr(node.args[0], sc, binds)
            if isinstance(node.args[0], ast.Name) and has_list(vty):
                reject(s, "a list is stored in another list (a second reference to it would arise)")
            el = tvar()
            if not unify(lty, TL(el)):
                reject(s, f".append on a value of type {tname(lty)}")
            return binds, [(name.id, f"(py_append {l} {coerce(v, vty, el, s)})", lty)]
        v, vty = expr(s.value, sc, binds)             # Python evaluates the right-hand side first
        if isinstance(s.value, ast.Name) and has_list(vty):
            reject(s, "a list is stored in another list (a second reference to it would arise)")
        l, lty = expr(name, sc, binds)
        i, ity = expr(node.slice, sc, binds)
        el = tvar()
        if not unify(lty, TL(el)) or resolve(ity) != "int":
            reject(s, f"item assignment {tname(lty)}[{tname(ity)}] not accepted")
        x = fn.tmp()
        binds.append((x, f"py_setitem {l} {i} {coerce(v, vty, el, s)}"))
        return binds, [(name.id, x, lty)]
    if isinstance(s, ast.AnnAssign):
        if not isinstance(s.target, ast.Name) or not s.simple:
            reject(s, "annotated target must be one name")
        if s.value is None:
            return [], []                   # `x: T` in a function body: no run-time effect at all
        binds = []
        t, ty = expr(s.value, sc, binds)
        want = ann(s.annotation)
        if not unify(ty, want):
            reject(s, f"value of type {tname(ty)}, the annotation says {tname(want)}")
        return binds, [(s.target.id, t, ty)]
    if isinstance(s, ast.Assign):
        if len(s.targets) != 1:
            reject(s, "chained assignment")
        tg = s.targets[0]
        binds = []
        if isinstance(tg, ast.Name):
            if isinstance(s.value, ast.Name) and has_list(expr(s.value, sc, [])[1]):
                reject(s, "a list gets a second name (aliasing is not modelled)")
            t, ty = expr(s.value, sc, binds)
            return binds, [(tg.id, t, ty)]
        if isinstance(tg, ast.Tuple) and all(isinstance(x, ast.Name) for x in tg.elts) and len(tg.elts) >= 2:
            names = [x.id for x in tg.elts]
            if len(set(names)) != len(names):
                reject(s, "repeated assignment target")
            v = s.value
            if isinstance(v, ast.Call) and isinstance(v.func, ast.Name) and v.func.id == "zip" \
                    and len(v.args) == 1 and isinstance(v.args[0], ast.Starred) and not v.keywords:
                # a, b, c = zip(*rows)
                shadowed(v.func, sc)
                if len(names) not in (2, 3):
                    reject(s, "zip(*rows) is accepted for two or three targets")
                t, ty = expr(v.args[0].value, sc, binds)
                cols = [tvar() for _ in names]
                if not unify(ty, TL(TT(*cols))):
                    reject(s, f"zip(*rows) with rows of type {tname(ty)} cannot be unpacked into {len(names)} names")
                xs = [fn.tmp() for _ in names]
                binds.append(("'(" + ", ".join(xs) + ")", f"py_unzip{len(names)} {t}"))
                return binds, [(n, x, TL(c)) for n, x, c in zip(names, xs, cols)]
            t, ty = expr(v, sc, binds)
            ty = resolve(ty)
            if not (isinstance(ty, tuple) and ty[0] == "tuple" and len(ty) - 1 == len(names)):
                reject(s, f"cannot unpack a value of type {tname(ty)} into {len(names)} names")
            xs = [fn.tmp() for _ in names]
            binds.append(("'(" + ", ".join(xs) + ")", f"Val {t}"))
            return binds, [(n, x, c) for n, x, c in zip(names, xs, ty[1:])]
        reject(s, "assignment target not accepted")
    return None

# ----------------------------------------------------------------------------- compound statements
def assigned(stmts):
    """names assigned or mutated in the statements (nested blocks included), in source order"""
    out = []
    def add(x):
        if x not in out:
            out.append(x)
    def visit(s):
        m = mutation(s)
        if m:
            add(m[0].id)
        elif isinstance(s, ast.Assign):
            for t in s.targets:
                for n in ([t] if isinstance(t, ast.Name) else t.elts if isinstance(t, ast.Tuple) else []):
                    if isinstance(n, ast.Name):
                        add(n.id)
        elif isinstance(s, (ast.AnnAssign, ast.AugAssign)):
            if isinstance(s.target, ast.Name) and getattr(s, "value", None) is not None:
                add(s.target.id)
        for f in ("body", "orelse"):
            for c in getattr(s, f, []) or []:
                visit(c)
    for s in stmts:
        visit(s)
    return out

def loop_header(st, sc, binds):
    """returns (iterable text, [(target name, type)], unpack?)"""
    if st.orelse:
        reject(st, "for ... else not accepted")
    changed = assigned(st.body)
    for n in ast.walk(st.iter):
        if isinstance(n, ast.Name) and n.id in changed:
            reject(st, f"{n.id} is iterated over and assigned or mutated in the loop body")
    it, ity = iterable(st.iter, sc, binds)
    targets = target_names(st.target, ity, sc, (2,))
    return it, targets, len(targets) == 2

def loop_body_def(st, fn, comp, outer_plain, targets):
    """translate the body of the For `st` over the state record of `comp`; the definition is queued in
       comp["pending"] (inner bodies first); returns (name, [names the body reads from outside])"""
    fn.nbodies += 1
    name = f"{fn.name}_L{fn.nbodies}_body"
    plain = dict(outer_plain)
    for x, ty in targets:
        plain[x] = ty
    sc = Scope(fn, plain, comp, own=[x for x, _ in targets])
    text = block(st.body, sc)
    comp["pending"].append((name, [(p, plain[p]) for p in sc.used], targets, text))
    return name, list(sc.used)

def block(stmts, sc):
    """a block inside a compound statement: a term of type pyres <state> with st in scope"""
    if not stmts:
        reject(None, "empty block")
    parts = [inner_stmt(s, sc) for s in stmts]
    parts = [p for p in parts if p is not None] or ["Val st"]
    text = parts[-1]
    for p in reversed(parts[:-1]):
        text = f"bind ({p}) (fun st =>\n    {text})"
    return text

def inner_assign(x, value_text, ty, sc, node, st_text):
    comp = sc.comp
    if x in sc.plain:
        reject(node, f"assignment to {x}, which is a loop target or a local not carried by the compound statement")
    old = comp["carried"][x]
    if old is None:
        comp["carried"][x] = ("maybe", ty)        # first bound inside the compound statement
        old = comp["carried"][x]
    elif not unify(old[1] if maybe(old) else old, ty):
        reject(node, f"{x} assigned values of different types ({tname(old[1] if maybe(old) else old)}, {tname(ty)})")
    v = f"(Some {value_text})" if maybe(old) else value_text
    return f"({comp['prefix']}_set_c{list(comp['carried']).index(x)} W {st_text} {v})"

def inner_stmt(s, sc):
    fn = sc.fn
    r = simple_stmt(s, sc)
    if r is not None:
        binds, updates = r
        if not updates:
            return None
        st_text = "st"
        for x, t, ty in updates:
            st_text = inner_assign(x, t, ty, sc, s, st_text)
        return f"(* {src(s)} *)\n    " + with_binds(binds, f"Val {st_text}")
    if isinstance(s, ast.If):
        binds = []
        c = cond(s.test, sc, binds)
        a = block(s.body, sc)
        b = block(s.orelse, sc) if s.orelse else "Val st"
        return f"(* if {src(s.test)} *)\n    " + with_binds(binds, f"if {c} then ({a})\n    else ({b})")
    if isinstance(s, ast.For):
        binds = []
        it, targets, unpack = loop_header(s, sc, binds)
        name, params = loop_body_def(s, fn, sc.comp, sc.plain, targets)
        for p in params:                      # what the inner body reads from outside, the outer body reads too
            sc.note_used(p)
        call_text = " ".join([name, "W"] + [vname(p) for p in params])
        body = f"(py_unpack2 ({call_text}))" if unpack else f"({call_text})"
        return f"(* for {src(s.target)} in {src(s.iter)} *)\n    " + with_binds(binds, f"py_for {it} st {body}")
    if isinstance(s, ast.Raise):
        return f"(* {src(s)} *)\n    " + raise_stmt(s, sc)
    reject(s, "statement not accepted inside a for / if")

def raise_stmt(s, sc):
    e = s.exc
    if s.cause is not None or not (isinstance(e, ast.Call) and isinstance(e.func, ast.Name) and e.func.id == "RuntimeError"):
        reject(s, "only `raise RuntimeError(...)` accepted")
    shadowed(e.func, sc)
    plain_call(e, 1)
    if not (isinstance(e.args[0], ast.Constant) and isinstance(e.args[0].value, str)):
        reject(s, "exception message must be a string literal")
    return "Raise RuntimeError"

def open_binds(binds, lines):
    n = 0
    for x, t in binds:
        if x.startswith("'") and t.startswith("Val "):          # unpacking of a tuple that is already a value
            lines.append(f"let {x} := {t[4:]} in")
        else:
            lines.append(f"bind ({t}) (fun {x} =>")
            n += 1
    return n

def top_compound(st, fn, env, lines):
    """a for / if at function level: emits the state record, its setters and the loop body definitions into fn.defs,
       appends the opening lines of `bind (...) (fun st =>` and the lets re-binding the carried locals;
       returns the number of parentheses left open"""
    fn.nstates += 1
    prefix = f"{fn.name}_S{fn.nstates}"
    inside = st.body + (st.orelse if isinstance(st, ast.If) else [])
    names = assigned(inside)
    if not names:
        reject(st, "a for / if at function level that assigns nothing is not in the grammar")
    carried = {x: env.get(x) for x in names}          # None: not bound before the compound statement
    comp = dict(prefix=prefix, carried=carried, pending=[])
    outer_plain = {x: ty for x, ty in env.items() if x not in carried}
    binds = []
    if isinstance(st, ast.For):
        it, targets, unpack = loop_header(st, Scope(fn, env), binds)
        name, params = loop_body_def(st, fn, comp, outer_plain, targets)
        call_text = " ".join([name, "W"] + [vname(p) for p in params])
        body = f"(py_unpack2 ({call_text}))" if unpack else f"({call_text})"
        comment = f"(* for {src(st.target)} in {src(st.iter)} *)"
        run = lambda init: f"py_for {it} {init} {body}"
    else:
        c = cond(st.test, Scope(fn, env), binds)
        sc = Scope(fn, outer_plain, comp)
        a = block(st.body, sc)
        b = block(st.orelse, sc) if st.orelse else "Val st"
        comment = f"(* if {src(st.test)} *)"
        run = lambda init: f"let st := {init} in\n    if {c} then ({a})\n    else ({b})"
    fields = list(carried.items())
    for x, ty in fields:
        if ty is None:
            reject(st, f"internal: carried local {x} was not typed")
    def fty(ty):
        return f"(option {cty(ty[1])})" if maybe(ty) else cty(ty)
    rec = f"Record {prefix}_state (W : pyworld) : Type := {prefix}_mk {{\n" + \
        ";\n".join(f"  {prefix}_c{j} : {fty(ty)}" for j, (x, ty) in enumerate(fields)) + "\n}.\n"
    for j, (x, ty) in enumerate(fields):
        rec += f"Definition {prefix}_set_c{j} (W : pyworld) (st : {prefix}_state W) (v : {fty(ty)}) : {prefix}_state W :=\n" + \
            f"  {prefix}_mk W " + " ".join("v" if k == j else f"({prefix}_c{k} W st)" for k in range(len(fields))) + ".\n"
    fn.defs.append(rec)
    for bname, bparams, btargets, btext in comp["pending"]:
        sig = " ".join(f"({vname(x)} : {fty(ty)})" for x, ty in bparams + btargets)
        fn.defs.append(f"Definition {bname} (W : pyworld) {sig} (st : {prefix}_state W) : pyres ({prefix}_state W) :=\n    {btext}.\n")
    init = f"({prefix}_mk W " + " ".join((vname(x) if x in env else "None") for x, _ in fields) + ")"
    lines.append(comment)
    n = open_binds(binds + [("st", run(init))], lines)
    for j, (x, ty) in enumerate(fields):
        env[x] = ty
        lines.append(f"let {vname(x)} : {fty(ty)} := {prefix}_c{j} W st in")
    return n                                  # loop targets are not visible afterwards: never added to env

# ----------------------------------------------------------------------------- functions
def function(fdef, sigs):
    if fdef.decorator_list:
        reject(fdef, "decorated function (a decorator may change what the call returns)")
    a = fdef.args
    if a.vararg or a.kwarg or a.kwonlyargs or a.posonlyargs or a.kw_defaults or a.defaults:
        reject(fdef, "only plain positional parameters without defaults accepted")
    for n in ast.walk(fdef):
        if n is not fdef and isinstance(n, (ast.FunctionDef, ast.AsyncFunctionDef, ast.Lambda, ast.ClassDef, ast.Global,
                                            ast.Nonlocal, ast.Yield, ast.YieldFrom, ast.Await, ast.NamedExpr, ast.Delete,
                                            ast.Try, ast.With, ast.While, ast.Import, ast.ImportFrom)):
            reject(n, "construct not accepted inside a translated function")
    reserved = set(BUILTINS) | set(IMPORTED) | set(FUNCS)
    for n in ast.walk(fdef):
        x = n.id if isinstance(n, ast.Name) and isinstance(n.ctx, ast.Store) else n.arg if isinstance(n, ast.arg) else None
        if x in reserved:
            reject(n, f"{x} is used as a local name (it would shadow a name the grammar relies on)")
    rty = ann(fdef.returns)
    env, params = {}, []
    for p in a.args:
        if p.arg in env:
            reject(p, "repeated parameter")
        env[p.arg] = ann(p.annotation)
        params.append((p.arg, env[p.arg]))
    body = strip_docstring(fdef.body)
    if not body:
        reject(fdef, "empty body")
    fn = Fn(fdef.name, sigs, check_tracked(fdef))
    lines, closers = [], 0
    def fty(ty):
        return f"(option {cty(ty[1])})" if maybe(ty) else cty(ty)
    for k, s in enumerate(body):
        sc = Scope(fn, env)
        if k == len(body) - 1:
            if not isinstance(s, ast.Return) or s.value is None:
                reject(s, "the function must end in `return <expression>`")
            binds = []
            t, ty = expr(s.value, sc, binds)
            is_cast = isinstance(s.value, ast.Call) and isinstance(s.value.func, ast.Name) and s.value.func.id == "cast"
            if is_cast:
                rty = ty             # cast overrides what the annotation says about the value; the value is unchanged
            elif not unify(ty, rty):
                reject(s, f"returned value of type {tname(ty)}, the annotation says {tname(rty)}")
            lines.append(f"(* {src(s)} *)")
            closers += open_binds(binds, lines)
            lines.append(f"Val {t}")
            break
        r = simple_stmt(s, sc)
        if r is not None:
            binds, updates = r
            if not updates and not binds:
                continue
            lines.append(f"(* {src(s)} *)")
            closers += open_binds(binds, lines)
            for x, t, ty in updates:
                if x in env and not unify(env[x][1] if maybe(env[x]) else env[x], ty):
                    reject(s, f"{x} assigned values of different types")
                lines.append(f"let {vname(x, s)} : {cty(ty)} := {t} in")
                env[x] = ty
        elif isinstance(s, (ast.For, ast.If)):
            closers += top_compound(s, fn, env, lines)
        else:
            reject(s, "statement not accepted at function level")
    text = "\n".join("  " + l for l in lines) + ")" * closers
    sig = " ".join(f"({vname(p)} : {cty(ty)})" for p, ty in params)
    out = "".join(d + "\n" for d in fn.defs)
    out += f"Definition {fdef.name}_gen (W : pyworld) {sig} : pyres {cty(rty)} :=\n{text}.\n"
    sigs[fdef.name] = ([ty for _, ty in params], rty)
    return out

def finish_types(text):
    """replace the placeholders of inferred types; an element type that was never determined is a rejection"""
    def sub(m):
        t = resolve(TVar.all[int(m.group(1))])
        if isinstance(t, TVar):
            raise Reject("the element type of an empty list / of None could not be determined")
        return cty(t)
    for _ in range(10):
        new = re.sub(r"@@T(\d+)@@", sub, text)
        if new == text:
            return text
        text = new
    raise Reject("internal: cyclic type")

HEADER = """(* GENERATED by tr/tr_estimation.py from src/orquestra/quantum/estimation/_estimation.py - do not edit.
   Every definition below is the statement-by-statement translation of the Python function of the same name;
   the meaning of the building blocks is fixed in Stats/EstimationTrSupport.v; agreement with the model of
   Stats/Estimation.v is proved in Stats/EstimationGenProofs.v. *)
Require Import Coq.ZArith.ZArith Coq.Lists.List Coq.QArith.QArith Coq.Bool.Bool.
Require Import OQ.Stats.EstimationTrSupport.
Import ListNotations.

"""

def run(repo, out):
    target = os.path.join(out, "EstimationGen.v")
    try:
        tree = ast.parse(open(os.path.join(repo, SOURCE)).read())
        check_module(tree)
        sigs = {}
        text = HEADER
        for f in FUNCS:
            text += f"(* ------------------------------------------------------------------ {f} *)\n"
            text += finish_types(function(find_function(tree, f), sigs)) + "\n"
    except (Reject, SyntaxError, OSError) as e:
        # fail closed: no stale definitions from an earlier source may survive a rejection; the file below does not
        # compile, so everything that depends on the generated definitions stops building until the source is accepted
        why = re.sub(r"[^A-Za-z0-9 _.,:=()\[\]'-]", " ", str(e))[:300].replace("(*", "( *").replace("*)", "* )")
        if FORBIDDEN_TEXT.search(why):
            why = "(reason elided)"
        write_if_changed(target, "(* GENERATED by tr/tr_estimation.py - THE TRANSLATOR REJECTED THE SOURCE:\n   " + why
                         + " *)\nDefinition translator_rejected_the_source : False := I.\n")
        if isinstance(e, Reject):
            raise
        raise Reject(str(e))
    write_if_changed(target, text)
    print("tr_estimation: ok")

if __name__ == "__main__":
    main_wrapper(run)
