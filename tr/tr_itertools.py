#!/usr/bin/env python3
"""Translate the list/iterator functions of circuits/_itertools.py to Gallina (fail-closed).

  expand_sample_sizes, _combine_measurements, combine_measurement_counts, combine_bitstrings,
  _iterate_in_batches, split_into_batches                           -> Gen/ItertoolsGen.v
  (_expand_sample_size itself is translated by tr_intfun.py into Gen/ExpandGen.v and is called from here.)

The translation is syntax directed: every accepted Python construct is mapped to one piece of Gallina whose
meaning is a definition of coq/Stats/ItertoolsTrSupport.v or of the standard list library.  Nothing is
recognised "as a whole"; a function is accepted iff each of its statements and expressions is in the grammar.

Types.  Every parameter and the result must be annotated; annotations give the Coq types:
  int -> Z, str -> string, T (the module's TypeVar) -> A, Sequence[X] / List[X] / Iterable[X] / Tuple[X, ...] -> list X,
  Tuple[X, Y] / Tuple[X, Y, Z] -> X * Y (* Z), Dict[str, int] -> py_dict (association list in insertion order).
  The type computed for the returned expression must equal the annotated one.

Effects.  Each expression has a level: 0 pure (term of type T), 1 may raise (term of type option T, None = raised),
2 consumes from the iterator variable in scope and may raise (term of type option (T * list X) that mentions the
current iterator state under the Python name of the iterator variable and returns the state afterwards).
Sub-expressions are evaluated left to right; the results of levels 1 and 2 are bound by an explicit `match`.

Statements (function body after the docstring):
  name = expr                          let / match ... with Some name => ...        (a name is bound once)
  it = iter(xs)                        let it := py_iter xs     (at most one iterator variable per function)
  if a OP b: raise ValueError(msg)     if OP' a b then None else ...    OP in == != < <= > >= on integers; either side
                                       may be a walrus (name := expr), which becomes a let before the test
  for k, v in d.items(): c[k] += v     let c := fold_left (fun c '(k, v) => py_counter_iadd c k v) (py_items d) c
                                       (c a Counter local; this is the only loop with mutation that is accepted)
  while chunk := expr: yield expr'     iter_chunks (S (length it)) (fun it => expr) (fun chunk => expr') it
                                       (last statement of a generator; expr of level 2 and tuple typed; the tuple is
                                       true iff not empty; running out of fuel is the error value)
  return expr
Expressions:
  integer literals, names, + - * // % on integers (Z.div / Z.modulo are floor division / modulo),
  (a, b) and (a, b, c), len(xs), sum(xs) on integers, sum(xss, start=[]), max(xs), min(xs) (level 1),
  zip(xs, ys), range(k), tuple(xs) / list(xs) (identity on the list of elements), islice(it, n) (level 2, negative n raises),
  reduce(f, xs) with f a translated two-argument function (level 1), Counter(d), dict(c), d.items(),
  calls of already translated functions (positional arguments only),
  [e for p in xs] / (e for p in xs)     map / py_comp_opt / py_comp_st according to the level of e
  [e for p in xs for q in ys]           flat_map (fun p => map (fun q => e) ys) xs       (all parts of level 0)
  with p, q a name, `_`, or a tuple of those; no `if` clauses.
Module level: only the expected imports (no aliases), `T = TypeVar("T")` and undecorated function definitions whose
names do not shadow a builtin used by the grammar.  Everything else is rejected, in particular: decorators, default
or keyword arguments, nested functions, lambdas, attribute access other than .items(), subscripts other than the
Counter update, augmented assignment elsewhere, try/with/global, comparisons chains, boolean operators.
"""
OUTPUTS = ['ItertoolsGen.v']      # generated files (the driver uses this to decide which properties depend on this translator)
import ast, os, re
from trlib import *

# ------------------------------------------------------------------ types
TZ, TA, TS, TD, TC = ("Z",), ("A",), ("string",), ("dict",), ("counter",)
def TL(t): return ("list", t)
def TP(*ts): return ("prod",) + tuple(ts)
def TI(t): return ("iter", t)

def cty(t):
    k = t[0]
    if k in ("Z", "A", "string"): return k
    if k in ("dict", "counter"): return "py_dict"
    if k in ("list", "iter"): return f"(list {cty(t[1])})"
    if k == "prod": return "(" + " * ".join(cty(x) for x in t[1:]) + ")"
    raise Reject(f"internal: type {t}")

def mentions_A(t):
    return t == TA or any(isinstance(x, tuple) and mentions_A(x) for x in t[1:])

def subst(t, s):
    if t == TA: return s.get("A", TA)
    return (t[0],) + tuple(subst(x, s) if isinstance(x, tuple) else x for x in t[1:])

def unify(pat, act, s, node):
    if pat == TA:
        if s.setdefault("A", act) != act: reject(node, "type variable used at two types")
        return
    if pat[0] != act[0] or len(pat) != len(act): reject(node, f"argument type {act} where {pat} is expected")
    for p, a in zip(pat[1:], act[1:]): unify(p, a, s, node)

LISTY = {"Sequence", "List", "Iterable"}
TYPING = LISTY | {"Tuple", "Dict", "TypeVar"}
IMPORTS = {"collections": {"Counter"}, "functools": {"reduce"}, "itertools": {"islice"}, "math": {"ceil"}, "typing": TYPING}
BUILTINS = {"len", "sum", "max", "min", "zip", "range", "tuple", "list", "iter", "dict", "int", "str", "ValueError"}
COQ_RESERVED = set("""as at cofix else end exists exists2 fix for forall fun if IF in let match mod return Set Prop Type SProp
then using where with map flat_map fold_left combine None Some option list nil cons app fst snd negb Z S O nat bool true false
A string expand_sample_size rep_tuple take_drop reduce1 iter_chunks""".split())

def ann(a, M):
    """annotation -> type"""
    if a is None: raise Reject("missing annotation (parameter and result types come from the annotations)")
    if isinstance(a, ast.Name):
        if a.id == "int": return TZ
        if a.id == "str": return TS
        if a.id == M["tyvar"]: return TA
    if isinstance(a, ast.Subscript) and isinstance(a.value, ast.Name) and a.value.id in M["typing"]:
        h, x = a.value.id, a.slice
        if h in LISTY: return TL(ann(x, M))
        if h == "Tuple" and isinstance(x, ast.Tuple):
            if len(x.elts) == 2 and isinstance(x.elts[1], ast.Constant) and x.elts[1].value is Ellipsis:
                return TL(ann(x.elts[0], M))
            if len(x.elts) in (2, 3): return TP(*[ann(e, M) for e in x.elts])
        if h == "Dict" and isinstance(x, ast.Tuple) and [ann(e, M) for e in x.elts] == [TS, TZ]: return TD
    reject(a, "annotation not accepted")

# ------------------------------------------------------------------ names
def check_new(name, env, node):
    if not re.fullmatch(r"[A-Za-z][A-Za-z0-9_]*", name) or "__" in name or name.startswith("py_") or name.endswith("_gen"):
        reject(node, f"name {name!r} not accepted")
    if name in COQ_RESERVED or name in BUILTINS or name in IMPORTS["collections"] | IMPORTS["functools"] | IMPORTS["itertools"]:
        reject(node, f"name {name!r} would shadow a name used by the translation")
    if name in env: reject(node, f"name {name!r} is bound twice (rebinding is not in the grammar)")
    return name

class Fresh:
    n = 0
def fresh():
    Fresh.n += 1
    return f"v__{Fresh.n}"

def pattern(t, ty, env, node):
    """comprehension / loop target -> (binder text, env extended)"""
    if isinstance(t, ast.Name):
        if t.id == "_": return "_", env
        n = check_new(t.id, env, t)
        return n, {**env, n: ty}
    if isinstance(t, ast.Tuple) and all(isinstance(x, ast.Name) for x in t.elts):
        if ty[0] != "prod" or len(ty) - 1 != len(t.elts): reject(node, f"cannot unpack {ty} into {len(t.elts)} names")
        parts = []
        for x, xt in zip(t.elts, ty[1:]):
            p, env = pattern(x, xt, env, node)
            parts.append(p)
        return "'(" + ", ".join(parts) + ")", env
    reject(t, "target not accepted")

# ------------------------------------------------------------------ effects
def state_of(env): return env.get("  state")

def lift(t, frm, to, env):
    if frm == to: return t
    st = state_of(env)
    if frm == 0 and to == 1: return f"Some ({t})"
    if frm == 0 and to == 2: return f"Some ({t}, {st})"
    if frm == 1 and to == 2:
        v = fresh()
        return f"match {t} with None => None | Some {v} => Some ({v}, {st}) end"
    raise Reject("internal: lowering an effect level")

def seq_parts(parts, build, env):
    """parts = [(text, type, level)] evaluated left to right, then build(pure texts) -> (text, type, level)"""
    texts, wraps = [], []
    for t, _, l in parts:
        if l == 0:
            texts.append(t)
        else:
            v = fresh()
            wraps.append((t, v, l))
            texts.append(v)
    bt, bty, bl = build(texts)
    L = max([bl] + [l for _, _, l in parts])
    if L == 2 and state_of(env) is None: raise Reject("internal: level 2 without an iterator variable")
    body = lift(bt, bl, L, env)
    for t, v, l in reversed(wraps):
        pat = v if l == 1 else f"({v}, {state_of(env)})"
        body = f"match {t} with None => None | Some {pat} => {body} end"
    return body, bty, L

ARITH = {ast.Add: "Z.add", ast.Sub: "Z.sub", ast.Mult: "Z.mul", ast.FloorDiv: "Z.div", ast.Mod: "Z.modulo"}
CMP = {ast.Eq: "Z.eqb {a} {b}", ast.NotEq: "negb (Z.eqb {a} {b})", ast.Lt: "Z.ltb {a} {b}", ast.LtE: "Z.leb {a} {b}",
       ast.Gt: "Z.ltb {b} {a}", ast.GtE: "Z.leb {b} {a}"}

def need(cond, node, why):
    if not cond: reject(node, why)

def ex(e, env, F):
    """expression -> (coq text, type, level)"""
    if isinstance(e, ast.Constant) and isinstance(e.value, int) and not isinstance(e.value, bool):
        return f"({e.value})%Z", TZ, 0
    if isinstance(e, ast.Name):
        need(e.id in env, e, "unknown name")
        need(env[e.id][0] != "iter", e, "an iterator variable may only be the first argument of islice")
        return e.id, env[e.id], 0
    if isinstance(e, ast.BinOp):
        need(type(e.op) in ARITH, e, "operator not accepted")
        parts = [ex(e.left, env, F), ex(e.right, env, F)]
        need(parts[0][1] == TZ and parts[1][1] == TZ, e, "arithmetic on non-integers")
        return seq_parts(parts, lambda t: (f"({ARITH[type(e.op)]} {t[0]} {t[1]})", TZ, 0), env)
    if isinstance(e, ast.Tuple):
        need(len(e.elts) in (2, 3), e, "only pairs and triples")
        parts = [ex(x, env, F) for x in e.elts]
        return seq_parts(parts, lambda t: ("(" + ", ".join(t) + ")", TP(*[p[1] for p in parts]), 0), env)
    if isinstance(e, (ast.ListComp, ast.GeneratorExp)):
        return comprehension(e, env, F)
    if isinstance(e, ast.Call):
        return call(e, env, F)
    reject(e, "expression not accepted")

def call(e, env, F):
    f = e.func
    if isinstance(f, ast.Attribute):
        need(f.attr == "items" and not e.args and not e.keywords, e, "method call not accepted")
        p = ex(f.value, env, F)
        need(p[1] in (TD, TC), e, ".items() of a non-dict")
        return seq_parts([p], lambda t: (f"(py_items {t[0]})", TL(TP(TS, TZ)), 0), env)
    need(isinstance(f, ast.Name), e, "call not accepted")
    name, kws = f.id, e.keywords
    need(name not in env, e, "call of a local name")
    if name == "sum" and len(kws) == 1:
        need(kws[0].arg == "start" and isinstance(kws[0].value, ast.List) and not kws[0].value.elts and len(e.args) == 1, e,
             "sum with a keyword other than start=[]")
        p = ex(e.args[0], env, F)
        need(p[1][0] == "list" and p[1][1][0] == "list", e, "sum(..., start=[]) of something that is not a sequence of lists")
        return seq_parts([p], lambda t: (f"(py_sum_lists {t[0]})", p[1][1], 0), env)
    need(not kws, e, "keyword arguments are not accepted")
    if name == "islice":
        need(len(e.args) == 2 and isinstance(e.args[0], ast.Name) and e.args[0].id == state_of(env), e,
             "islice(it, n) needs the iterator variable of this function as first argument")
        it = e.args[0].id
        p = ex(e.args[1], env, F)
        need(p[1] == TZ, e, "islice count is not an integer")
        return seq_parts([p], lambda t: (f"(py_islice {it} {t[0]})", TL(env[it][1]), 2), env)
    if name == "reduce":
        need(len(e.args) == 2 and isinstance(e.args[0], ast.Name) and e.args[0].id in F, e, "reduce(f, xs) with f a translated function")
        g = F[e.args[0].id]
        p = ex(e.args[1], env, F)
        need(g["level"] == 0 and len(g["args"]) == 2 and p[1] == TL(g["ret"]) and g["args"] == [g["ret"], g["ret"]], e,
             "reduce: function and sequence types do not fit")
        return seq_parts([p], lambda t: (f"(reduce1 {g['coq']} {t[0]})", g["ret"], 1), env)
    if name in F:
        g = F[name]
        need(len(e.args) == len(g["args"]), e, "wrong number of arguments")
        parts = [ex(a, env, F) for a in e.args]
        s = {}
        for a, p, pt in zip(e.args, parts, g["args"]): unify(pt, p[1], s, a)
        return seq_parts(parts, lambda t: ("(" + " ".join([g["coq"]] + t) + ")", subst(g["ret"], s), g["level"]), env)
    need(name in BUILTINS or name == "Counter", e, "call of an unknown function")
    parts = [ex(a, env, F) for a in e.args]
    tys = [p[1] for p in parts]
    def islist(t): return t[0] == "list"
    if name == "len" and len(tys) == 1 and islist(tys[0]):
        return seq_parts(parts, lambda t: (f"(py_len {t[0]})", TZ, 0), env)
    if name == "sum" and tys == [TL(TZ)]:
        return seq_parts(parts, lambda t: (f"(py_sum_Z {t[0]})", TZ, 0), env)
    if name in ("max", "min") and tys == [TL(TZ)]:
        return seq_parts(parts, lambda t: (f"(py_{name} {t[0]})", TZ, 1), env)
    if name == "zip" and len(tys) == 2 and islist(tys[0]) and islist(tys[1]):
        return seq_parts(parts, lambda t: (f"(py_zip {t[0]} {t[1]})", TL(TP(tys[0][1], tys[1][1])), 0), env)
    if name == "range" and tys == [TZ]:
        return seq_parts(parts, lambda t: (f"(py_range {t[0]})", TL(TZ), 0), env)
    if name in ("tuple", "list") and len(tys) == 1 and islist(tys[0]):
        return parts[0]
    if name == "Counter" and tys == [TD]:
        return seq_parts(parts, lambda t: (f"(py_Counter {t[0]})", TC, 0), env)
    if name == "dict" and tys == [TC]:
        return seq_parts(parts, lambda t: (f"(py_dict_of {t[0]})", TD, 0), env)
    reject(e, "call not accepted (arity or argument types)")

def comprehension(e, env, F):
    gens = e.generators
    need(1 <= len(gens) <= 2, e, "one or two for clauses")
    for g in gens: need(not g.ifs and not g.is_async, e, "comprehension conditions / async are not accepted")
    it1 = ex(gens[0].iter, env, F)
    need(it1[1][0] == "list", e, "comprehension over a non-sequence")
    p1, env1 = pattern(gens[0].target, it1[1][1], env, e)
    if len(gens) == 1:
        el = ex(e.elt, env1, F)
        def build(t):
            if el[2] == 0: return f"(map (fun {p1} => {el[0]}) {t[0]})", TL(el[1]), 0
            if el[2] == 1: return f"(py_comp_opt (fun {p1} => {el[0]}) {t[0]})", TL(el[1]), 1
            st = state_of(env)
            return f"(py_comp_st (fun {st} {p1} => {el[0]}) {t[0]} {st})", TL(el[1]), 2
        return seq_parts([it1], build, env)
    it2 = ex(gens[1].iter, env1, F)
    need(it2[1][0] == "list", e, "comprehension over a non-sequence")
    p2, env2 = pattern(gens[1].target, it2[1][1], env1, e)
    el = ex(e.elt, env2, F)
    need(it1[2] == 0 and it2[2] == 0 and el[2] == 0, e, "two for clauses are accepted only when every part is pure")
    return f"(flat_map (fun {p1} => map (fun {p2} => {el[0]}) {it2[0]}) {it1[0]})", TL(el[1]), 0

# ------------------------------------------------------------------ statements
def guard_side(s, env, F, lets):
    if isinstance(s, ast.NamedExpr):
        t, ty, l = ex(s.value, env, F)
        need(ty == TZ and l == 0, s, "walrus in a test: pure integer expression expected")
        n = check_new(s.target.id, env, s)
        lets.append(f"let {n} := {t} in\n  ")
        return n, {**env, n: TZ}
    t, ty, l = ex(s, env, F)
    need(ty == TZ and l == 0, s, "test: pure integer expression expected")
    return t, env

def check_raise(st):
    need(len(st.body) == 1 and isinstance(st.body[0], ast.Raise) and not st.orelse, st, "only `if test: raise ValueError(msg)` is accepted")
    r = st.body[0]
    need(r.cause is None and isinstance(r.exc, ast.Call) and isinstance(r.exc.func, ast.Name) and r.exc.func.id == "ValueError"
         and len(r.exc.args) == 1 and not r.exc.keywords, r, "raise ValueError(msg)")
    for n in ast.walk(r.exc.args[0]):
        if isinstance(n, ast.Call):
            need(isinstance(n.func, ast.Name) and n.func.id == "len" and len(n.args) == 1 and isinstance(n.args[0], ast.Name), n, "call inside an error message")
        else:
            need(isinstance(n, (ast.Constant, ast.JoinedStr, ast.FormattedValue, ast.Name, ast.Load)), n, "error message not accepted")

def block(stmts, env, F, gen):
    """statements -> (coq text, type, level <= 1)"""
    need(bool(stmts), gen["fn"], "function must end in return (or, for a generator, in the while loop)")
    st, rest = stmts[0], stmts[1:]
    def tail(env2):
        t, ty, l = block(rest, env2, F, gen)
        return lift(t, l, 1, env2), ty
    if isinstance(st, ast.Return):
        need(not rest and st.value is not None and not gen["is_gen"], st, "return <expr> as last statement of a non-generator")
        t, ty, l = ex(st.value, env, F)
        if l == 2:
            v = fresh()
            t, l = f"match {t} with None => None | Some ({v}, _) => Some {v} end", 1
        return t, ty, l
    if isinstance(st, ast.If):
        check_raise(st)
        c = st.test
        need(isinstance(c, ast.Compare) and len(c.ops) == 1 and type(c.ops[0]) in CMP, c, "test not accepted")
        lets = []
        a, env1 = guard_side(c.left, env, F, lets)
        b, env1 = guard_side(c.comparators[0], env1, F, lets)
        t, ty = tail(env1)
        return "".join(lets) + f"if {CMP[type(c.ops[0])].format(a=a, b=b)} then None else\n  {t}", ty, 1
    if isinstance(st, ast.Assign):
        need(len(st.targets) == 1 and isinstance(st.targets[0], ast.Name) and st.targets[0].id != "_", st, "assignment target not accepted")
        v = st.value
        if isinstance(v, ast.Call) and isinstance(v.func, ast.Name) and v.func.id == "iter":
            need(len(v.args) == 1 and not v.keywords and isinstance(v.args[0], ast.Name), v, "it = iter(<name>)")
            need(state_of(env) is None, st, "a second iterator variable")
            xt, xty, _ = ex(v.args[0], env, F)
            need(xty[0] == "list", v, "iter of a non-sequence")
            n = check_new(st.targets[0].id, env, st)
            env1 = {**env, n: TI(xty[1]), "  state": n}
            t, ty, l = block(rest, env1, F, gen)
            return f"let {n} := py_iter {xt} in\n  {t}", ty, l
        t, ty, l = ex(v, env, F)
        n = check_new(st.targets[0].id, env, st)
        env1 = {**env, n: ty}
        if l == 0:
            rt, rty, rl = block(rest, env1, F, gen)
            return f"let {n} := {t} in\n  {rt}", rty, rl
        rt, rty = tail(env1)
        pat = n if l == 1 else f"({n}, {state_of(env)})"
        return f"match {t} with None => None | Some {pat} =>\n  {rt} end", rty, 1
    if isinstance(st, ast.For):
        need(not st.orelse and len(st.body) == 1 and isinstance(st.body[0], ast.AugAssign), st, "loop not accepted")
        u = st.body[0]
        need(isinstance(u.op, ast.Add) and isinstance(u.target, ast.Subscript) and isinstance(u.target.value, ast.Name), u, "loop body must be c[k] += v")
        c = u.target.value.id
        need(env.get(c) == TC, u, "c[k] += v on something that is not a Counter local")
        need(all(not (isinstance(n, ast.Name) and n.id == c) for n in ast.walk(st.iter)), st, "the Counter is iterated while it is updated")
        itt, itty, itl = ex(st.iter, env, F)
        need(itl == 0 and itty[0] == "list", st, "loop over a pure sequence expected")
        p, env1 = pattern(st.target, itty[1], env, st)
        k, kty, kl = ex(u.target.slice, env1, F)
        w, wty, wl = ex(u.value, env1, F)
        need(kty == TS and wty == TZ and kl == 0 and wl == 0, u, "c[k] += v with k a string and v an integer, both pure")
        rt, rty, rl = block(rest, env, F, gen)
        return f"let {c} := fold_left (fun {c} {p} => py_counter_iadd {c} {k} {w}) {itt} {c} in\n  {rt}", rty, rl
    if isinstance(st, ast.While):
        need(gen["is_gen"] and not rest and not st.orelse and isinstance(st.test, ast.NamedExpr), st, "only `while x := e: yield e'` as last statement of a generator")
        need(len(st.body) == 1 and isinstance(st.body[0], ast.Expr) and isinstance(st.body[0].value, ast.Yield)
             and st.body[0].value.value is not None, st, "loop body must be a single yield")
        sv = state_of(env)
        need(sv is not None, st, "while loop without an iterator variable")
        t, ty, l = ex(st.test.value, env, F)
        need(l == 2 and ty[0] == "list", st, "the loop test must consume from the iterator and be a tuple")
        n = check_new(st.test.target.id, env, st)
        y, yty, yl = ex(st.body[0].value.value, {**env, n: ty}, F)
        need(yl == 0, st, "yielded expression must be pure")
        gen["yielded"] = True
        return f"iter_chunks (S (List.length {sv})) (fun {sv} => {t}) (fun {n} => {y}) {sv}", TL(yty), 1
    reject(st, "statement not accepted")

def function(fn, F, M):
    if fn.decorator_list: reject(fn, "decorated function (a decorator may change what the call returns)")
    a = fn.args
    if a.vararg or a.kwarg or a.kwonlyargs or a.defaults or a.posonlyargs or a.kw_defaults:
        reject(fn, "only plain positional parameters are accepted")
    env = {}
    Fresh.n = 0
    for x in a.args:
        env[check_new(x.arg, env, fn)] = ann(x.annotation, M)
    args = list(env.items())
    ys = [n for n in ast.walk(fn) if isinstance(n, (ast.Yield, ast.YieldFrom))]
    gen = dict(is_gen=bool(ys), fn=fn, yielded=False)
    need(len(ys) <= 1, fn, "more than one yield")
    text, ty, lvl = block(strip_docstring(fn.body), env, F, gen)
    need(gen["is_gen"] == gen["yielded"], fn, "yield outside the accepted loop")
    need(ann(fn.returns, M) == ty, fn, f"the returned expression has type {cty(ty)}, the annotation says {cty(ann(fn.returns, M))}")
    name = fn.name.lstrip("_") + "_gen"
    poly = any(mentions_A(t) for _, t in args)
    need(poly or not mentions_A(ty), fn, "type variable only in the result")
    F[fn.name] = dict(coq=name, args=[t for _, t in args], ret=ty, level=lvl)
    return (f"Definition {name} " + ("{A : Type} " if poly else "") + " ".join(f"({n} : {cty(t)})" for n, t in args)
            + f" : {'option ' if lvl else ''}{cty(ty)} :=\n  {text}.\n")

# ------------------------------------------------------------------ module
ORDER = ["expand_sample_sizes", "_combine_measurements", "combine_measurement_counts", "combine_bitstrings",
         "_iterate_in_batches", "split_into_batches"]

def module(tree):
    M = dict(tyvar=None, typing=set())
    seen, imported = set(), set()
    for n in tree.body:
        if isinstance(n, ast.ImportFrom):
            need(n.level == 0 and n.module in IMPORTS, n, "import not accepted")
            for al in n.names:
                need(al.asname is None and al.name in IMPORTS[n.module] and al.name not in imported, n, "imported name not accepted")
                imported.add(al.name)
                if n.module == "typing": M["typing"].add(al.name)
        elif isinstance(n, ast.Assign):
            need(ast.unparse(n) in ("T = TypeVar('T')",) and M["tyvar"] is None and "TypeVar" in imported, n, "module-level assignment not accepted")
            M["tyvar"] = "T"
        elif isinstance(n, ast.FunctionDef):
            need(n.name not in seen and n.name not in BUILTINS and n.name not in imported and n.name != "T", n,
                 "function name defined twice or shadowing a name used by the grammar")
            seen.add(n.name)
        elif isinstance(n, ast.Expr) and isinstance(n.value, ast.Constant) and isinstance(n.value.value, str):
            pass
        else:
            reject(n, "module-level statement not accepted")
    for x in ("Counter", "reduce", "islice"):
        need(x in imported, tree, f"{x} is not imported from its standard module")
    find_function(tree, "_expand_sample_size")       # translated by tr_intfun.py; its Coq type is checked by coqc
    F = {"_expand_sample_size": dict(coq="expand_sample_size", args=[TZ, TZ], ret=TP(TL(TZ), TZ), level=0)}
    return "\n".join(function(find_function(tree, name), F, M) for name in ORDER)

HEADER = """(* GENERATED by tr/tr_itertools.py from circuits/_itertools.py - do not edit.
   Meaning of the py_* / take_drop / reduce1 / iter_chunks constants: Stats/ItertoolsTrSupport.v;
   agreement with the hand-written model Stats/Shots.v: Stats/ItertoolsGenProofs.v *)
Require Import Coq.ZArith.ZArith Coq.Lists.List Coq.Strings.String.
Require Import OQ.Gen.ExpandGen OQ.Stats.ItertoolsTrSupport.
Import ListNotations.
Open Scope Z_scope.

"""

def run(repo, out):
    p = os.path.join(repo, "src/orquestra/quantum/circuits/_itertools.py")
    target = os.path.join(out, "ItertoolsGen.v")
    try:
        text = HEADER + module(ast.parse(open(p).read()))
    except Reject as e:
        # fail closed: no stale definitions from an earlier source may survive a rejection; the file below does not
        # compile, so everything that depends on the generated definitions stops building until the source is accepted
        why = re.sub(r"[^A-Za-z0-9 _.,:=()\[\]'-]", " ", str(e))[:300].replace("(*", "( *").replace("*)", "* )")
        write_if_changed(target, "(* GENERATED by tr/tr_itertools.py - THE TRANSLATOR REJECTED THE SOURCE:\n   " + why
                         + " *)\nDefinition translator_rejected_the_source : False := I.\n")
        raise
    write_if_changed(target, text)
    print("tr_itertools: ok")

if __name__ == "__main__":
    main_wrapper(run)
