#!/usr/bin/env python3
"""Translate the arithmetic methods of PauliTerm / PauliSum (operators/_pauli_operators.py) to Gallina (fail-closed:
anything outside the grammar below is rejected with exit code 3 and the output is replaced by a stub that does not
compile).

  operators/_pauli_operators.py : the methods reachable from the ROOTS below     -> Gen/PauliOpsGen.v

The translation is syntax directed: each accepted statement / expression becomes one piece of Gallina whose meaning
is a definition of coq/Pauli/PauliOpsTrSupport.v (the trusted reading of Python), of the standard library, or an
already generated definition.  coq/Pauli/PauliOpsGenProofs.v proves, on every run, that the generated definitions
equal the hand-written model of coq/Pauli/Algebra.v that the C03 theorems are about.

Static types and specialisation.  Python dispatches on run-time types (isinstance, `is None`, the binary operator
protocol).  The translator gives every expression ONE static type
    PauliTerm | PauliSum (objects) | num (int/float/complex used as a coefficient) | int | str | bool | None |
    dict (int -> str) | view T (dict view) | set int | itemset (frozenset of dict items) | odict V | list T | (T1, T2)
and translates a function once per tuple of static argument types (`PauliTerm_mul_term_gen`,
`PauliTerm_mul_num_gen`, ...).  In a specialisation every `isinstance(x, C)` / `x is None` is decided by the static
type of x; only the live branch of a statically decided `if` / conditional expression / `and` / `or` is translated
(the other one cannot be executed for arguments of these types).  `a OP b` is resolved by the operator protocol on
the static types: the left operand's class method __OP__ if its class defines it, else the right operand's __rOP__
(left operand a number), else arithmetic on numbers / ints / strings.

Module level   imports, assignments to plain names, function and class definitions, docstrings; the names the
               grammar gives a meaning to (np, warnings, OrderedDict, chain, product, cast, the builtins, the two
               classes, the module functions used) must be bound exactly once, in the expected way.  Classes: no
               bases / decorators / keywords, body = docstring + method definitions, no method defined twice.
Functions      undecorated, or decorated by exactly `@property` / `@staticmethod`; plain positional parameters,
               defaults None or a number literal; keyword arguments at call sites are matched by name.
               __init__ : its `self.x = e` assignments (top level, once each) define the fields of the object;
               a generator function must be `for x in it: yield e` and is read as the list of yielded values.
               Direct self-recursion becomes a Fixpoint on an explicit fuel (RecursionError when it runs out).
Statements     x = e | x: T = e | x *= e | x += e | self.f = e (in __init__) | x[k] = e | del x[k] | x.append(e) |
               x[k].append(e)  (mutations: locals bound to fresh objects only, see "aliasing" below) |
               f(...) as a statement (a translated function, warnings.warn) | assert <statically true> |
               if / elif / else | for target in iterable (no break / continue / return / else) |
               return e | raise ValueError(...) / TypeError(...).
               A non-final `if` either ends in return/raise on one side (early exit) or re-binds locals that
               exist before it: these are returned as a tuple from both branches.  A loop carries the tuple of
               the locals it re-binds; they must be bound before the loop; its other locals are not visible after.
Expressions    names, int / integral float / str / None literals, -e on numbers, [e, ...], [], {}, (e1, e2),
               attribute access (fields, properties), x[k] (dict, OrderedDict, list, module table, PauliTerm ->
               __getitem__), calls of translated functions / methods / constructors (PauliTerm("<L><n>*...", c)
               with a string LITERAL is read as PauliTerm({n: "L", ...}, c)), type(x).m(), d.copy() .keys()
               .values() .items() .get(k, v), len all set frozenset sum max ord complex cast chain product
               OrderedDict np.isclose np.allclose chain.from_iterable, + - * on objects / numbers / ints / strings,
               % // on ints, == != < <= > >= (ints), == != (str, dict, itemset), in / not in (dict, OrderedDict,
               list of str), not / and / or, e1 if c else e2, list / generator / dict comprehensions with one
               `for` and optional `if`s.
Iteration      over a list: in order.  Over a dict, a dict view, a set: through `py_unordered P <site>` (an arbitrary
               order given by the environment).  Over a PauliTerm: the list produced by its __iter__.
Evaluation order is Python's: sub-expressions that can raise are bound left to right (`bind`) before the pure rest.
Roots          PauliTerm: identity copy qubits operations is_constant n_qubits __pow__ __eq__ (term, number) and, through the
               dispatchers binop_add/sub/mul/pow_gen emitted at the end (one case per pair of run-time kinds term / sum /
               number, resolved by the same operator protocol), __add__ __radd__ __sub__ __rsub__ __mul__ __rmul__ of both
               classes; PauliSum: identity qubits is_constant n_qubits simplify __pow__; plus everything they call
               (__init__, __getitem__, __iter__, _multiply_by_operator, _validate_type, _efficient_exponentiation).
               Not translated (outside the grammar): string parsing, __repr__, __hash__, PauliSum.__eq__ (set semantics
               over user-defined hashing), __truediv__ (1.0 / c), circuit / is_ising (caching by attribute assignment).
Objects        when the generated text changes, the object files of the Coq files that mention it are removed (the sandbox
               clock is too coarse for make to notice that they are out of date).
Aliasing       a local may be mutated only if it was bound to a fresh object ([], [e], OrderedDict(), d.copy(), a
               comprehension) and every use of it other than reading (len, in, x[k], iteration, .values()) comes
               after its last mutation and outside the loops that mutate it.
"""
OUTPUTS = ['PauliOpsGen.v']      # generated files (the driver uses this to decide which properties depend on this translator)
import ast, os, re
from trlib import *

SRC = "src/orquestra/quantum/operators/_pauli_operators.py"
CLASSES = ["PauliTerm", "PauliSum"]
# what is translated (each with every reachable callee); (qualified name, static argument types without self)
TERM, SUM, NUM, INT, STR, BOOL, NONE, UNIT, DICT, ITEMSET = (("obj", "PauliTerm"), ("obj", "PauliSum"), ("num",), ("int",),
                                                              ("str",), ("bool",), ("none",), ("unit",), ("dict",), ("itemset",))
def LIST(t): return ("list", t)
def VIEW(t): return ("view", t)
SETI = ("set",)
def ODICT(t): return ("odict", t)
def TUP(a, b): return ("tuple", a, b)

CANONICAL_INIT = {"PauliTerm": (DICT, NUM), "PauliSum": (LIST(TERM),)}
KINDS = [("T", TERM), ("S", SUM), ("N", NUM)]
ROOTS = [("PauliTerm.identity", ()), ("PauliSum.identity", ()),
         ("PauliTerm.copy", (NONE,)), ("PauliTerm.copy", (NUM,)),
         ("PauliTerm.qubits", ()), ("PauliTerm.operations", ()), ("PauliTerm.is_constant", ()), ("PauliTerm.n_qubits", ()),
         ("PauliSum.qubits", ()), ("PauliSum.is_constant", ()), ("PauliSum.n_qubits", ()),
         ("PauliSum.simplify", ()),
         ("PauliTerm.__pow__", (INT,)), ("PauliSum.__pow__", (INT,)),
         ("PauliTerm.__eq__", (TERM,)), ("PauliTerm.__eq__", (NUM,))]
BINOPS = [("add", ast.Add), ("sub", ast.Sub), ("mul", ast.Mult)]

BUILTINS = ["isinstance", "len", "all", "set", "frozenset", "sum", "max", "ord", "complex", "int", "float", "type",
            "ValueError", "TypeError", "property", "staticmethod", "str"]
IMPORTED = {"OrderedDict": "collections", "chain": "itertools", "product": "itertools", "cast": "typing", "Sequence": "typing"}
TABLES = {"OPERATOR_MAP": ("table", INT, STR), "COEFF_MAP": ("table", STR, NUM), "ALLOWED_OPERATORS": LIST(STR)}
FORBIDDEN_TEXT = re.compile(r"Admitted|admit|Axiom|Parameter|Conjecture|bypass_check|Unset|\(\*|\*\)|type-in-type|impredicative")

def src(node):
    t = " ".join(ast.unparse(node).split("\n")[0].split())
    return "(source elided)" if FORBIDDEN_TEXT.search(t) or '"' in t else t[:150]

# ----------------------------------------------------------------------------- types
def cty(t):
    k = t[0]
    if k == "obj": return f"{t[1]}_obj"
    if k == "num": return "num P"
    if k == "int": return "Z"
    if k == "str": return "string"
    if k == "bool": return "bool"
    if k in ("none", "unit"): return "unit"
    if k in ("dict", "itemset"): return "pydict"
    if k == "set": return "pyset"
    if k in ("list", "view"):
        if t[1] is None: raise Reject("the element type of a list is never determined")
        return f"(list {cty(t[1])})"
    if k == "tuple": return f"({cty(t[1])} * {cty(t[2])})"
    if k == "odict":
        if t[1] is None: raise Reject("the value type of an OrderedDict is never determined")
        return f"(pyodict {cty(t[1])})"
    raise Reject(f"internal: type {t}")

def tname(t):
    k = t[0]
    if k == "obj": return {"PauliTerm": "term", "PauliSum": "sum"}[t[1]]
    if k in ("list", "view", "odict"): return k + "_" + tname(t[1])
    if k == "tuple": return "pair_" + tname(t[1]) + "_" + tname(t[2])
    return k

def complete(t):
    return all(complete(x) if isinstance(x, tuple) else x is not None for x in t[1:]) if isinstance(t, tuple) else t is not None

def unify(a, b, node):
    """types equal up to undetermined (None) element types; returns the more determined one"""
    if a is None: return b
    if b is None: return a
    if not (isinstance(a, tuple) and isinstance(b, tuple)) or a[0] != b[0] or len(a) != len(b):
        reject(node, f"type mismatch: {a} vs {b}")
    return (a[0],) + tuple(unify(x, y, node) if isinstance(x, tuple) or isinstance(y, tuple) or x is None or y is None
                           else (x if x == y else reject(node, f"type mismatch: {a} vs {b}")) for x, y in zip(a[1:], b[1:]))

# ----------------------------------------------------------------------------- module-level checks
class Module:
    def __init__(self, tree):
        self.functions, self.classes = {}, {}
        bound = {}
        def bind(name, node):
            bound.setdefault(name, []).append(node)
        for n in tree.body:
            if isinstance(n, ast.Expr) and isinstance(n.value, ast.Constant) and isinstance(n.value.value, str):
                continue
            if isinstance(n, ast.Import):
                for a in n.names: bind((a.asname or a.name).split(".")[0], n)
            elif isinstance(n, ast.ImportFrom):
                for a in n.names:
                    if a.name == "*": reject(n, "star import (may rebind anything)")
                    bind(a.asname or a.name, n)
            elif isinstance(n, ast.Assign):
                for t in n.targets:
                    if not isinstance(t, ast.Name): reject(n, "module-level assignment to something that is not a plain name")
                    bind(t.id, n)
            elif isinstance(n, ast.FunctionDef):
                bind(n.name, n)
                self.functions[n.name] = n
            elif isinstance(n, ast.ClassDef):
                bind(n.name, n)
                if n.name in CLASSES: self.classes[n.name] = self.check_class(n)
            else:
                reject(n, "module-level statement not accepted")
        def once(name, ok, how):
            b = bound.get(name, [])
            if len(b) != 1 or not ok(b[0]): reject(b[0] if b else tree, f"{name} must be bound exactly once, by {how}")
        for b in BUILTINS:
            if b in bound: reject(bound[b][0], f"builtin {b} is rebound at module level")
        once("np", lambda n: isinstance(n, ast.Import) and any(a.name == "numpy" and a.asname == "np" for a in n.names), "`import numpy as np`")
        once("warnings", lambda n: isinstance(n, ast.Import) and any(a.name == "warnings" and a.asname is None for a in n.names), "`import warnings`")
        for x, m in IMPORTED.items():
            once(x, lambda n, x=x, m=m: isinstance(n, ast.ImportFrom) and n.module == m and n.level == 0 and
                 any(a.name == x and a.asname is None for a in n.names), f"`from {m} import {x}`")
        for c in CLASSES: once(c, lambda n: isinstance(n, ast.ClassDef), "a class definition")
        for t in TABLES: once(t, lambda n: isinstance(n, ast.Assign), "a module-level assignment (translated by tr_pauli_tables.py)")
        for f in self.functions: once(f, lambda n: isinstance(n, ast.FunctionDef), "a function definition")
        self.bound = bound

    def check_class(self, c):
        if c.bases or c.keywords or c.decorator_list: reject(c, "class with bases, keywords or decorators")
        methods = {}
        for n in strip_docstring(c.body):
            if not isinstance(n, ast.FunctionDef): reject(n, "class-level statement that is not a method definition")
            if n.name in methods: reject(n, f"method {n.name} defined twice")
            kind = None
            if n.decorator_list:
                d = n.decorator_list
                if len(d) != 1 or not isinstance(d[0], ast.Name) or d[0].id not in ("property", "staticmethod"):
                    reject(n, "decorated method (only exactly @property / @staticmethod are accepted: any other decorator may change what the call returns)")
                kind = d[0].id
            methods[n.name] = (n, kind)
        return methods

# ----------------------------------------------------------------------------- aliasing discipline for mutated locals
MUT_READ_ATTRS = {"append", "values", "keys", "items", "get"}

def mutation_target(s):
    """name of the local that statement s mutates in place, or None"""
    if isinstance(s, ast.Assign) and len(s.targets) == 1 and isinstance(s.targets[0], ast.Subscript) \
            and isinstance(s.targets[0].value, ast.Name):
        return s.targets[0].value.id
    if isinstance(s, ast.Delete) and len(s.targets) == 1 and isinstance(s.targets[0], ast.Subscript) \
            and isinstance(s.targets[0].value, ast.Name):
        return s.targets[0].value.id
    if isinstance(s, ast.Expr) and isinstance(s.value, ast.Call) and isinstance(s.value.func, ast.Attribute) \
            and s.value.func.attr == "append":
        b = s.value.func.value
        if isinstance(b, ast.Name): return b.id
        if isinstance(b, ast.Subscript) and isinstance(b.value, ast.Name): return b.value.id
    return None

def is_fresh(e):
    return isinstance(e, (ast.List, ast.ListComp, ast.DictComp)) or \
        (isinstance(e, ast.Call) and isinstance(e.func, ast.Name) and e.func.id == "OrderedDict" and not e.args and not e.keywords) or \
        (isinstance(e, ast.Call) and isinstance(e.func, ast.Attribute) and e.func.attr == "copy" and not e.args and not e.keywords)

def check_aliasing(fdef):
    pos = lambda n: (n.lineno, n.col_offset)
    muts = {}                                  # name -> [statement]
    loops_of = {}                              # id(statement) -> enclosing For nodes
    def visit(stmts, loops):
        for s in stmts:
            loops_of[id(s)] = list(loops)
            x = mutation_target(s)
            if x is not None: muts.setdefault(x, []).append(s)
            inner = loops + [s] if isinstance(s, ast.For) else loops
            for f in ("body", "orelse"):
                visit(getattr(s, f, []) or [], inner)
    visit(fdef.body, [])
    params = {a.arg for a in fdef.args.args}
    for x, ms in muts.items():
        if x in params: reject(ms[0], f"in-place update of the parameter {x} (the caller's object would change)")
        for n in ast.walk(fdef):
            if isinstance(n, (ast.For, ast.comprehension)):
                for t in ast.walk(n.target):
                    if isinstance(t, ast.Name) and t.id == x: reject(n, f"in-place update of the loop target {x}")
            if isinstance(n, (ast.Assign, ast.AnnAssign, ast.AugAssign)):
                tg = n.targets if isinstance(n, ast.Assign) else [n.target]
                for t in tg:
                    if isinstance(t, ast.Name) and t.id == x and not (isinstance(n, (ast.Assign, ast.AnnAssign)) and n.value is not None and is_fresh(n.value)):
                        reject(n, f"{x} is updated in place but is not bound to a fresh object here")
        elem_append = any(isinstance(m, ast.Expr) and isinstance(m.value.func.value, ast.Subscript) for m in ms)
        if elem_append:
            for m in ms:
                if isinstance(m, ast.Assign) and not isinstance(m.value, ast.List):
                    reject(m, f"{x}[k].append is used, so every {x}[k] = e must store a fresh list literal")
        last = max(pos(m) for m in ms)
        mloops = {id(l) for m in ms for l in loops_of[id(m)]}
        # classify every load of x
        ok_nodes = set()
        for n in ast.walk(fdef):
            if isinstance(n, ast.Subscript) and isinstance(n.value, ast.Name) and n.value.id == x: ok_nodes.add(id(n.value))
            if isinstance(n, ast.Call) and isinstance(n.func, ast.Attribute) and isinstance(n.func.value, ast.Name) \
                    and n.func.value.id == x and n.func.attr in MUT_READ_ATTRS: ok_nodes.add(id(n.func.value))
            if isinstance(n, ast.Compare) and len(n.ops) == 1 and isinstance(n.ops[0], (ast.In, ast.NotIn)) \
                    and isinstance(n.comparators[0], ast.Name) and n.comparators[0].id == x: ok_nodes.add(id(n.comparators[0]))
            if isinstance(n, ast.Call) and isinstance(n.func, ast.Name) and n.func.id == "len" and len(n.args) == 1 \
                    and isinstance(n.args[0], ast.Name) and n.args[0].id == x: ok_nodes.add(id(n.args[0]))
            if isinstance(n, (ast.For, ast.comprehension)) and isinstance(n.iter, ast.Name) and n.iter.id == x: ok_nodes.add(id(n.iter))
        def escapes(stmts, loops):
            for s in stmts:
                inner = loops + [s] if isinstance(s, ast.For) else loops
                own = [c for f, c in ast.iter_fields(s) if f not in ("body", "orelse")]
                for c in own:
                    for top in (c if isinstance(c, list) else [c]):
                        if not isinstance(top, ast.AST): continue
                        for n in ast.walk(top):
                            if isinstance(n, ast.Name) and n.id == x and isinstance(n.ctx, ast.Load) and id(n) not in ok_nodes:
                                if pos(n) <= last or any(id(l) in mloops for l in inner):
                                    reject(n, f"{x} is updated in place and may be aliased: this use does not come after its last update")
                for f in ("body", "orelse"):
                    escapes(getattr(s, f, []) or [], inner)
        escapes(fdef.body, [])

# ----------------------------------------------------------------------------- specialisations
def mangle(name):
    return name.strip("_")

class Spec:
    def __init__(self, qual, argtys, coqname):
        self.qual, self.argtys, self.coqname = qual, argtys, coqname
        self.ret, self.done, self.recursive = None, False, False

class Tr:
    def __init__(self, mod):
        self.mod, self.specs, self.out, self.stack = mod, {}, [], []
        self.site = 0
        self.fields = {}              # class -> [(field, type)]
        self.names = {}               # coq name -> spec key (collision check)

    def lookup(self, qual, node):
        """-> (FunctionDef, kind, class name or None)"""
        if "." in qual:
            c, m = qual.split(".")
            if c not in self.mod.classes or m not in self.mod.classes[c]: reject(node, f"{qual} is not defined")
            fd, kind = self.mod.classes[c][m]
            return fd, kind, c
        if qual not in self.mod.functions: reject(node, f"function {qual} is not defined at module level")
        fd = self.mod.functions[qual]
        if fd.decorator_list: reject(fd, "decorated function (a decorator may change what the call returns)")
        return fd, None, None

    def has_method(self, cls, m):
        return m in self.mod.classes.get(cls, {})

    def get_spec(self, qual, argtys, node):
        argtys = tuple(argtys)
        for t in argtys:
            if not complete(t): reject(node, f"call of {qual} with an argument whose type is not determined yet")
        key = (qual, argtys)
        if key in self.specs:
            sp = self.specs[key]
            if not sp.done:
                if not self.stack or self.stack[-1] is not sp: reject(node, f"mutual recursion through {qual}")
                sp.recursive = True
                if sp.ret is None: reject(node, f"recursive call of {qual} before a return fixes its type")
            return sp
        fd, kind, cls = self.lookup(qual, node)
        name = "_".join(([cls] if cls else []) + [mangle(fd.name)] + [tname(t) for t in argtys]) + "_gen"
        if not re.fullmatch(r"[A-Za-z][A-Za-z0-9_]*", name) or self.names.setdefault(name, key) != key:
            reject(node, f"generated name {name} is not usable or collides")
        sp = Spec(qual, argtys, name)
        self.specs[key] = sp
        self.stack.append(sp)
        text = Fn(self, sp, fd, kind, cls).translate()
        self.stack.pop()
        sp.done = True
        self.out.append(text)
        return sp

    def new_site(self):
        self.site += 1
        return self.site

# ----------------------------------------------------------------------------- one function specialisation
NUMCLASSES = {"int", "float", "complex"}
EXN = {"ValueError", "TypeError"}

def with_binds(binds, text):
    """bind e1 (fun x1 => bind e2 (fun x2 => text))"""
    for x, t in reversed(binds):
        text = f"bind ({t}) (fun {x} =>\n  {text})"
    return text

def tuple_text(names):
    if not names: return "tt"
    return "(" + ", ".join(f"v_{x}" for x in names) + ")" if len(names) > 1 else f"v_{names[0]}"

def tuple_pat(names):
    if not names: return "_"
    return "'(" + ", ".join(f"v_{x}" for x in names) + ")" if len(names) > 1 else f"v_{names[0]}"

def assigned(stmts):
    """locals (re)bound or updated in place in the statements (nested blocks included), in source order"""
    out = []
    def add(x):
        if x not in out: out.append(x)
    def visit(s):
        if isinstance(s, (ast.Assign, ast.AugAssign, ast.AnnAssign)):
            for t in (s.targets if isinstance(s, ast.Assign) else [s.target]):
                if isinstance(t, ast.Name): add(t.id)
        x = mutation_target(s)
        if x is not None: add(x)
        for f in ("body", "orelse"):
            for c in getattr(s, f, []) or []: visit(c)
    for s in stmts: visit(s)
    return out

def always_exits(stmts):
    if not stmts: return False
    s = stmts[-1]
    if isinstance(s, (ast.Return, ast.Raise)): return True
    return isinstance(s, ast.If) and bool(s.orelse) and always_exits(s.body) and always_exits(s.orelse)

def name_ok(x):
    return re.fullmatch(r"[A-Za-z_][A-Za-z0-9_]*", x) is not None

class Fn:
    def __init__(self, tr, spec, fdef, kind, cls):
        self.tr, self.spec, self.fdef, self.kind, self.cls = tr, spec, fdef, kind, cls
        self.fresh = 0
        self.is_init = cls is not None and fdef.name == "__init__"
        self.init_fields = []           # [(field, type)] in assignment order

    def tmp(self):
        self.fresh += 1
        return f"x{self.fresh}"

    # ------------------------------------------------------------------ the function as a whole
    def translate(self):
        fd, sp = self.fdef, self.spec
        a = fd.args
        if a.vararg or a.kwarg or a.kwonlyargs or a.posonlyargs or a.kw_defaults:
            reject(fd, "only plain positional parameters accepted")
        params = [p.arg for p in a.args]
        if len(set(params)) != len(params) or not all(name_ok(p) for p in params): reject(fd, "parameter names")
        env, coqparams = {}, []
        if self.cls is not None and self.kind != "staticmethod":
            if not params or params[0] != "self": reject(fd, "the first parameter of a method must be called self")
            params = params[1:]
            if not self.is_init:
                env["self"] = ("obj", self.cls)
                coqparams.append(("self", env["self"]))
        if len(params) != len(sp.argtys): reject(fd, f"internal: {sp.qual} specialised at {len(sp.argtys)} argument types")
        for p, t in zip(params, sp.argtys):
            env[p] = t
            coqparams.append((p, t))
        check_aliasing(fd)
        body = strip_docstring(fd.body)
        if not body: reject(fd, "empty body")
        if self.is_init:
            tops = [s for s in body if self.field_target(s) is not None]
            stores = [n for n in ast.walk(fd) if isinstance(n, ast.Attribute) and isinstance(n.ctx, (ast.Store, ast.Del))]
            if len(stores) != len(tops): reject(fd, "__init__ assigns attributes elsewhere than by top-level `self.x = e` statements")
            sp.ret = ("obj", self.cls)
        if any(isinstance(n, (ast.Yield, ast.YieldFrom)) for n in ast.walk(fd)):
            text = self.generator(body, env)
        else:
            text = self.block(body, env, self.fallthrough, True)
        if sp.ret is None: reject(fd, "no return type could be determined")
        head = ""
        if self.is_init:
            fields = self.init_fields
            if self.cls not in self.tr.fields:
                self.tr.fields[self.cls] = fields
                c = self.cls
                head = f"Record {c}_obj : Type := mk_{c} {{ " + "; ".join(f"{c}_{f} : {cty(t)}" for f, t in fields) + " }.\n\n"
            elif self.tr.fields[self.cls] != fields:
                reject(fd, f"__init__ at argument types {sp.argtys} assigns fields {fields}, the canonical one {self.tr.fields[self.cls]}")
        sig = "".join(f" (v_{p} : {cty(t)})" for p, t in coqparams)
        doc = f"(* {sp.qual}" + ("" if not sp.argtys else " at argument types " + ", ".join(tname(t) for t in sp.argtys)) + f"   [line {fd.lineno}] *)\n"
        if sp.recursive:
            return head + doc + f"Fixpoint {sp.coqname} (fuel : nat){sig} {{struct fuel}} : result {cty(sp.ret)} :=\n" \
                f"  match fuel with O => Raise RecursionError | S fuel =>\n  {text}\n  end.\n"
        return head + doc + f"Definition {sp.coqname}{sig} : result {cty(sp.ret)} :=\n  {text}.\n"

    def fallthrough(self, env):
        if self.is_init:
            c = self.cls
            if self.cls in self.tr.fields and [f for f, _ in self.tr.fields[c]] != [f for f, _ in self.init_fields]:
                reject(self.fdef, "fields assigned differ from the canonical __init__")
            return f"Ok (mk_{c} " + " ".join(f"f_{f}" for f, _ in self.init_fields) + ")"
        self.set_ret(UNIT, self.fdef)
        return "Ok tt"

    def set_ret(self, ty, node):
        self.spec.ret = unify(self.spec.ret, ty, node)

    def field_target(self, s):
        if isinstance(s, ast.Assign) and len(s.targets) == 1: t = s.targets[0]
        elif isinstance(s, ast.AnnAssign) and s.value is not None: t = s.target
        else: return None
        if isinstance(t, ast.Attribute) and isinstance(t.value, ast.Name) and t.value.id == "self": return t.attr
        return None

    def generator(self, body, env):
        if len(body) != 1 or not isinstance(body[0], ast.For) or body[0].orelse or len(body[0].body) != 1 \
                or not isinstance(body[0].body[0], ast.Expr) or not isinstance(body[0].body[0].value, ast.Yield) \
                or body[0].body[0].value.value is None:
            reject(self.fdef, "a generator must be exactly `for x in it: yield e`")
        st = body[0]
        binds = []
        it, ety = self.iterable(st.iter, env, binds)
        pat, env2 = self.pattern(st.target, ety, env)
        eb = []
        t, ty = self.expr(st.body[0].value.value, env2, eb)
        self.set_ret(LIST(ty), st)
        return f"(* for {src(st.target)} in {src(st.iter)}: yield {src(st.body[0].value.value)} *)\n  " + \
            with_binds(binds, f"py_mapM (fun {pat} => {with_binds(eb, 'Ok ' + t)}) {it}")

    # ------------------------------------------------------------------ statements
    def block(self, stmts, env, k, can_return):
        if not stmts: return k(env)
        s, rest = stmts[0], stmts[1:]
        cont = lambda env2: self.block(rest, env2, k, can_return)
        c = f"(* {src(s)} *)\n  "
        f = self.field_target(s)
        if f is not None:
            if not self.is_init or not can_return: reject(s, "attribute assignment outside the top level of __init__")
            if f in [x for x, _ in self.init_fields] or not name_ok(f): reject(s, f"field {f} assigned twice")
            binds = []
            t, ty = self.expr(s.value, env, binds)
            if not complete(ty): reject(s, "field type not determined")
            self.init_fields.append((f, ty))
            return c + with_binds(binds, f"let f_{f} : {cty(ty)} := {t} in\n  {cont(env)}")
        if isinstance(s, (ast.Assign, ast.AnnAssign)) and isinstance((s.targets[0] if isinstance(s, ast.Assign) else s.target), ast.Name):
            if isinstance(s, ast.Assign) and len(s.targets) != 1: reject(s, "chained assignment")
            if s.value is None: reject(s, "annotation without a value")
            x = (s.targets[0] if isinstance(s, ast.Assign) else s.target).id
            return c + self.let(x, s.value, env, cont, s)
        if isinstance(s, ast.AugAssign):
            if not isinstance(s.target, ast.Name) or not isinstance(s.op, (ast.Add, ast.Mult)): reject(s, "only `name += e` / `name *= e` accepted")
            rd = ast.copy_location(ast.Name(id=s.target.id, ctx=ast.Load()), s.target)
            return c + self.let(s.target.id, ast.copy_location(ast.BinOp(left=rd, op=s.op, right=s.value), s), env, cont, s)
        if mutation_target(s) is not None:
            return c + self.mutation(s, env, cont)
        if isinstance(s, ast.Expr) and isinstance(s.value, ast.Call):
            e = s.value
            if isinstance(e.func, ast.Attribute) and isinstance(e.func.value, ast.Name) and e.func.value.id == "warnings" \
                    and e.func.attr == "warn" and "warnings" not in env:
                for a in list(e.args) + [kw.value for kw in e.keywords]:
                    if not isinstance(a, (ast.Constant, ast.Name)): reject(s, "warnings.warn with computed arguments")
                return "(* warnings.warn(...): no effect on values *)\n  " + cont(env)
            binds = []
            self.expr(e, env, binds)
            if not binds: reject(s, "expression statement without effect")
            return c + with_binds(binds, cont(env))
        if isinstance(s, ast.Assert):
            t, ty = self.expr(s.test, env, [])
            if ty != ("sbool", True): reject(s, "assert whose test is not decided (true) by the static types")
            return f"(* {src(s)}: holds by the static types *)\n  " + cont(env)
        if isinstance(s, ast.Return):
            if not can_return or rest: reject(s, "return inside a loop / a merged branch, or followed by statements")
            if s.value is None: reject(s, "return without a value")
            if self.is_init: reject(s, "return in __init__")
            binds = []
            t, ty = self.expr(s.value, env, binds)
            if ty[0] == "sbool": ty = BOOL
            self.set_ret(ty, s)
            return c + with_binds(binds, f"Ok {t}")
        if isinstance(s, ast.Raise):
            e = s.exc
            if rest or s.cause is not None or not (isinstance(e, ast.Call) and isinstance(e.func, ast.Name) and e.func.id in EXN
                                                   and e.func.id not in env and len(e.args) == 1 and not e.keywords):
                reject(s, "only `raise ValueError(msg)` / `raise TypeError(msg)` as the last statement of a block")
            a = e.args[0]
            def fv_ok(v):
                v = v.value
                return (isinstance(v, ast.Name) and v.id in env) or \
                    (isinstance(v, ast.Call) and isinstance(v.func, ast.Name) and v.func.id == "type" and len(v.args) == 1
                     and isinstance(v.args[0], ast.Name) and v.args[0].id in env) or \
                    (isinstance(v, ast.Name) and v.id in TABLES)
            ok = isinstance(a, ast.Constant) and isinstance(a.value, str)
            if isinstance(a, ast.JoinedStr):
                ok = all((isinstance(v, ast.Constant) and isinstance(v.value, str)) or
                         (isinstance(v, ast.FormattedValue) and v.format_spec is None and fv_ok(v)) for v in a.values)
            if not ok: reject(s, "exception message must be a string literal or an f-string over bound names")
            return c + f"Raise {e.func.id}"
        if isinstance(s, ast.If):
            return self.if_stmt(s, rest, env, k, can_return)
        if isinstance(s, ast.For):
            return self.for_stmt(s, env, cont)
        reject(s, "statement not accepted")

    def let(self, x, value, env, cont, node):
        if not name_ok(x) or x == "self": reject(node, f"assignment to {x}")
        binds = []
        t, ty = self.expr(value, env, binds)
        if ty[0] == "sbool": ty = BOOL
        if ty == NONE: reject(node, "binding a local to None")
        ann = f" : {cty(ty)}" if complete(ty) else ""
        env2 = dict(env); env2[x] = ty
        return with_binds(binds, f"let v_{x}{ann} := {t} in\n  {cont(env2)}")

    def mutation(self, s, env, cont):
        x = mutation_target(s)
        if x not in env: reject(s, f"in-place update of the unknown name {x}")
        tx = env[x]
        binds = []
        env2 = dict(env)
        if isinstance(s, ast.Assign):                                     # x[k] = e
            v, tv = self.expr(s.value, env, binds)                      # Python evaluates e first, then k
            k, tk = self.expr(s.targets[0].slice, env, binds)
            if tx == DICT and tk == INT and tv == STR:
                return with_binds(binds, f"let v_{x} : pydict := py_dict_set v_{x} {k} {v} in\n  {cont(env2)}")
            if tx[0] == "odict" and tk == ITEMSET:
                env2[x] = ODICT(unify(tx[1], tv, s))
                return with_binds(binds, f"let v_{x} := py_odict_set v_{x} {k} {v} in\n  {cont(env2)}")
            reject(s, f"item assignment on {tx} with key {tk}, value {tv}")
        if isinstance(s, ast.Delete):                                     # del x[k]
            k, tk = self.expr(s.targets[0].slice, env, binds)
            if tx == DICT and tk == INT:
                r = self.tmp()
                binds.append((r, f"py_dict_delitem v_{x} {k}"))
                return with_binds(binds, f"let v_{x} : pydict := {r} in\n  {cont(env2)}")
            reject(s, f"del on {tx} with key {tk}")
        e = s.value                                                       # x.append(e) / x[k].append(e)
        if len(e.args) != 1 or e.keywords: reject(s, "append takes one argument")
        b = e.func.value
        if isinstance(b, ast.Name):
            if tx[0] != "list": reject(s, f"append on {tx}")
            v, tv = self.expr(e.args[0], env, binds)
            env2[x] = LIST(unify(tx[1], tv, s))
            return with_binds(binds, f"let v_{x} := v_{x} ++ [{v}] in\n  {cont(env2)}")
        k, tk = self.expr(b.slice, env, binds)
        if tx[0] != "odict" or tk != ITEMSET: reject(s, f"x[k].append on {tx} with key {tk}")
        if tx[1] is not None and tx[1][0] != "list": reject(s, "x[k].append where the values are not lists")
        old = self.tmp()
        binds.append((old, f"py_odict_getitem v_{x} {k}"))
        v, tv = self.expr(e.args[0], env, binds)
        env2[x] = ODICT(LIST(unify(tx[1][1] if tx[1] else None, tv, s)))
        return with_binds(binds, f"let v_{x} := py_odict_set v_{x} {k} ({old} ++ [{v}]) in\n  {cont(env2)}")

    def if_stmt(self, s, rest, env, k, can_return):
        binds = []
        c, tc = self.expr(s.test, env, binds)
        head = f"(* if {src(s.test)} *)\n  "
        if tc[0] == "sbool":
            live = s.body if tc[1] else s.orelse
            note = f"(* if {src(s.test)}: statically {'true' if tc[1] else 'false'} at these argument types *)\n  "
            if always_exits(live): return note + self.block(live, env, None, can_return)
            return note + self.block(list(live) + list(rest), env, k, can_return)
        if tc != BOOL: reject(s.test, f"condition of type {tc} (truthiness is not modelled)")
        if not rest:
            a = self.block(s.body, env, k, can_return)
            b = self.block(s.orelse, env, k, can_return)
            return head + with_binds(binds, f"if {c} then (\n  {a})\n  else (\n  {b})")
        if always_exits(s.body) and not s.orelse:
            a = self.block(s.body, env, None, can_return)
            b = self.block(rest, env, k, can_return)
            return head + with_binds(binds, f"if {c} then (\n  {a})\n  else\n  {b}")
        M = [x for x in assigned(list(s.body) + list(s.orelse)) if x in env]
        ends = []
        def kk(e):
            ends.append(e)
            return f"Ok {tuple_text(M)}"
        a = self.block(s.body, env, kk, False)
        b = self.block(s.orelse, env, kk, False)
        env2 = dict(env)
        for x in M:
            t = env[x]
            for e in ends: t = unify(t, e[x], s)
            env2[x] = t
        return head + with_binds(binds, f"bind (if {c} then (\n  {a})\n  else (\n  {b})) (fun {tuple_pat(M)} =>\n  {self.block(rest, env2, k, can_return)})")

    def for_stmt(self, s, env, cont):
        if s.orelse: reject(s, "for ... else not accepted")
        for n in ast.walk(s):
            if isinstance(n, (ast.Break, ast.Continue, ast.Return)): reject(n, "break / continue / return inside a loop")
        binds = []
        it, ety = self.iterable(s.iter, env, binds)
        pat, envb = self.pattern(s.target, ety, env)
        C = [x for x in assigned(s.body) if x in env]
        for x in C:
            if x not in env: reject(s, f"internal: {x}")
        tys = {x: env[x] for x in C}
        for attempt in range(3):
            saved = (self.fresh, self.tr.site)
            envb2 = dict(envb); envb2.update(tys)
            ends = []
            def kk(e):
                ends.append(e)
                return f"Ok {tuple_text(C)}"
            body = self.block(s.body, envb2, kk, False)
            new = dict(tys)
            for x in C:
                for e in ends: new[x] = unify(new[x], e[x], s)
            if new == tys: break
            tys = new
            self.fresh, self.tr.site = saved
        else:
            reject(s, "the types of the locals carried by the loop do not stabilise")
        env2 = dict(env); env2.update(tys)
        st = tuple_pat(C)
        return f"(* for {src(s.target)} in {src(s.iter)} *)\n  " + \
            with_binds(binds, f"bind (py_for {it} {tuple_text(C)} (fun {pat} {st} =>\n  {body})) (fun {st} =>\n  {cont(env2)})")

    def pattern(self, t, ty, env):
        """loop / comprehension target -> (binder text, extended env)"""
        env2 = dict(env)
        if isinstance(t, ast.Name):
            if not name_ok(t.id) or t.id == "self": reject(t, "target name")
            env2[t.id] = ty
            return f"v_{t.id}", env2
        if isinstance(t, ast.Tuple) and len(t.elts) == 2 and all(isinstance(x, ast.Name) and name_ok(x.id) for x in t.elts) \
                and t.elts[0].id != t.elts[1].id and ty[0] == "tuple":
            env2[t.elts[0].id], env2[t.elts[1].id] = ty[1], ty[2]
            return f"'(v_{t.elts[0].id}, v_{t.elts[1].id})", env2
        reject(t, f"target not accepted for elements of type {ty}")

    # ------------------------------------------------------------------ expressions
    def as_num(self, t, ty, node):
        if ty == NUM: return t
        if ty == INT: return f"(py_num_of_Z P {t})"
        reject(node, f"a number is expected, found {ty}")

    def dyn_bool(self, t, ty, node):
        if ty[0] == "sbool": return "true" if ty[1] else "false"
        if ty != BOOL: reject(node, f"a bool is expected, found {ty} (truthiness is not modelled)")
        return t

    def iter_typed(self, t, ty, node, binds):
        """a value used as an iterable -> (list text, element type)"""
        if ty[0] == "list": return t, ty[1]
        if ty[0] == "view": return f"(py_unordered P {self.tr.new_site()} {t})", ty[1]
        if ty == DICT: return f"(py_unordered P {self.tr.new_site()} (py_dict_keys {t}))", INT
        if ty == SETI: return f"(py_unordered P {self.tr.new_site()} (py_set_elems {t}))", INT
        if ty[0] == "obj" and self.tr.has_method(ty[1], "__iter__"):
            r, rty = self.call_spec(f"{ty[1]}.__iter__", [(t, ty)], node, binds, has_self=True)
            if rty[0] != "list": reject(node, "__iter__ that is not a generator of the accepted form")
            return r, rty[1]
        reject(node, f"iteration over {ty} not accepted")

    def iterable(self, e, env, binds):
        t, ty = self.expr(e, env, binds)
        return self.iter_typed(t, ty, e, binds)

    def call_spec(self, qual, args, node, binds, has_self=False):
        """args: [(text, type)] (self first when has_self).  Returns (temp, return type)"""
        fd, kind, cls = self.tr.lookup(qual, node)
        params = fd.args.args[1:] if (cls is not None and kind != "staticmethod") else fd.args.args
        vals = args[1:] if has_self else args
        if len(vals) != len(params): reject(node, f"{qual}: wrong number of arguments")
        conv = []
        for p, (t, ty) in zip(params, vals):
            if ty[0] == "sbool": t, ty = self.dyn_bool(t, ty, node), BOOL
            if ty == INT and p.annotation is not None and "complex" in ast.unparse(p.annotation):
                t, ty = self.as_num(t, ty, node), NUM          # an int where the annotation allows a complex coefficient
            conv.append((t, ty))
        sp = self.tr.get_spec(qual, [ty for _, ty in conv], node)
        if sp.ret is None: reject(node, f"the return type of {qual} is not known here")
        fuel = ""
        if sp.recursive or not sp.done:
            fuel = " fuel" if (self.tr.stack and self.tr.stack[-1] is sp and not sp.done) else " (rec_limit P)"
        x = self.tmp()
        allargs = ([args[0][0]] if has_self else []) + [t for t, _ in conv]
        binds.append((x, f"{sp.coqname}{fuel}" + "".join(" " + a for a in allargs)))
        return x, sp.ret

    def bind_args(self, qual, e, env, binds, node, first=None):
        """evaluate the arguments of call e in source order and arrange them by the parameters of qual"""
        fd, kind, cls = self.tr.lookup(qual, node)
        params = fd.args.args[1:] if (cls is not None and kind != "staticmethod") else fd.args.args
        names = [p.arg for p in params]
        if any(isinstance(a, ast.Starred) for a in e.args) or any(kw.arg is None for kw in e.keywords):
            reject(e, "starred arguments not accepted")
        if len(e.args) > len(names): reject(e, "too many arguments")
        slots = {}
        for i, a in enumerate(e.args):
            slots[names[i]] = first if (i == 0 and first is not None) else self.expr(a, env, binds)
        last = len(e.args) - 1
        for kw in e.keywords:
            if kw.arg not in names or kw.arg in slots or names.index(kw.arg) < last:
                reject(e, "keyword arguments must name distinct parameters in parameter order")
            last = names.index(kw.arg)
            slots[kw.arg] = self.expr(kw.value, env, binds)
        defaults = dict(zip(names[len(names) - len(fd.args.defaults):], fd.args.defaults))
        out = []
        for n in names:
            if n in slots: out.append(slots[n])
            elif n in defaults:
                d = defaults[n]
                if not isinstance(d, ast.Constant) or not (d.value is None or (isinstance(d.value, (int, float)) and not isinstance(d.value, bool))):
                    reject(d, "default value must be None or a number literal")
                out.append(self.expr(d, env, binds))
            else: reject(e, f"missing argument {n}")
        return out

    def literal_ops(self, s, node):
        """PauliTerm("<L><n>*<L><n>...", c) with a string literal: the dict {n: "L", ...} (no coefficient part)"""
        items = []
        for part in s.split("*"):
            m = re.fullmatch(r"([XYZI])([0-9]+)", part)
            if not m: reject(node, "string literal passed to PauliTerm is not of the form <L><n>*<L><n>... with L in XYZI")
            items.append((int(m.group(2)), m.group(1)))
        if len({q for q, _ in items}) != len(items): reject(node, "duplicate qubit index in a PauliTerm string literal")
        return "(py_dict_of_items [" + "; ".join(f'(({q})%Z, "{l}"%string)' for q, l in items) + "])", DICT

    def static_isinstance(self, ty, classes, node):
        names = []
        for c in (classes.elts if isinstance(classes, ast.Tuple) else [classes]):
            if not isinstance(c, ast.Name): reject(node, "isinstance against something that is not a class name")
            names.append(c.id)
        known = set(CLASSES) | NUMCLASSES | {"str", "Sequence"}
        if not set(names) <= known: reject(node, f"isinstance against a class outside {sorted(known)}")
        if ty[0] == "obj": return ty[1] in names
        if ty == NUM:
            if NUMCLASSES <= set(names): return True
            if not NUMCLASSES & set(names): return False
            reject(node, "isinstance on a coefficient that separates int / float / complex (not modelled)")
        if ty == INT: return "int" in names
        if ty == STR: return "str" in names
        if ty[0] == "list": return "Sequence" in names
        if ty in (DICT, NONE): return False
        reject(node, f"isinstance on a value of type {ty}")

    def expr(self, e, env, binds):
        """-> (coq text, type); sub-evaluations that can raise are appended to binds in evaluation order"""
        if isinstance(e, ast.Constant):
            v = e.value
            if v is None: return "tt", NONE
            if isinstance(v, bool): reject(e, "bool literal")
            if isinstance(v, int): return f"({v})%Z", INT
            if isinstance(v, float):
                if v != int(v) or abs(v) > 2 ** 53: reject(e, "float literal that is not a small integer (a coefficient ring has no other constants)")
                return f"(py_num_of_Z P ({int(v)})%Z)", NUM
            if isinstance(v, str):
                if not re.fullmatch(r"[A-Za-z0-9_ .,:*-]*", v): reject(e, "string literal with characters outside [A-Za-z0-9_ .,:*-]")
                return f'"{v}"%string', STR
            reject(e, "literal not accepted")
        if isinstance(e, ast.Name):
            if not isinstance(e.ctx, ast.Load): reject(e, "name in non-load context")
            if e.id in env: return f"v_{e.id}", env[e.id]
            if e.id in TABLES:
                return (f"({e.id} (py_ring P))" if e.id == "COEFF_MAP" else e.id), TABLES[e.id]
            reject(e, "unknown name")
        if isinstance(e, ast.UnaryOp):
            if isinstance(e.op, ast.Not):
                t, ty = self.expr(e.operand, env, binds)
                if ty[0] == "sbool": return ("false" if ty[1] else "true"), ("sbool", not ty[1])
                return f"(negb {self.dyn_bool(t, ty, e)})", BOOL
            if isinstance(e.op, ast.USub):
                t, ty = self.expr(e.operand, env, binds)
                if ty == NUM: return f"(n_neg P {t})", NUM
                if ty == INT: return f"(Z.opp {t})", INT
            reject(e, "unary operator not accepted")
        if isinstance(e, ast.BoolOp):
            return self.boolop(e, env, binds)
        if isinstance(e, ast.IfExp):
            c, tc = self.expr(e.test, env, binds)
            if tc[0] == "sbool": return self.expr(e.body if tc[1] else e.orelse, env, binds)
            ba, bb = [], []
            a, ta = self.expr(e.body, env, ba)
            b, tb = self.expr(e.orelse, env, bb)
            c = self.dyn_bool(c, tc, e)
            if ta == INT and tb == NUM: a, ta = self.as_num(a, ta, e), NUM
            if tb == INT and ta == NUM: b, tb = self.as_num(b, tb, e), NUM
            ty = unify(ta, tb, e)
            if not ba and not bb: return f"(if {c} then {a} else {b})", ty
            x = self.tmp()
            binds.append((x, f"if {c} then ({with_binds(ba, 'Ok ' + a)}) else ({with_binds(bb, 'Ok ' + b)})"))
            return x, ty
        if isinstance(e, ast.List):
            ty, ts = None, []
            for x in e.elts:
                t, tx = self.expr(x, env, binds)
                ty = unify(ty, tx, e)
                ts.append(t)
            return "[" + "; ".join(ts) + "]", LIST(ty)
        if isinstance(e, ast.Dict):
            if e.keys: reject(e, "only the empty dict literal is accepted")
            return "(@nil (Z * string))", DICT
        if isinstance(e, ast.Tuple):
            if len(e.elts) != 2: reject(e, "only pairs")
            a, ta = self.expr(e.elts[0], env, binds)
            b, tb = self.expr(e.elts[1], env, binds)
            return f"({a}, {b})", TUP(ta, tb)
        if isinstance(e, (ast.ListComp, ast.GeneratorExp, ast.DictComp)):
            return self.comprehension(e, env, binds)
        if isinstance(e, ast.Attribute):
            t, ty = self.expr(e.value, env, binds)
            if ty[0] != "obj": reject(e, f"attribute .{e.attr} of a value of type {ty}")
            c = ty[1]
            if c not in self.tr.fields: reject(e, f"the fields of {c} are not known yet")
            for f, fty in self.tr.fields[c]:
                if f == e.attr: return f"({c}_{f} {t})", fty
            if self.tr.has_method(c, e.attr) and self.tr.mod.classes[c][e.attr][1] == "property":
                return self.call_spec(f"{c}.{e.attr}", [(t, ty)], e, binds, has_self=True)
            reject(e, f"{c} has no field or property {e.attr}")
        if isinstance(e, ast.Subscript):
            if isinstance(e.value, ast.Name) and e.value.id in TABLES and e.value.id not in env and TABLES[e.value.id][0] == "table":
                _, kt, vt = TABLES[e.value.id]
                k, tk = self.expr(e.slice, env, binds)
                if tk != kt: reject(e, f"key of type {tk} for {e.value.id}")
                x = self.tmp()
                tab, _ = self.expr(e.value, env, binds)
                binds.append((x, f"py_table_get {'Z.eqb' if kt == INT else 'String.eqb'} {tab} {k}"))
                return x, vt
            t, ty = self.expr(e.value, env, binds)
            k, tk = self.expr(e.slice, env, binds)
            if ty[0] == "obj":
                if not self.tr.has_method(ty[1], "__getitem__"): reject(e, f"{ty[1]} has no __getitem__")
                return self.call_spec(f"{ty[1]}.__getitem__", [(t, ty), (k, tk)], e, binds, has_self=True)
            x = self.tmp()
            if ty == DICT and tk == INT:
                binds.append((x, f"py_dict_getitem {t} {k}")); return x, STR
            if ty[0] == "odict" and tk == ITEMSET and ty[1] is not None:
                binds.append((x, f"py_odict_getitem {t} {k}")); return x, ty[1]
            if ty[0] == "list" and tk == INT and ty[1] is not None:
                binds.append((x, f"py_list_getitem {t} {k}")); return x, ty[1]
            reject(e, f"subscript {ty}[{tk}] not accepted")
        if isinstance(e, ast.BinOp):
            a, ta = self.expr(e.left, env, binds)
            b, tb = self.expr(e.right, env, binds)
            return self.binop(type(e.op), a, ta, b, tb, e, binds)
        if isinstance(e, ast.Compare):
            return self.compare(e, env, binds)
        if isinstance(e, ast.Call):
            return self.call(e, env, binds)
        reject(e, "expression not accepted")

    OPNAMES = {ast.Add: "add", ast.Sub: "sub", ast.Mult: "mul"}

    def binop(self, op, a, ta, b, tb, node, binds):
        nm = self.OPNAMES.get(op)
        if ta[0] == "obj" and nm:
            m = f"__{nm}__"
            if not self.tr.has_method(ta[1], m): reject(node, f"{ta[1]} does not define {m}")
            return self.call_spec(f"{ta[1]}.{m}", [(a, ta), (b, tb)], node, binds, has_self=True)
        if tb[0] == "obj" and nm and ta in (NUM, INT):
            m = f"__r{nm}__"                                   # int / float / complex return NotImplemented for an object operand
            if not self.tr.has_method(tb[1], m): reject(node, f"{tb[1]} does not define {m}")
            return self.call_spec(f"{tb[1]}.{m}", [(b, tb), (a, ta)], node, binds, has_self=True)
        if {ta, tb} <= {NUM, INT} and NUM in (ta, tb) and op in (ast.Add, ast.Mult):
            f = "n_add" if op is ast.Add else "n_mul"
            return f"({f} P {self.as_num(a, ta, node)} {self.as_num(b, tb, node)})", NUM
        ZOPS = {ast.Add: "Z.add", ast.Sub: "Z.sub", ast.Mult: "Z.mul", ast.FloorDiv: "Z.div", ast.Mod: "Z.modulo"}
        if ta == INT and tb == INT and op in ZOPS:
            return f"({ZOPS[op]} {a} {b})", INT
        if ta == STR and tb == STR and op is ast.Add:
            return f"(String.append {a} {b})", STR
        reject(node, f"binary operation {op.__name__} on {ta}, {tb} not accepted")

    def boolop(self, e, env, binds):
        is_and = isinstance(e.op, ast.And)
        acc = None                                  # (text, binds-free) dynamic prefix
        for v in e.values:
            vb = []
            t, ty = self.expr(v, env, vb if acc is not None else binds)
            if ty[0] == "sbool":
                if ty[1] != is_and:                 # `False and ...` / `True or ...`: the rest is never evaluated
                    if acc is None: return t, ty
                    # a dynamic prefix followed by a deciding constant: (a and False) = False only if a is pure: keep a
                    acc = f"({'andb' if is_and else 'orb'} {acc} {t})"
                    break
                continue                            # `True and x` = x ; `False or x` = x
            t = self.dyn_bool(t, ty, v)
            if acc is None:
                acc = t
            elif not vb:
                acc = f"({'andb' if is_and else 'orb'} {acc} {t})"
            else:                                   # the right operand is evaluated only when the left one does not decide
                x = self.tmp()
                rhs = with_binds(vb, "Ok " + t)
                binds.append((x, f"if {acc} then ({rhs}) else Ok false" if is_and else f"if {acc} then Ok true else ({rhs})"))
                acc = x
        if acc is None: return ("true" if is_and else "false"), ("sbool", is_and)
        return acc, BOOL

    def compare(self, e, env, binds):
        if len(e.ops) != 1: reject(e, "chained comparison")
        op, r = type(e.ops[0]), e.comparators[0]
        if op in (ast.Is, ast.IsNot):
            if not (isinstance(r, ast.Constant) and r.value is None): reject(e, "`is` only against None")
            t, ty = self.expr(e.left, env, binds)
            v = (ty == NONE) == (op is ast.Is)
            return ("true" if v else "false"), ("sbool", v)
        a, ta = self.expr(e.left, env, binds)
        b, tb = self.expr(r, env, binds)
        neg = lambda t, n: f"(negb {t})" if n else t
        if op in (ast.In, ast.NotIn):
            if ta == INT and tb == DICT: return neg(f"(py_dict_contains {b} {a})", op is ast.NotIn), BOOL
            if ta == ITEMSET and tb[0] == "odict": return neg(f"(py_odict_contains {b} {a})", op is ast.NotIn), BOOL
            if ta == STR and tb == LIST(STR): return neg(f"(py_in_strs {a} {b})", op is ast.NotIn), BOOL
            reject(e, f"membership test {ta} in {tb} not accepted")
        if op in (ast.Eq, ast.NotEq):
            eqb = {INT: "Z.eqb", STR: "String.eqb", DICT: "py_dict_eqb", ITEMSET: "py_itemset_eqb"}
            if ta == tb and ta in eqb: return neg(f"({eqb[ta]} {a} {b})", op is ast.NotEq), BOOL
            if ta[0] == "obj" and op is ast.Eq and self.tr.has_method(ta[1], "__eq__"):
                return self.call_spec(f"{ta[1]}.__eq__", [(a, ta), (b, tb)], e, binds, has_self=True)
            reject(e, f"comparison {ta} == {tb} not accepted")
        CMP = {ast.Lt: "(Z.ltb {a} {b})", ast.LtE: "(Z.leb {a} {b})", ast.Gt: "(Z.ltb {b} {a})", ast.GtE: "(Z.leb {b} {a})"}
        if op in CMP and ta == INT and tb == INT: return CMP[op].format(a=a, b=b), BOOL
        reject(e, f"comparison {op.__name__} on {ta}, {tb} not accepted")

    def comprehension(self, e, env, binds):
        if len(e.generators) != 1 or e.generators[0].is_async: reject(e, "exactly one `for` clause")
        g = e.generators[0]
        it, ety = self.iterable(g.iter, env, binds)
        pat, env2 = self.pattern(g.target, ety, env)
        for c in g.ifs:
            cb = []
            t, ty = self.expr(c, env2, cb)
            if cb: reject(c, "comprehension condition that can raise")
            it = f"(filter (fun {pat} => {self.dyn_bool(t, ty, c)}) {it})"
        if isinstance(e, ast.DictComp):
            kb = []
            k, tk = self.expr(e.key, env2, kb)
            v, tv = self.expr(e.value, env2, kb)
            if kb or tk != INT or tv != STR: reject(e, "dict comprehension: pure int key and str value expected")
            return f"(py_dict_of_items (map (fun {pat} => ({k}, {v})) {it}))", DICT
        eb = []
        t, ty = self.expr(e.elt, env2, eb)
        if ty[0] == "sbool": t, ty = self.dyn_bool(t, ty, e), BOOL
        if not eb: return f"(map (fun {pat} => {t}) {it})", LIST(ty)
        x = self.tmp()
        binds.append((x, f"py_mapM (fun {pat} => {with_binds(eb, 'Ok ' + t)}) {it}"))
        return x, LIST(ty)

    def call(self, e, env, binds):
        f = e.func
        def plain(n=None):
            if e.keywords or any(isinstance(a, ast.Starred) for a in e.args): reject(e, "keyword / starred arguments not accepted here")
            if n is not None and len(e.args) != n: reject(e, f"expected {n} argument(s)")
        def free(name):                               # a global name of the grammar, not shadowed by a local
            return isinstance(f, ast.Name) and f.id == name and name not in env
        # ---- methods and attributes of modules
        if isinstance(f, ast.Attribute):
            b = f.value
            if isinstance(b, ast.Name) and b.id == "np" and "np" not in env and f.attr in ("isclose", "allclose"):
                plain(2)
                x, tx = self.expr(e.args[0], env, binds)
                y, ty = self.expr(e.args[1], env, binds)
                return f"(np_close P {self.as_num(x, tx, e)} {self.as_num(y, ty, e)})", BOOL
            if isinstance(b, ast.Name) and b.id == "chain" and "chain" not in env and f.attr == "from_iterable":
                plain(1)
                t, ty = self.expr(e.args[0], env, binds)
                if ty[0] != "list": reject(e, "chain.from_iterable of something that is not a list")
                inner, ety = self.iter_typed("y", ty[1], e, binds)
                return f"(List.concat (map (fun y => {inner}) {t}))", LIST(ety)
            # C.m(...) / type(x).m(...) for a static method
            cls = None
            if isinstance(b, ast.Name) and b.id in CLASSES and b.id not in env: cls = b.id
            if isinstance(b, ast.Call) and isinstance(b.func, ast.Name) and b.func.id == "type" and "type" not in env \
                    and len(b.args) == 1 and not b.keywords:
                t, ty = self.expr(b.args[0], env, [])
                if ty[0] != "obj": reject(e, "type(x) of a value that is not an object")
                cls = ty[1]
            if cls is not None:
                if not self.tr.has_method(cls, f.attr) or self.tr.mod.classes[cls][f.attr][1] != "staticmethod":
                    reject(e, f"{cls}.{f.attr} is not a static method")
                args = self.bind_args(f"{cls}.{f.attr}", e, env, binds, e)
                return self.call_spec(f"{cls}.{f.attr}", args, e, binds)
            t, ty = self.expr(b, env, binds)
            if ty[0] == "obj":
                c = ty[1]
                if not self.tr.has_method(c, f.attr) or self.tr.mod.classes[c][f.attr][1] is not None:
                    reject(e, f"{c}.{f.attr} is not a plain method")
                if f.attr.startswith("__"): reject(e, "explicit call of a special method")
                args = self.bind_args(f"{c}.{f.attr}", e, env, binds, e)
                return self.call_spec(f"{c}.{f.attr}", [(t, ty)] + args, e, binds, has_self=True)
            if ty == DICT:
                if f.attr == "copy": plain(0); return f"(py_dict_copy {t})", DICT
                if f.attr == "keys": plain(0); return f"(py_dict_keys {t})", VIEW(INT)
                if f.attr == "values": plain(0); return f"(py_dict_values {t})", VIEW(STR)
                if f.attr == "items": plain(0); return f"(py_dict_items {t})", VIEW(TUP(INT, STR))
                if f.attr == "get":
                    plain(2)
                    k, tk = self.expr(e.args[0], env, binds)
                    d, td = self.expr(e.args[1], env, binds)
                    if tk != INT or td != STR: reject(e, "d.get(k, default): int key and str default expected")
                    return f"(py_dict_get {t} {k} {d})", STR
            if ty[0] == "odict" and f.attr == "values" and ty[1] is not None:
                plain(0); return f"(py_odict_values {t})", LIST(ty[1])
            reject(e, f"method .{f.attr} of a value of type {ty} not accepted")
        if not isinstance(f, ast.Name): reject(e, "call not accepted")
        if f.id in env: reject(e, "call of a local name")
        # ---- constructors
        if f.id in CLASSES:
            first = None
            if f.id == "PauliTerm" and e.args and isinstance(e.args[0], ast.Constant) and isinstance(e.args[0].value, str):
                first = self.literal_ops(e.args[0].value, e)
            args = self.bind_args(f"{f.id}.__init__", e, env, binds, e, first=first)
            return self.call_spec(f"{f.id}.__init__", args, e, binds)
        # ---- module-level functions
        if f.id in self.tr.mod.functions:
            args = self.bind_args(f.id, e, env, binds, e)
            return self.call_spec(f.id, args, e, binds)
        # ---- builtins and imported helpers
        if f.id == "isinstance":
            plain(2)
            t, ty = self.expr(e.args[0], env, [])
            v = self.static_isinstance(ty, e.args[1], e)
            return ("true" if v else "false"), ("sbool", v)
        if f.id == "cast":
            plain(2)
            return self.expr(e.args[1], env, binds)
        if f.id == "OrderedDict":
            plain(0)
            return "py_odict_empty", ODICT(None)
        if f.id == "complex":
            plain(1)
            t, ty = self.expr(e.args[0], env, binds)
            return f"(py_complex P {self.as_num(t, ty, e)})", NUM
        if f.id == "ord":
            plain(1)
            t, ty = self.expr(e.args[0], env, binds)
            if ty != STR: reject(e, "ord of a non-string")
            return f"(ord {t})", INT
        if f.id == "len":
            plain(1)
            t, ty = self.expr(e.args[0], env, binds)
            if ty[0] == "list": return f"(py_len {t})", INT
            if ty[0] == "obj" and self.tr.has_method(ty[1], "__len__"):
                return self.call_spec(f"{ty[1]}.__len__", [(t, ty)], e, binds, has_self=True)
            reject(e, f"len of {ty} not accepted")
        if f.id == "chain":
            plain(2)
            a, ta = self.iterable(e.args[0], env, binds)
            b, tb = self.iterable(e.args[1], env, binds)
            return f"({a} ++ {b})", LIST(unify(ta, tb, e))
        if f.id == "product":
            plain(2)
            a, ta = self.iterable(e.args[0], env, binds)
            b, tb = self.iterable(e.args[1], env, binds)
            return f"(py_product {a} {b})", LIST(TUP(ta, tb))
        if f.id in ("set", "frozenset", "all", "sum", "max"):
            plain(1)
            it, ety = self.iterable(e.args[0], env, binds)
            if f.id == "set" and ety == INT: return f"(py_set_of_list {it})", SETI
            if f.id == "frozenset" and ety == TUP(INT, STR): return f"(py_itemset_of_list {it})", ITEMSET
            if f.id == "all" and ety == BOOL: return f"(py_all {it})", BOOL
            if f.id == "sum" and ety == NUM: return f"(py_sum_num P {it})", NUM
            if f.id == "max" and ety == INT:
                x = self.tmp()
                binds.append((x, f"py_max_Z {it}"))
                return x, INT
            reject(e, f"{f.id}() over elements of type {ety} not accepted")
        reject(e, "call not accepted")

# ----------------------------------------------------------------------------- the operator protocol on run-time kinds
def dispatcher(tr, opname, op):
    """binop_<op>_gen a b: `a OP b` for a, b each a PauliTerm, a PauliSum or a plain number"""
    lines = [f"(* a {dict(add='+', sub='-', mul='*')[opname]} b by the binary operator protocol, for each pair of run-time kinds *)",
             f"Definition binop_{opname}_gen (a b : pyval) : result pyval :=", "  match a, b with"]
    wrap = {TERM: "VT", SUM: "VS", NUM: "VN"}
    for ka, ta in KINDS:
        for kb, tb in KINDS:
            if ta == NUM and tb == NUM:
                lines.append("  | VN _, VN _ => Raise NotTranslated        (* two plain numbers: no library code runs *)")
                continue
            fn = Fn(tr, Spec("<dispatch>", (), "dispatch"), None, None, None)
            binds = []
            node = ast.parse(f"a {dict(add='+', sub='-', mul='*')[opname]} b").body[0].value
            x, ty = fn.binop(op, "x", ta, "y", tb, node, binds)
            if ty not in wrap: reject(node, f"operator result of type {ty}")
            lines.append(f"  | V{ka} x, V{kb} y => " + with_binds(binds, f"Ok ({wrap[ty]} {x})").replace("\n  ", " "))
    lines.append("  end.\n")
    return "\n".join(lines)

def pow_dispatcher(tr):
    lines = ["(* a ** k for an int k *)", "Definition binop_pow_gen (a : pyval) (k : Z) : result pyval :=", "  match a with"]
    for ka, ta, w in (("T", TERM, "VT"), ("S", SUM, "VS")):
        sp = tr.get_spec(f"{ta[1]}.__pow__", (INT,), None)
        if sp.ret != ta: raise Reject(f"{ta[1]}.__pow__ returns {sp.ret}")
        lines.append(f"  | V{ka} x => bind ({sp.coqname} x k) (fun r => Ok ({w} r))")
    lines.append("  | VN _ => Raise NotTranslated        (* a plain number: no library code runs *)\n  end.\n")
    return "\n".join(lines)

HEADER = """(* GENERATED by tr/tr_pauli_ops.py from src/orquestra/quantum/operators/_pauli_operators.py - do not edit.
   Every definition below is the statement-by-statement translation of the Python function named in the comment
   above it, specialised at the static argument types given there; the meaning of the building blocks is fixed in
   Pauli/PauliOpsTrSupport.v; agreement with the model of Pauli/Algebra.v is proved in Pauli/PauliOpsGenProofs.v. *)
Require Import Coq.ZArith.ZArith Coq.Lists.List Coq.Strings.String Coq.Bool.Bool.
Require Import OQ.Base.Ring OQ.Gen.PauliTablesGen OQ.Pauli.PauliOpsTrSupport.
Import ListNotations.
Open Scope list_scope.

Section PauliOpsGen.
Variable P : pyenv.

"""

def translate(repo):
    tree = ast.parse(open(os.path.join(repo, SRC)).read())
    tr = Tr(Module(tree))
    for c in CLASSES:
        tr.get_spec(f"{c}.__init__", CANONICAL_INIT[c], tree)
    for q, tys in ROOTS:
        tr.get_spec(q, tys, tree)
    tail = ["(* a run-time value that can stand on either side of an operator *)\n"
            "Inductive pyval : Type := VT (t : PauliTerm_obj) | VS (s : PauliSum_obj) | VN (c : num P).\n"]
    disp = [dispatcher(tr, nm, op) for nm, op in BINOPS] + [pow_dispatcher(tr)]
    text = HEADER + "\n".join(tr.out) + "\n" + "\n".join(tail + disp) + "\nEnd PauliOpsGen.\n"
    if FORBIDDEN_TEXT.search(re.sub(r"\(\*.*?\*\)", "", text, flags=re.S).replace("(*", "").replace("*)", "")):
        raise Reject("generated text contains a forbidden word")
    return text

def drop_dependents(out):
    """the sandbox clock is coarse: after the generated text has changed, an object file of a file that depends on it may
    look up to date to make.  Remove the objects of every .v file that mentions the generated module or its proofs."""
    root = os.path.dirname(os.path.abspath(out))
    for d, _, names in os.walk(root):
        for n in names:
            if n.endswith(".v") and os.path.join(d, n) != os.path.join(os.path.abspath(out), OUTPUTS[0]):
                try:
                    if "PauliOpsGen" not in open(os.path.join(d, n), errors="replace").read(): continue
                except OSError:
                    continue
                for ext in (".vo", ".vok", ".vos", ".glob"):
                    try: os.unlink(os.path.join(d, n)[:-2] + ext)
                    except OSError: pass

def run(repo, out):
    target = os.path.join(out, OUTPUTS[0])
    try:
        text = translate(repo)
    except Reject as e:
        # fail closed: no stale definitions from an earlier source may survive a rejection; the file below does not compile
        why = re.sub(r"[^A-Za-z0-9 _.,:=()\[\]'-]", " ", str(e))[:300].replace("(*", "( *").replace("*)", "* )")
        if write_if_changed(target, "(* GENERATED by tr/tr_pauli_ops.py - THE TRANSLATOR REJECTED THE SOURCE:\n   " + why
                            + " *)\nDefinition translator_rejected_the_source : False := I.\n"):
            drop_dependents(out)
        raise
    if write_if_changed(target, text):
        drop_dependents(out)
    print("tr_pauli_ops: ok")

if __name__ == "__main__":
    main_wrapper(run)
